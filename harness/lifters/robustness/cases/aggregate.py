"""aggregate.py (AggregateSpec.lean) -- ratio_sub_one and the grouping constants of DisaggregatedResult.difference / ratio"""
F = "fairlearn/metrics/_disaggregated_result.py"


def R(id, what, *edits, **kw):
    return dict(id="aggregate-" + id, kind="R", file=F, edits=list(edits), what=what, **kw)


def S(id, what, *edits, **kw):
    return dict(id="aggregate-" + id, kind="S", file=F, edits=list(edits), what=what, **kw)


SUB = ("        def ratio_sub_one(x):\n            if x > 1:\n                return 1 / x\n            else:\n                return x\n")

CASES = [
    # ------------------------------------------------------------------ refactors
    R("r-rename-arg", "ratio_sub_one: rename the argument, annotate, docstring",
      (SUB, "        def ratio_sub_one(value: float) -> float:\n            \"\"\"Express a ratio as a number <= 1.\"\"\"\n"
       "            if value > 1:\n                return 1 / value\n            else:\n                return value\n")),
    R("r-flip-test", "ratio_sub_one: `1 < x`", ("            if x > 1:\n", "            if 1 < x:\n")),
    R("r-no-else", "ratio_sub_one: early return without else",
      (SUB, "        def ratio_sub_one(x):\n            if x > 1:\n                return 1 / x\n            return x\n")),
    R("r-ifexp", "ratio_sub_one: conditional expression",
      (SUB, "        def ratio_sub_one(x):\n            return 1 / x if x > 1 else x\n")),
    R("r-not-test", "ratio_sub_one: `if not x > 1: return x else: return 1 / x`",
      (SUB, "        def ratio_sub_one(x):\n            if not x > 1:\n                return x\n            else:\n                return 1 / x\n")),
    R("r-temp", "ratio_sub_one: temporary for the reciprocal, float literal 1.0",
      (SUB, "        def ratio_sub_one(x):\n            if x > 1:\n                inverse = 1.0 / x\n                return inverse\n            else:\n                return x\n")),
    R("r-move-def", "ratio: ratio_sub_one defined after the errors guard",
      (SUB + "\n", ""),
      ("        if method == \"between_groups\":\n            result = self.apply_grouping(\n", SUB + "\n        if method == \"between_groups\":\n            result = self.apply_grouping(\n")),
    R("r-hoist", "ratio_sub_one hoisted to a module-level function of the same name",
      (SUB + "\n", ""),
      ("class DisaggregatedResult:", "def ratio_sub_one(x):\n    if x > 1:\n        return 1 / x\n    else:\n        return x\n\n\nclass DisaggregatedResult:")),
    # ------------------------------------------------------------------ semantic edits
    S("s-ge", "ratio_sub_one: `x >= 1`", ("            if x > 1:\n", "            if x >= 1:\n")),
    S("s-lt", "ratio_sub_one: `x < 1`", ("            if x > 1:\n", "            if x < 1:\n")),
    S("s-const", "ratio_sub_one: threshold 2", ("            if x > 1:\n", "            if x > 2:\n")),
    S("s-recip-swapped", "ratio_sub_one: x / 1", ("                return 1 / x\n", "                return x / 1\n")),
    S("s-recip-two", "ratio_sub_one: 2 / x", ("                return 1 / x\n", "                return 2 / x\n")),
    S("s-branches", "ratio_sub_one: branches swapped",
      ("                return 1 / x\n            else:\n                return x\n", "                return x\n            else:\n                return 1 / x\n")),
    S("s-neg", "ratio_sub_one: else branch returns -x", ("            else:\n                return x\n", "            else:\n                return -x\n")),
    S("s-second-def", "ratio: a second ratio_sub_one (identity) shadows the first",
      ("        if method == \"between_groups\":\n            result = self.apply_grouping(\n",
       "        def ratio_sub_one(x):\n            return x\n\n        if method == \"between_groups\":\n            result = self.apply_grouping(\n")),
    S("s-diff-agg", "difference: both aggregations min", (".abs().max()", ".abs().min()"),
      (".abs().groupby(level=control_feature_names).max()", ".abs().groupby(level=control_feature_names).min()")),
    S("s-ratio-num", "ratio(between_groups): numerator apply_grouping(\"max\")",
      ("                \"min\", control_feature_names, errors=errors\n            ) /", "                \"max\", control_feature_names, errors=errors\n            ) /")),
]
