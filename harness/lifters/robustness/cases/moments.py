"""moments.py (MomentsSrc.lean) -- fairlearn/reductions/_moments/{moment,utility_parity,error_rate,bounded_group_loss}.py"""
UP = "fairlearn/reductions/_moments/utility_parity.py"
MO = "fairlearn/reductions/_moments/moment.py"
ER = "fairlearn/reductions/_moments/error_rate.py"
BG = "fairlearn/reductions/_moments/bounded_group_loss.py"


def R(id, what, *edits, file=UP, **kw):
    return dict(id="moments-" + id, kind="R", file=file, edits=list(edits), what=what, **kw)


def S(id, what, *edits, file=UP, **kw):
    return dict(id="moments-" + id, kind="S", file=file, edits=list(edits), what=what, **kw)


UPLUS = ("            self.U[\"+\", e, g] = (\n                event_select / self.prob_event[e]\n"
         "                + (-self.ratio) * group_event_select / self.prob_group_event[e, g]\n            )\n")
UMINUS = ("            self.U[\"-\", e, g] = (-self.ratio) * event_select / self.prob_event[\n                e\n"
          "            ] + group_event_select / self.prob_group_event[e, g]\n")
PRED = "        pred = self.utility_diff.T * predictions + self.utilities[:, 0]\n"
W = "        weights = -self.fp_cost + (self.fp_cost + self.fn_cost) * self.tags[_LABEL]\n"

CASES = [
    # ------------------------------------------------------------------ refactors
    R("r-rename-loop", "rename e / g / event_select / group_event_select in UtilityParity.load_data",
      ("        for e, g in self.prob_group_event.index:\n            event_select = 1 * (self.tags[_EVENT] == e)\n"
       "            group_event_select = event_select * (self.tags[_GROUP_ID] == g)\n" + UPLUS + UMINUS,
       "        for ev, grp in self.prob_group_event.index:\n            in_event = 1 * (self.tags[_EVENT] == ev)\n"
       "            in_both = in_event * (self.tags[_GROUP_ID] == grp)\n"
       "            self.U[\"+\", ev, grp] = (\n                in_event / self.prob_event[ev]\n"
       "                + (-self.ratio) * in_both / self.prob_group_event[ev, grp]\n            )\n"
       "            self.U[\"-\", ev, grp] = (-self.ratio) * in_event / self.prob_event[\n                ev\n"
       "            ] + in_both / self.prob_group_event[ev, grp]\n")),
    R("r-commute-u", "commute the summands of U+ and the factors of the selectors",
      (UPLUS, "            self.U[\"+\", e, g] = (\n                (-self.ratio) * group_event_select / self.prob_group_event[e, g]\n"
              "                + event_select / self.prob_event[e]\n            )\n"),
      ("            event_select = 1 * (self.tags[_EVENT] == e)", "            event_select = (self.tags[_EVENT] == e) * 1"),
      ("            group_event_select = event_select * (self.tags[_GROUP_ID] == g)", "            group_event_select = (self.tags[_GROUP_ID] == g) * event_select")),
    R("r-temps-u", "temporaries for P(e) and P(e, g) inside the loop; U- before U+",
      (UPLUS + UMINUS,
       "            p_e = self.prob_event[e]\n            p_ge = self.prob_group_event[e, g]\n"
       "            self.U[\"-\", e, g] = (-self.ratio) * event_select / p_e + group_event_select / p_ge\n"
       "            self.U[\"+\", e, g] = event_select / p_e + (-self.ratio) * group_event_select / p_ge\n")),
    R("r-logger-annot", "logger.debug / annotation / comment in load_data and gamma",
      ("        self.utility_diff = self.utilities[:, 1] - self.utilities[:, 0]\n",
       "        # difference of the two utility columns\n        self.utility_diff: np.ndarray = self.utilities[:, 1] - self.utilities[:, 0]\n"
       "        logger.debug(\"loaded %d rows\", len(self.tags))\n"),
      (PRED, "        pred: np.ndarray = self.utility_diff.T * predictions + self.utilities[:, 0]\n")),
    R("r-gamma-temps", "temporaries and commuted operands in UtilityParity.gamma; renamed locals",
      (PRED + "        g_signed = -self.U.T.dot(pred) / self.total_samples\n        self._gamma_descr = str(g_signed)\n        return g_signed",
       "        base = self.utilities[:, 0]\n        pred = base + predictions * self.utility_diff.T\n"
       "        projected = self.U.T.dot(pred)\n        g_signed = -projected / self.total_samples\n        self._gamma_descr = str(g_signed)\n        return g_signed")),
    R("r-gamma-rename", "rename predictions / pred / g_signed in UtilityParity.gamma",
      ("        predictions = np.asarray(predictor(self.X))\n        # TensorFlow seems to return an (n,1) array instead of an (n) array\n"
       "        predictions = np.squeeze(predictions)\n" + PRED +
       "        g_signed = -self.U.T.dot(pred) / self.total_samples\n        self._gamma_descr = str(g_signed)\n        return g_signed",
       "        y_hat = np.asarray(predictor(self.X))\n        y_hat = np.squeeze(y_hat)\n"
       "        util = self.utility_diff.T * y_hat + self.utilities[:, 0]\n"
       "        viol = -self.U.T.dot(util) / self.total_samples\n        self._gamma_descr = str(viol)\n        return viol")),
    R("r-sw-commute-temp", "signed_weights: commuted product through a temporary",
      ("        return self.utility_diff * self.U.dot(lambda_vec)", "        per_row = self.U.dot(lambda_vec)\n        return per_row * self.utility_diff")),
    R("r-bound-positional", "bound(): pd.Series(self.eps, self.index); 'all' event spelled positionally",
      ("        return pd.Series(self.eps, index=self.index)", "        return pd.Series(self.eps, self.index)"),
      ("        utilities = np.vstack([y_train, 1 - y_train]).T\n        base_event = pd.Series(data=_ALL, index=y_train.index)",
       "        utilities = np.vstack((y_train, 1 - y_train)).T\n        base_event = pd.Series(_ALL, index=y_train.index)")),
    R("r-events-rename", "rename the lambda argument in TruePositiveRateParity.load_data; f-string label; mirrored `1 == y_train`",
      ("        base_event = y_train.apply(lambda v: _LABEL + \"=\" + str(v)).where(y_train == 1)\n"
       "        event = _merge_event_and_control_columns(base_event, cf_train)\n"
       "        super().load_data(X, y_train, event=event, sensitive_features=sf_train)",
       "        base_event = y_train.apply(lambda lab: f\"{_LABEL}={lab}\").where(1 == y_train)\n"
       "        event = _merge_event_and_control_columns(base_event, cf_train)\n"
       "        super().load_data(X, y_train, event=event, sensitive_features=sf_train)")),
    R("r-events-rename-base", "rename base_event in FalsePositiveRateParity.load_data",
      ("        base_event = y_train.apply(lambda v: _LABEL + \"=\" + str(v)).where(y_train == 0)\n"
       "        event = _merge_event_and_control_columns(base_event, cf_train)\n",
       "        label_event = y_train.apply(lambda v: _LABEL + \"=\" + str(v)).where(y_train == 0)\n"
       "        event = _merge_event_and_control_columns(label_event, cf_train)\n"),
      expect="refused", why="moments.py accepts it (MomentsSrc.lean unchanged); merge_callers.py (not in this group) matches the "
                            "literal `_merge_event_and_control_columns(base_event, ...)`"),
    R("r-default-utils-tuple", "default utilities via np.vstack((zeros, ones)).T",
      ("            utilities = np.vstack(\n                [\n                    np.zeros(y.shape, dtype=np.float64),\n                    np.ones(y.shape, dtype=np.float64),\n                ]\n            ).T",
       "            utilities = np.vstack(\n                (\n                    np.zeros(y.shape, dtype=np.float64),\n                    np.ones(y.shape, dtype=np.float64),\n                )\n            ).T")),
    R("r-er-weights", "ErrorRate.signed_weights: temporary for the total cost, commuted sum", (W,
      "        total_cost = self.fp_cost + self.fn_cost\n        weights = total_cost * self.tags[_LABEL] + -self.fp_cost\n"), file=ER),
    R("r-er-gamma-temp", "ErrorRate.gamma: temporaries for the positive part and the total cost",
      ("        total_fn_cost = np.sum(signed_errors[signed_errors > 0] * self.fn_cost)\n", "        under = signed_errors[signed_errors > 0]\n        total_fn_cost = np.sum(under * self.fn_cost)\n"),
      ("        error_value = (total_fn_cost + total_fp_cost) / self.total_samples\n", "        total_cost = total_fn_cost + total_fp_cost\n        error_value = total_cost / self.total_samples\n"),
      file=ER),
    R("r-er-gamma", "ErrorRate.gamma: renamed locals, mirrored comparison, commuted costs",
      ("        signed_errors = self.tags[_LABEL] - pred\n        total_fn_cost = np.sum(signed_errors[signed_errors > 0] * self.fn_cost)\n"
       "        total_fp_cost = np.sum(-signed_errors[signed_errors < 0] * self.fp_cost)\n"
       "        error_value = (total_fn_cost + total_fp_cost) / self.total_samples\n        error = pd.Series(data=error_value, index=self.index)\n"
       "        self._gamma_descr = str(error)\n        return error",
       "        diff = self.tags[_LABEL] - pred\n        fn_total = np.sum(self.fn_cost * diff[0 < diff])\n"
       "        fp_total = np.sum(-diff[diff < 0] * self.fp_cost)\n"
       "        value = (fp_total + fn_total) / self.total_samples\n        err = pd.Series(data=value, index=self.index)\n"
       "        self._gamma_descr = str(err)\n        return err"), file=ER),
    R("r-bgl-adjust", "ConditionalLossMoment.signed_weights: `if lambda_vec is not None` with exchanged branches, positional index",
      ("        if lambda_vec is None:\n            adjust = pd.Series(1.0, index=self.index)\n        else:\n            adjust = lambda_vec / self.prob_attr\n",
       "        if lambda_vec is not None:\n            adjust = lambda_vec / self.prob_attr\n        else:\n            adjust = pd.Series(1.0, self.index)\n"), file=BG),
    R("r-loss-temps", "SquareLoss / AbsoluteLoss.eval with temporaries for the clipped values",
      ("        return (\n            np.clip(y_true, self.min_val, self.max_val)\n            - np.clip(y_pred, self.min_val, self.max_val)\n        ) ** 2",
       "        clipped_true = np.clip(y_true, self.min_val, self.max_val)\n        clipped_pred = np.clip(y_pred, self.min_val, self.max_val)\n"
       "        return (clipped_true - clipped_pred) ** 2"),
      ("        return np.abs(\n            np.clip(y_true, self.min_val, self.max_val)\n            - np.clip(y_pred, self.min_val, self.max_val)\n        )",
       "        residual = np.clip(y_true, self.min_val, self.max_val) - np.clip(y_pred, self.min_val, self.max_val)\n        return np.abs(residual)"),
      file=BG),
    R("r-format-fstring", "_combine_event_and_control with an f-string instead of _CTRL_EVENT_FORMAT.format",
      ("        return _CTRL_EVENT_FORMAT.format(control, event)", "        return f\"control={control},{event}\""),
      expect="refused", why="the lifted constant _CTRL_EVENT_FORMAT would no longer be what the code uses; the lifter cannot tell the "
                            "f-string is the same text without re-deriving the format, so it refuses"),
    # ------------------------------------------------------------------ semantic edits
    S("s-uplus-sign", "U+ with +ratio", (UPLUS, UPLUS.replace("+ (-self.ratio)", "+ (self.ratio)"))),
    S("s-uminus-swapped", "U- with the roles of the selectors exchanged",
      (UMINUS, "            self.U[\"-\", e, g] = (-self.ratio) * group_event_select / self.prob_event[\n                e\n            ] + event_select / self.prob_group_event[e, g]\n")),
    S("s-u-den", "U+ divides both terms by P(e)", (UPLUS, UPLUS.replace("self.prob_group_event[e, g]", "self.prob_event[e]"))),
    S("s-select-group", "group selector without the event selector",
      ("            group_event_select = event_select * (self.tags[_GROUP_ID] == g)", "            group_event_select = 1 * (self.tags[_GROUP_ID] == g)")),
    S("s-prob-event", "prob_event not normalised", ("        self.prob_event = self.tags.groupby(_EVENT).size() / self.total_samples", "        self.prob_event = self.tags.groupby(_EVENT).size()")),
    S("s-utildiff", "utility_diff = u0 - u1", ("        self.utility_diff = self.utilities[:, 1] - self.utilities[:, 0]", "        self.utility_diff = self.utilities[:, 0] - self.utilities[:, 1]")),
    S("s-default-utils", "default utilities [ones, zeros]",
      ("                    np.zeros(y.shape, dtype=np.float64),\n                    np.ones(y.shape, dtype=np.float64),", "                    np.ones(y.shape, dtype=np.float64),\n                    np.zeros(y.shape, dtype=np.float64),")),
    S("s-pred", "pred uses utilities[:, 1]", (PRED, PRED.replace("utilities[:, 0]", "utilities[:, 1]"))),
    S("s-gamma-sign", "gamma without the minus", ("        g_signed = -self.U.T.dot(pred) / self.total_samples", "        g_signed = self.U.T.dot(pred) / self.total_samples")),
    S("s-gamma-stale-pred", "gamma from a temporary taken before pred is complete",
      (PRED, "        pred = self.utility_diff.T * predictions\n        projected = self.U.T.dot(pred)\n        pred = pred + self.utilities[:, 0]\n"),
      ("        g_signed = -self.U.T.dot(pred) / self.total_samples", "        g_signed = -projected / self.total_samples")),
    S("s-sw", "signed_weights uses U.T", ("        return self.utility_diff * self.U.dot(lambda_vec)", "        return self.utility_diff * self.U.T.dot(lambda_vec)")),
    S("s-bound", "bound() = 2 * eps", ("        return pd.Series(self.eps, index=self.index)", "        return pd.Series(2 * self.eps, index=self.index)")),
    S("s-tpr-label", "TPR conditions on y == 0", ("str(v)).where(y_train == 1)", "str(v)).where(y_train == 0)")),
    S("s-label-sep", "label event separator ':' in EqualizedOdds",
      ("        base_event = y_train.apply(lambda v: _LABEL + \"=\" + str(v))\n", "        base_event = y_train.apply(lambda v: _LABEL + \":\" + str(v))\n")),
    S("s-erp-utils", "ErrorRateParity utilities [1 - y, y]", ("np.vstack([y_train, 1 - y_train]).T", "np.vstack([1 - y_train, y_train]).T")),
    S("s-format", "control/event order in the format string", ("_CTRL_EVENT_FORMAT = \"control={0},{1}\"", "_CTRL_EVENT_FORMAT = \"control={1},{0}\"")),
    S("s-format-args", "format(event, control)", ("_CTRL_EVENT_FORMAT.format(control, event)", "_CTRL_EVENT_FORMAT.format(event, control)")),
    S("s-default-eps", "default difference bound 0.1", ("_DEFAULT_DIFFERENCE_BOUND = 0.01", "_DEFAULT_DIFFERENCE_BOUND = 0.1")),
    S("s-all-const", "_ALL renamed value", ("_ALL = \"all\"", "_ALL = \"any\""), file=MO),
    S("s-er-weights", "objective weights: fp_cost - ...", (W, W.replace("-self.fp_cost +", "self.fp_cost -")), file=ER),
    S("s-er-fn-mask", "false negatives from negative errors", ("signed_errors[signed_errors > 0] * self.fn_cost", "signed_errors[signed_errors < 0] * self.fn_cost"), file=ER),
    S("s-er-mirror-wrong", "`0 > signed_errors` (operands swapped, operator kept)", ("signed_errors[signed_errors > 0] * self.fn_cost", "signed_errors[0 > signed_errors] * self.fn_cost"), file=ER),
    S("s-er-value", "error_value not normalised", ("        error_value = (total_fn_cost + total_fp_cost) / self.total_samples", "        error_value = total_fn_cost + total_fp_cost"), file=ER),
    S("s-bgl-adjust", "adjust = lambda * P(g)", ("            adjust = lambda_vec / self.prob_attr", "            adjust = lambda_vec * self.prob_attr"), file=BG),
    S("s-bgl-adjust-test", "adjust branches chosen by `is not None` with unchanged bodies",
      ("        if lambda_vec is None:\n            adjust = pd.Series(1.0, index=self.index)", "        if lambda_vec is not None:\n            adjust = pd.Series(1.0, index=self.index)"), file=BG),
    S("s-bgl-probattr", "prob_attr not normalised", ("        self.prob_attr = self.tags.groupby(_GROUP_ID).size() / self.total_samples", "        self.prob_attr = self.tags.groupby(_GROUP_ID).size()"), file=BG),
    S("s-square-clip", "SquareLoss.eval clips only y_true", ("            - np.clip(y_pred, self.min_val, self.max_val)\n        ) ** 2", "            - y_pred\n        ) ** 2"), file=BG),
    S("s-abs-clip-args", "AbsoluteLoss.eval clip(lo, hi) exchanged", ("        return np.abs(\n            np.clip(y_true, self.min_val, self.max_val)", "        return np.abs(\n            np.clip(y_true, self.max_val, self.min_val)"), file=BG),
    S("s-zeroone", "ZeroOneLoss range (0, 2)", ("        super().__init__(0, 1)", "        super().__init__(0, 2)"), file=BG),
]

COMB = ("    if pd.notnull(control) and pd.notnull(event):\n        return _CTRL_EVENT_FORMAT.format(control, event)\n    return event\n")
MERGE = ("    if control_col is None:\n        return event_col\n    return event_col.combine(control_col, _combine_event_and_control)\n")
CHAIN1 = "            self.eps = _DEFAULT_DIFFERENCE_BOUND\n            self.ratio = 1.0\n"
CHAIN3 = "            self.ratio = ratio_bound\n"

CASES += [
    # ---- _combine_event_and_control / _merge_event_and_control_columns / self.ratio (lifted since L1) -------- refactors
    R("r-combine-guard-order", "the two notnull tests exchanged", (COMB, COMB.replace("pd.notnull(control) and pd.notnull(event)", "pd.notnull(event) and pd.notnull(control)")),
      expect="changed", why="`a && b` vs `b && a` is emitted in source order; C06.event_rule_lifted re-proves for both (class b)"),
    R("r-combine-if-else", "if / else instead of the early return", (COMB, COMB.replace("    return event\n", "    else:\n        return event\n"))),
    R("r-combine-notna", "pd.notna instead of pd.notnull", (COMB, COMB.replace("pd.notnull(control)", "pd.notna(control)"))),
    R("r-combine-isnull-first", "null test first: `if pd.isnull(control) or pd.isnull(event): return event`",
      (COMB, "    if pd.isnull(control) or pd.isnull(event):\n        return event\n    return _CTRL_EVENT_FORMAT.format(control, event)\n"),
      expect="changed", why="De Morgan form is emitted as written; C06.event_rule_lifted re-proves (class b)"),
    R("r-merge-if-else", "merge: if / else, `func=` keyword", (MERGE, "    if control_col is None:\n        return event_col\n    else:\n        return event_col.combine(control_col, func=_combine_event_and_control)\n")),
    R("r-merge-is-not", "merge: `if control_col is not None:` with exchanged branches",
      (MERGE, "    if control_col is not None:\n        return event_col.combine(control_col, _combine_event_and_control)\n    return event_col\n")),
    R("r-ratio-reorder", "self.ratio assigned before self.eps in the first branch", (CHAIN1, "            self.ratio = 1.0\n            self.eps = _DEFAULT_DIFFERENCE_BOUND\n")),
    # ------------------------------------------------------------------ semantic edits
    S("s-combine-no-guard", "F3 reverted: always formats", (COMB, "    return _CTRL_EVENT_FORMAT.format(control, event)\n")),
    S("s-combine-guard-control-only", "guard on the control value only", (COMB, COMB.replace("pd.notnull(control) and pd.notnull(event)", "pd.notnull(control)"))),
    S("s-combine-or", "guard with `or`", (COMB, COMB.replace(") and pd.notnull(", ") or pd.notnull("))),
    S("s-combine-returns-control", "null case returns the control value", (COMB, COMB.replace("    return event\n", "    return control\n"))),
    S("s-merge-receiver", "control_col.combine(event_col, ..): the function gets (control, event)", (MERGE, MERGE.replace("event_col.combine(control_col,", "control_col.combine(event_col,"))),
    S("s-merge-none-flip", "merge skipped when a control column IS given", (MERGE, MERGE.replace("control_col is None", "control_col is not None"))),
    S("s-ratio-default", "default ratio 0.5 when no bound is given", (CHAIN1, CHAIN1.replace("self.ratio = 1.0", "self.ratio = 0.5"))),
    S("s-ratio-slack", "ratio branch stores the slack as ratio", (CHAIN3, "            self.ratio = ratio_bound_slack\n")),
]
