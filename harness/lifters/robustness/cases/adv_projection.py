"""adv_projection.py (AdvProjection.lean) -- the normalise / project / combine loop bodies of both engines, TF gradient sources"""
FT = "fairlearn/adversarial/_pytorch_engine.py"
FF = "fairlearn/adversarial/_tensorflow_engine.py"


def R(id, what, *edits, **kw):
    return dict(id="adv_projection-" + id, kind="R", file=kw.pop("file", FT), edits=list(edits), what=what, **kw)


def S(id, what, *edits, **kw):
    return dict(id="adv_projection-" + id, kind="S", file=kw.pop("file", FT), edits=list(edits), what=what, **kw)


T_UNIT = "            unit_dW_LA = dW_LA[i] / (torch.norm(dW_LA[i]) + torch.finfo(torch.float32).tiny)\n"
T_PROJ = "            proj = torch.sum(unit_dW_LA * dW_LP[i])\n"
T_GRAD = "            p.grad = dW_LP[i] - (proj * unit_dW_LA) - (self.base.alpha * dW_LA[i])\n"
F_UNIT = "            unit_dW_LA = dW_LA[i] / (tensorflow.norm(dW_LA[i]) + finfo(float32).tiny)\n"
F_PROJ = "            proj = tensorflow.reduce_sum(tensorflow.multiply(dW_LP[i], unit_dW_LA))\n"
F_GRAD = "            dW_LP[i] = dW_LP[i] - (proj * unit_dW_LA) - (self.base.alpha * dW_LA[i])\n"

CASES = [
    # ------------------------------------------------------------------ refactors
    R("r-torch-rename", "torch loop: rename unit_dW_LA -> unit, proj -> along, i -> k",
      ("        for i, p in enumerate(self.predictor_model.parameters()):\n            # Normalize dW_LA\n" + T_UNIT + "            # Project\n" + T_PROJ + "            # Calculate dW\n" + T_GRAD,
       "        for k, p in enumerate(self.predictor_model.parameters()):\n            unit = dW_LA[k] / (torch.norm(dW_LA[k]) + torch.finfo(torch.float32).tiny)\n"
       "            along = torch.sum(unit * dW_LP[k])\n            p.grad = dW_LP[k] - (along * unit) - (self.base.alpha * dW_LA[k])\n")),
    R("r-torch-commute", "torch loop: factors of the products commuted, sum spelled as a method",
      (T_PROJ, "            proj = (dW_LP[i] * unit_dW_LA).sum()\n"),
      (T_GRAD, "            p.grad = dW_LP[i] - (unit_dW_LA * proj) - (dW_LA[i] * self.base.alpha)\n")),
    R("r-torch-temps", "torch loop: temporaries for the norm and the regulariser",
      (T_UNIT, "            size = torch.norm(dW_LA[i])\n            unit_dW_LA = dW_LA[i] / (size + torch.finfo(torch.float32).tiny)\n")),
    R("r-torch-tiny-first", "torch loop: `tiny + norm`",
      (T_UNIT, "            unit_dW_LA = dW_LA[i] / (torch.finfo(torch.float32).tiny + torch.norm(dW_LA[i]))\n")),
    R("r-torch-parens", "torch loop: redundant parentheses dropped, comment and logger.debug added",
      (T_GRAD, "            logger.debug(\"combining parameter %d\", i)\n            # combine\n            p.grad = dW_LP[i] - proj * unit_dW_LA - self.base.alpha * dW_LA[i]\n"),
      ("# dynamic import.\ntorch = None\n", "import logging\n\nlogger = logging.getLogger(__name__)\n\n# dynamic import.\ntorch = None\n")),
    R("r-tf-rename", "tf: rename the three gradient lists and the loop locals", 
      ("        dW_LP = tape.gradient(LP, self.predictor_model.trainable_variables)\n        dU_LA = tape.gradient(LA, self.adversary_model.trainable_variables)\n        dW_LA = tape.gradient(LA, self.predictor_model.trainable_variables)\n",
       "        g_pred = tape.gradient(LP, self.predictor_model.trainable_variables)\n        g_adv_own = tape.gradient(LA, self.adversary_model.trainable_variables)\n        g_adv = tape.gradient(LA, self.predictor_model.trainable_variables)\n"),
      ("        for i in range(len(dW_LP)):\n            # Normalize dW_LA\n" + F_UNIT + "            # Project\n" + F_PROJ + "            # Calculate dW\n" + F_GRAD,
       "        for i in range(len(g_pred)):\n            unit = g_adv[i] / (tensorflow.norm(g_adv[i]) + finfo(float32).tiny)\n"
       "            along = tensorflow.reduce_sum(tensorflow.multiply(g_pred[i], unit))\n            g_pred[i] = g_pred[i] - (along * unit) - (self.base.alpha * g_adv[i])\n"),
      ("            zip(dW_LP, self.predictor_model.trainable_variables)", "            zip(g_pred, self.predictor_model.trainable_variables)"),
      ("            zip(dU_LA, self.adversary_model.trainable_variables)", "            zip(g_adv_own, self.adversary_model.trainable_variables)"),
      file=FF),
    R("r-tf-reorder", "tf: the three independent tape.gradient calls and the two apply_gradients calls reordered",
      ("        dW_LP = tape.gradient(LP, self.predictor_model.trainable_variables)\n        dU_LA = tape.gradient(LA, self.adversary_model.trainable_variables)\n        dW_LA = tape.gradient(LA, self.predictor_model.trainable_variables)\n",
       "        dW_LA = tape.gradient(LA, self.predictor_model.trainable_variables)\n        dW_LP = tape.gradient(LP, self.predictor_model.trainable_variables)\n        dU_LA = tape.gradient(LA, self.adversary_model.trainable_variables)\n"),
      file=FF),
    # ---- the norm that normalises dW_LA[i] (NormKind): spellings of the 2-norm of the flattened tensor
    R("r-norm-method", "torch loop: `dW_LA[i].norm()`",
      (T_UNIT, "            unit_dW_LA = dW_LA[i] / (dW_LA[i].norm() + torch.finfo(torch.float32).tiny)\n")),
    R("r-norm-linalg", "torch loop: `torch.linalg.norm(dW_LA[i])` (no ord, no dim: 2-norm of the flattening)",
      (T_UNIT, "            unit_dW_LA = dW_LA[i] / (torch.linalg.norm(dW_LA[i]) + torch.finfo(torch.float32).tiny)\n")),
    R("r-norm-vector-norm", "torch loop: `torch.linalg.vector_norm(dW_LA[i])`",
      (T_UNIT, "            unit_dW_LA = dW_LA[i] / (torch.linalg.vector_norm(dW_LA[i]) + torch.finfo(torch.float32).tiny)\n")),
    R("r-norm-sqrt-sum", "torch loop: `torch.sqrt(torch.sum(dW_LA[i] * dW_LA[i]))` through a temporary",
      (T_UNIT, "            squares = dW_LA[i] * dW_LA[i]\n            unit_dW_LA = dW_LA[i] / (torch.sqrt(torch.sum(squares)) + torch.finfo(torch.float32).tiny)\n")),
    R("r-norm-p2", "torch loop: `torch.norm(dW_LA[i], p=2)` (explicit default order, no dim)",
      (T_UNIT, "            unit_dW_LA = dW_LA[i] / (torch.norm(dW_LA[i], p=2) + torch.finfo(torch.float32).tiny)\n")),
    R("r-norm-fro", "torch loop: `torch.norm(dW_LA[i], 'fro')`",
      (T_UNIT, "            unit_dW_LA = dW_LA[i] / (torch.norm(dW_LA[i], 'fro') + torch.finfo(torch.float32).tiny)\n")),
    R("r-tf-norm-euclidean", "tf loop: `tensorflow.norm(dW_LA[i], ord='euclidean')`",
      (F_UNIT, "            unit_dW_LA = dW_LA[i] / (tensorflow.norm(dW_LA[i], ord='euclidean') + finfo(float32).tiny)\n"), file=FF),
    R("r-tf-norm-sqrt", "tf loop: `tensorflow.sqrt(tensorflow.reduce_sum(tensorflow.square(dW_LA[i])))`",
      (F_UNIT, "            unit_dW_LA = dW_LA[i] / (tensorflow.sqrt(tensorflow.reduce_sum(tensorflow.square(dW_LA[i]))) + finfo(float32).tiny)\n"), file=FF),
    # ------------------------------------------------------------------ semantic edits
    S("s-torch-inner", "torch loop: torch.sum(torch.inner(U, G))", (T_PROJ, "            proj = torch.sum(torch.inner(unit_dW_LA, dW_LP[i]))\n")),
    S("s-torch-tiny64", "torch loop: finfo(float).tiny", ("torch.finfo(torch.float32).tiny", "torch.finfo(float).tiny")),
    S("s-torch-unit-lp", "torch loop: normalises dW_LP", (T_UNIT, "            unit_dW_LA = dW_LP[i] / (torch.norm(dW_LP[i]) + torch.finfo(torch.float32).tiny)\n")),
    S("s-torch-plus", "torch loop: + alpha * dW_LA", ("- (self.base.alpha * dW_LA[i])\n\n        self.predictor_optimizer.step()", "+ (self.base.alpha * dW_LA[i])\n\n        self.predictor_optimizer.step()")),
    S("s-torch-no-proj", "torch loop: projection term dropped", (T_GRAD, "            p.grad = dW_LP[i] - (self.base.alpha * dW_LA[i])\n")),
    S("s-torch-proj-self", "torch loop: proj of dW_LA on itself", (T_PROJ, "            proj = torch.sum(unit_dW_LA * dW_LA[i])\n")),
    S("s-torch-order", "torch loop: proj computed before unit_dW_LA (dependent statements)",
      (T_UNIT + "            # Project\n" + T_PROJ, T_PROJ + T_UNIT)),
    S("s-tf-loss", "tf: dW_LA differentiates LP", ("        dW_LA = tape.gradient(LA, self.predictor_model", "        dW_LA = tape.gradient(LP, self.predictor_model"), file=FF),
    S("s-tf-apply", "tf: adversary optimiser applies dW_LA", ("            zip(dU_LA, self.adversary_model.trainable_variables)", "            zip(dW_LA, self.adversary_model.trainable_variables)"), file=FF),
    S("s-tf-minus", "tf loop: alpha term sign", (F_GRAD, "            dW_LP[i] = dW_LP[i] - (proj * unit_dW_LA) + (self.base.alpha * dW_LA[i])\n"), file=FF),
    # ---- the norm kind
    S("s-norm-p1", "torch loop: `torch.norm(dW_LA[i], p=1)` (lifted as l1Flat: lifted_norm_is_frobenius breaks)",
      (T_UNIT, "            unit_dW_LA = dW_LA[i] / (torch.norm(dW_LA[i], p=1) + torch.finfo(torch.float32).tiny)\n")),
    S("s-norm-spectral", "torch loop: `torch.linalg.norm(dW_LA[i], 2)` = spectral norm on matrices (seeded C16a): refused",
      (T_UNIT, "            unit_dW_LA = dW_LA[i] / (torch.linalg.norm(dW_LA[i], 2) + torch.finfo(torch.float32).tiny)\n")),
    S("s-norm-dim0", "torch loop: `torch.norm(dW_LA[i], dim=0)` (per-column norms): refused",
      (T_UNIT, "            unit_dW_LA = dW_LA[i] / (torch.norm(dW_LA[i], dim=0) + torch.finfo(torch.float32).tiny)\n")),
    S("s-norm-absmax", "torch loop: `dW_LA[i].abs().max()` (lifted as maxAbs)",
      (T_UNIT, "            unit_dW_LA = dW_LA[i] / (dW_LA[i].abs().max() + torch.finfo(torch.float32).tiny)\n")),
    S("s-norm-nuc", "torch loop: `torch.norm(dW_LA[i], p='nuc')`: refused",
      (T_UNIT, "            unit_dW_LA = dW_LA[i] / (torch.norm(dW_LA[i], p='nuc') + torch.finfo(torch.float32).tiny)\n")),
    S("s-norm-matrix-norm", "torch loop: `torch.linalg.matrix_norm(dW_LA[i], 2)`: refused",
      (T_UNIT, "            unit_dW_LA = dW_LA[i] / (torch.linalg.matrix_norm(dW_LA[i], 2) + torch.finfo(torch.float32).tiny)\n")),
    S("s-norm-inf", "torch loop: `torch.norm(dW_LA[i], float('inf'))` (lifted as maxAbs)",
      (T_UNIT, "            unit_dW_LA = dW_LA[i] / (torch.norm(dW_LA[i], float('inf')) + torch.finfo(torch.float32).tiny)\n")),
    S("s-norm-of-lp", "torch loop: divides by the norm of dW_LP[i]",
      (T_UNIT, "            unit_dW_LA = dW_LA[i] / (torch.norm(dW_LP[i]) + torch.finfo(torch.float32).tiny)\n")),
    S("s-norm-abs-sum", "torch loop: `torch.sum(torch.abs(dW_LA[i]))` (lifted as l1Flat)",
      (T_UNIT, "            unit_dW_LA = dW_LA[i] / (torch.sum(torch.abs(dW_LA[i])) + torch.finfo(torch.float32).tiny)\n")),
    S("s-norm-keepdim", "torch loop: `torch.norm(dW_LA[i], p=2, dim=1, keepdim=True)` (row norms): refused",
      (T_UNIT, "            unit_dW_LA = dW_LA[i] / (torch.norm(dW_LA[i], p=2, dim=1, keepdim=True) + torch.finfo(torch.float32).tiny)\n")),
    S("s-tf-norm-ord1", "tf loop: `tensorflow.norm(dW_LA[i], ord=1)` (lifted as l1Flat)",
      (F_UNIT, "            unit_dW_LA = dW_LA[i] / (tensorflow.norm(dW_LA[i], ord=1) + finfo(float32).tiny)\n"), file=FF),
    S("s-tf-norm-axis", "tf loop: `tensorflow.norm(dW_LA[i], axis=0)`: refused",
      (F_UNIT, "            unit_dW_LA = dW_LA[i] / (tensorflow.norm(dW_LA[i], axis=0) + finfo(float32).tiny)\n"), file=FF),
]
