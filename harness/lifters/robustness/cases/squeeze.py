"""base_metrics.py::lift_squeeze (SqueezeSrc.lean): `_convert_to_ndarray_and_squeeze` and the shape-level bodies of
selection_rate / mean_prediction -- fairlearn/utils/_input_manipulations.py, fairlearn/metrics/_base_metrics.py"""
IM = "fairlearn/utils/_input_manipulations.py"
BM = "fairlearn/metrics/_base_metrics.py"


def R(id, what, *edits, file=IM, **kw):
    return dict(id="squeeze-" + id, kind="R", file=file, edits=list(edits), what=what, **kw)


def S(id, what, *edits, file=IM, **kw):
    return dict(id="squeeze-" + id, kind="S", file=file, edits=list(edits), what=what, **kw)


BODY = ("    result = np.asarray(target)\n    if result.size == 0:\n        result = result\n    elif result.size > 1:\n"
        "        result = np.squeeze(result)\n    else:\n        result = result.reshape(1)\n\n    return result\n\n\ndef _convert_to_ndarray_1d")
SEL = "    selected = _convert_to_ndarray_and_squeeze(y_pred) == pos_label\n"

CASES = [
    R("r-rename-local", "the local `result` renamed",
      (BODY, BODY.replace("result", "arr"))),
    R("r-nested-else", "elif written as else: if",
      ("    elif result.size > 1:\n        result = np.squeeze(result)\n    else:\n        result = result.reshape(1)\n",
       "    else:\n        if result.size > 1:\n            result = np.squeeze(result)\n        else:\n            result = result.reshape(1)\n")),
    R("r-reshape-tuple", "reshape((1,))", ("        result = result.reshape(1)\n", "        result = result.reshape((1,))\n")),
    R("r-squeeze-method", "result.squeeze() (changes the spelling only)",
      ("        result = np.squeeze(result)\n", "        result = result.squeeze()\n")),
    R("r-sel-rename", "selection_rate: locals renamed", (SEL, "    hits = _convert_to_ndarray_and_squeeze(y_pred) == pos_label\n"),
      ("    if len(selected) == 0:\n", "    if len(hits) == 0:\n"),
      ("    s_w = np.ones(len(selected))\n", "    s_w = np.ones(len(hits))\n"),
      ("    return np.dot(selected, s_w) / s_w.sum()\n", "    return np.dot(hits, s_w) / s_w.sum()\n"), file=BM),
    # ------------------------------------------------------------------ semantic edits
    S("s-reshape-to-squeeze", "F1: the one-element branch squeezes (a one-element vector becomes 0-d)",
      ("        result = result.reshape(1)\n", "        result = np.squeeze(result)\n")),
    S("s-size-threshold", "`size > 2`: two-element arrays go to reshape(1)", ("    elif result.size > 1:\n", "    elif result.size > 2:\n")),
    S("s-size-ge", "`size >= 1`: the one-element branch is dead", ("    elif result.size > 1:\n", "    elif result.size >= 1:\n")),
    S("s-flatten", "reshape(-1) instead of squeeze", ("        result = np.squeeze(result)\n", "        result = result.reshape(-1)\n")),
    S("s-empty-squeezed", "the empty branch squeezes too", ("        result = result\n", "        result = np.squeeze(result)\n")),
    S("s-sel-no-squeeze", "selection_rate: y_pred only np.asarray'ed (a column is no longer flattened)",
      (SEL, "    selected = np.asarray(y_pred) == pos_label\n"), file=BM),
    S("s-sel-ones-column", "selection_rate: default weights as a column", ("    s_w = np.ones(len(selected))\n", "    s_w = np.ones((len(selected), 1))\n"), file=BM),
    S("s-sel-no-sum", "selection_rate: divides by the weight vector", ("    return np.dot(selected, s_w) / s_w.sum()\n", "    return np.dot(selected, s_w) / s_w\n"), file=BM),
    S("s-sel-guard-dropped", "selection_rate: the empty-input guard tests > 0",
      ("    if len(selected) == 0:\n", "    if len(selected) > 0:\n"), file=BM),
]
