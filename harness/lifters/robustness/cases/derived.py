"""derived.py (DerivedSpec.lean) -- _DerivedMetric.__init__ / __call__ argument plumbing, make_derived_metric defaults"""
F = "fairlearn/metrics/_make_derived_metric.py"


def R(id, what, *edits, **kw):
    return dict(id="derived-" + id, kind="R", file=F, edits=list(edits), what=what, **kw)


def S(id, what, *edits, **kw):
    return dict(id="derived-" + id, kind="S", file=F, edits=list(edits), what=what, **kw)


ROUTE = ("        for k, v in other_params.items():\n            if k in self._sample_param_names:\n                sample_params[k] = v\n"
         "            elif k in parameters_for_transforms:\n                transform_parameters[k] = v\n            else:\n                params[k] = v\n")
SPN = ("        self._sample_param_names = []\n        if sample_param_names is not None:\n            self._sample_param_names = sample_param_names\n")

CASES = [
    # ------------------------------------------------------------------ refactors
    R("r-rename-init", "__init__: rename sig -> signature, param_name -> name; f-string for .format",
      ("        sig = inspect.signature(metric)\n", "        signature = inspect.signature(metric)\n"),
      ("        for param_name in parameters_for_transforms:\n            if param_name in sig.parameters:\n                raise ValueError(_METHOD_ARG_ERROR.format(param_name))\n",
       "        for name in parameters_for_transforms:\n            if name in signature.parameters:\n                raise ValueError(_METHOD_ARG_ERROR.format(name))\n")),
    R("r-rename-call", "__call__: rename the three dicts, the loop variables, dict() -> {}",
      ("        sample_params = dict()\n        params = dict()\n        transform_parameters = dict()\n", "        per_sample = {}\n        bound = {}\n        for_transform = {}\n"),
      (ROUTE, "        for key, value in other_params.items():\n            if key in self._sample_param_names:\n                per_sample[key] = value\n"
       "            elif key in parameters_for_transforms:\n                for_transform[key] = value\n            else:\n                bound[key] = value\n"),
      ("        dispatch_fn = functools.partial(self._metric_fn, **params)\n", "        dispatch_fn = functools.partial(self._metric_fn, **bound)\n"),
      ("        for k, v in sorted(params.items()):\n", "        for k, v in sorted(bound.items()):\n"),
      ("            sample_params=sample_params,\n", "            sample_params=per_sample,\n"),
      ("            result = all_metrics.difference(**transform_parameters)\n", "            result = all_metrics.difference(**for_transform)\n"),
      ("            result = all_metrics.ratio(**transform_parameters)\n", "            result = all_metrics.ratio(**for_transform)\n")),
    R("r-reorder", "__init__: attribute stores moved to the end; __call__: the three dict initialisations reordered",
      ("        self._metric_fn = metric\n", ""), ("        self._transform = transform\n", ""),
      (SPN, SPN + "        self._metric_fn = metric\n        self._transform = transform\n"),
      ("        sample_params = dict()\n        params = dict()\n        transform_parameters = dict()\n", "        transform_parameters = dict()\n        params = dict()\n        sample_params = dict()\n")),
    R("r-noise", "__init__ / __call__: logger.debug, comments, annotations, docstring",
      ("        sig = inspect.signature(metric)\n", "        logger.debug(\"inspecting %s\", metric)\n        # signature\n        sig: inspect.Signature = inspect.signature(metric)\n"),
      ("        sample_params = dict()\n", "        \"\"\"Route the parameters and evaluate.\"\"\"\n        sample_params: dict = dict()\n"),
      ("import inspect\n", "import inspect\nimport logging\n"), ("class _DerivedMetric:", "logger = logging.getLogger(__name__)\n\n\nclass _DerivedMetric:")),
    R("r-spn-ifexp", "__init__: sample_param_names default as a conditional expression",
      (SPN, "        self._sample_param_names = sample_param_names if sample_param_names is not None else []\n")),
    R("r-spn-if-else", "__init__: sample_param_names default as if/else",
      (SPN, "        if sample_param_names is None:\n            self._sample_param_names = []\n        else:\n            self._sample_param_names = sample_param_names\n")),
    R("r-frame-rename", "__call__: rename all_metrics -> frame, dispatch_fn -> fn; MetricFrame keywords reordered",
      ("        all_metrics = MetricFrame(\n            metrics=dispatch_fn,\n            y_true=y_true,\n            y_pred=y_pred,\n            sensitive_features=sensitive_features,\n            sample_params=sample_params,\n        )",
       "        frame = MetricFrame(\n            metrics=fn,\n            sample_params=sample_params,\n            y_true=y_true,\n            y_pred=y_pred,\n            sensitive_features=sensitive_features,\n        )"),
      ("        dispatch_fn = functools.partial(self._metric_fn, **params)\n", "        fn = functools.partial(self._metric_fn, **params)\n"),
      ("        dispatch_fn.__name__ = bound_fn_name\n", "        fn.__name__ = bound_fn_name\n"),
      ("            result = all_metrics.difference(**transform_parameters)\n", "            result = frame.difference(**transform_parameters)\n"),
      ("            result = all_metrics.ratio(**transform_parameters)\n", "            result = frame.ratio(**transform_parameters)\n"),
      ("            result = all_metrics.group_min()\n", "            result = frame.group_min()\n"),
      ("            result = all_metrics.group_max()\n", "            result = frame.group_max()\n")),
    R("r-partial-import", "`from functools import partial`",
      ("import functools\n", "import functools\nfrom functools import partial\n"),
      ("        dispatch_fn = functools.partial(self._metric_fn, **params)\n", "        dispatch_fn = partial(self._metric_fn, **params)\n")),
    R("r-make-inline", "make_derived_metric returns the _DerivedMetric directly",
      ("    dm = _DerivedMetric(metric=metric, transform=transform, sample_param_names=sample_param_names)\n    return dm\n",
       "    return _DerivedMetric(\n        metric=metric, transform=transform, sample_param_names=sample_param_names\n    )\n")),
    # ------------------------------------------------------------------ semantic edits
    S("s-no-callable-check", "__init__: callable check dropped", ("        if not callable(metric):\n            raise ValueError(_METRIC_CALLABLE_ERROR)\n", "")),
    S("s-check-order", "__init__: transform validated before the metric is inspected",
      ("        if transform not in transform_options:\n            raise ValueError(_INVALID_TRANSFORM)\n", ""),
      ("        if not callable(metric):\n", "        if transform not in transform_options:\n            raise ValueError(_INVALID_TRANSFORM)\n        if not callable(metric):\n")),
    S("s-route-swapped", "__call__: sample / transform destinations exchanged",
      ("                sample_params[k] = v\n            elif k in parameters_for_transforms:\n                transform_parameters[k] = v\n",
       "                transform_parameters[k] = v\n            elif k in parameters_for_transforms:\n                sample_params[k] = v\n")),
    S("s-route-order", "__call__: transform names tested before the sample parameter names",
      ("            if k in self._sample_param_names:\n                sample_params[k] = v\n            elif k in parameters_for_transforms:\n                transform_parameters[k] = v\n",
       "            if k in parameters_for_transforms:\n                transform_parameters[k] = v\n            elif k in self._sample_param_names:\n                sample_params[k] = v\n")),
    S("s-route-default", "__call__: every other parameter goes to the sample parameters", ("            else:\n                params[k] = v\n", "            else:\n                sample_params[k] = v\n")),
    S("s-route-not-in", "__call__: `k not in self._sample_param_names`", ("            if k in self._sample_param_names:", "            if k not in self._sample_param_names:")),
    S("s-roles", "__call__: partial binds the sample parameters, MetricFrame gets the others",
      ("functools.partial(self._metric_fn, **params)", "functools.partial(self._metric_fn, **sample_params)"),
      ("            sample_params=sample_params,\n", "            sample_params=params,\n")),
    S("s-name-strict", "__call__: plain __name__ read",
      ("getattr(self._metric_fn, \"__name__\", type(self._metric_fn).__name__)", "self._metric_fn.__name__")),
    S("s-default-spn", "make_derived_metric: default sample_param_names=[]", ("sample_param_names: list[str] = [\"sample_weight\"],", "sample_param_names: list[str] = [],")),
    S("s-sf-optional", "__call__: sensitive_features=None", ("*, sensitive_features, **other_params)", "*, sensitive_features=None, **other_params)")),
    S("s-forward-none", "make_derived_metric forwards sample_param_names=None",
      ("transform=transform, sample_param_names=sample_param_names)", "transform=transform, sample_param_names=None)")),
    S("s-spn-not-stored", "__init__: the given sample_param_names are never stored",
      ("        if sample_param_names is not None:\n            self._sample_param_names = sample_param_names\n", "")),
    S("s-spn-none-kept", "__init__: None is stored as None", ("        self._sample_param_names = []\n", "        self._sample_param_names = None\n")),
]
