"""projlambda.py (ProjectLambdaSrc.lean) -- UtilityParity.project_lambda"""
UP = "fairlearn/reductions/_moments/utility_parity.py"


def R(id, what, *edits, **kw):
    return dict(id="projlambda-" + id, kind="R", file=UP, edits=list(edits), what=what, **kw)


def S(id, what, *edits, **kw):
    return dict(id="projlambda-" + id, kind="S", file=UP, edits=list(edits), what=what, **kw)


GUARD = "        if self.ratio == 1.0:\n"
POS = "            lambda_pos = lambda_vec[\"+\"] - lambda_vec[\"-\"]\n"
NEG = "            lambda_neg = -lambda_pos\n"
CP = "            lambda_pos[lambda_pos < 0.0] = 0.0\n"
CN = "            lambda_neg[lambda_neg < 0.0] = 0.0\n"
CAT = ("            lambda_projected = pd.concat(\n                [lambda_pos, lambda_neg],\n                keys=[\"+\", \"-\"],\n"
       "                names=[_SIGN, _EVENT, _GROUP_ID],\n            )\n            return lambda_projected\n")
TAIL = "        return lambda_vec\n\n    def signed_weights"
BODY = GUARD + POS + NEG + CP + CN + CAT

CASES = [
    R("r-rename", "rename lambda_pos / lambda_neg / lambda_projected",
      (BODY, BODY.replace("lambda_pos", "up").replace("lambda_neg", "down").replace("lambda_projected", "out"))),
    R("r-reorder-clips", "the two independent in-place clips exchanged", (CP + CN, CN + CP)),
    R("r-temp-diff", "a temporary for the difference; the concat returned directly",
      (POS, "            diff = lambda_vec[\"+\"] - lambda_vec[\"-\"]\n            lambda_pos = diff.copy()\n"),
      (CAT, "            return pd.concat(\n                [lambda_pos, lambda_neg],\n                keys=[\"+\", \"-\"],\n"
            "                names=[_SIGN, _EVENT, _GROUP_ID],\n            )\n")),
    R("r-early-return", "`if self.ratio != 1.0: return lambda_vec` first",
      (BODY + "        return lambda_vec\n",
       "        if self.ratio != 1.0:\n            return lambda_vec\n" + (POS + NEG + CP + CN + CAT).replace("            ", "        "))),
    R("r-if-else", "if / else instead of the early return, docstring-like comment, logger.debug",
      ("            return lambda_projected\n        return lambda_vec\n",
       "            logger.debug(\"projected\")\n            return lambda_projected\n        else:\n            return lambda_vec\n")),
    R("r-keys-order", "concat with the halves and their keys both exchanged (the same labelled vector up to row order)",
      (CAT, CAT.replace("[lambda_pos, lambda_neg]", "[lambda_neg, lambda_pos]").replace("keys=[\"+\", \"-\"]", "keys=[\"-\", \"+\"]")),
      expect="same"),
    # ------------------------------------------------------------------ semantic edits
    S("s-plus", "lambda_pos = lambda+ + lambda- (the reviewer's mutant)", (POS, POS.replace("] - lambda_vec", "] + lambda_vec"))),
    S("s-neg-after-clip", "lambda_neg computed AFTER lambda_pos was clipped in place (always 0 after its own clip)",
      (NEG + CP, CP + NEG)),
    S("s-alias", "lambda_neg aliases lambda_pos", (NEG, "            lambda_neg = lambda_pos\n")),
    S("s-keys-swapped", "keys exchanged, halves not", (CAT, CAT.replace("keys=[\"+\", \"-\"]", "keys=[\"-\", \"+\"]"))),
    S("s-clip-value", "negative entries replaced by 1", (CP, CP.replace("= 0.0\n", "= 1.0\n"))),
    S("s-clip-threshold", "clip threshold 1", (CN, CN.replace("< 0.0]", "< 1.0]"))),
    S("s-clip-gt", "positive entries zeroed", (CP, CP.replace("lambda_pos < 0.0", "lambda_pos > 0.0"))),
    S("s-no-neg-clip", "lambda_neg not clipped", (CN, "")),
    S("s-guard-value", "projection applied for ratio 0.5", (GUARD, "        if self.ratio == 0.5:\n")),
    S("s-guard-flip", "projection applied unless ratio is 1", (GUARD, "        if self.ratio != 1.0:\n")),
    S("s-else-scaled", "the non-projecting branch returns 2 * lambda", (TAIL, TAIL.replace("return lambda_vec", "return 2 * lambda_vec"))),
    S("s-minus-swapped", "difference taken the other way", (POS, "            lambda_pos = lambda_vec[\"-\"] - lambda_vec[\"+\"]\n")),
]
