"""egpredict.py (EgPredict.lean) -- ExponentiatedGradient.predict"""
EG = "fairlearn/reductions/_exponentiated_gradient/exponentiated_gradient.py"


def R(id, what, *edits, **kw):
    return dict(id="egpredict-" + id, kind="R", file=EG, edits=list(edits), what=what, **kw)


def S(id, what, *edits, **kw):
    return dict(id="egpredict-" + id, kind="S", file=EG, edits=list(edits), what=what, **kw)


CLS = "            return (positive_probs >= random_state.rand(len(positive_probs))) * 1\n"
W = "            weights = self.weights_[pred.columns]\n"
CH = "                randomized_pred[i] = random_state.choice(pred.iloc[i, :], p=weights)\n"
LOOP = "            for i in range(pred.shape[0]):\n"

CASES = [
    R("r-rename", "rename pred / randomized_pred / weights / i / positive_probs",
      ("            positive_probs = self._pmf_predict(X)[:, 1]\n" + CLS,
       "            probs = self._pmf_predict(X)[:, 1]\n            return (probs >= random_state.rand(len(probs))) * 1\n"),
      ("            pred = self._pmf_predict(X)\n            randomized_pred = np.zeros(pred.shape[0])\n" + W + LOOP + CH + "            return randomized_pred",
       "            values = self._pmf_predict(X)\n            out = np.zeros(values.shape[0])\n            probs_by_id = self.weights_[values.columns]\n"
       "            for row in range(values.shape[0]):\n                out[row] = random_state.choice(values.iloc[row, :], p=probs_by_id)\n            return out")),
    R("r-inline-weights", "inline the weights temporary into the choice call", (W, ""), (CH, CH.replace("p=weights", "p=self.weights_[pred.columns]"))),
    R("r-temps", "temporaries for the number of rows and the row values; range(0, n)",
      ("            randomized_pred = np.zeros(pred.shape[0])\n", "            n_rows = pred.shape[0]\n            randomized_pred = np.zeros(n_rows)\n"),
      (LOOP + CH, "            for i in range(0, n_rows):\n                row_values = pred.iloc[i, :]\n                randomized_pred[i] = random_state.choice(row_values, p=weights)\n")),
    R("r-reorder", "weights computed before the result buffer",
      ("            randomized_pred = np.zeros(pred.shape[0])\n" + W, W + "            randomized_pred = np.zeros(pred.shape[0])\n")),
    R("r-cls-spellings", "classification branch: `1 * (rand <= probs)` through a temporary",
      (CLS, "            draws = random_state.rand(len(positive_probs))\n            return 1 * (draws <= positive_probs)\n")),
    R("r-if-not", "`if not isinstance(...)` with exchanged branches, logger.debug, annotation",
      ("        if isinstance(self.constraints, ClassificationMoment):\n            positive_probs = self._pmf_predict(X)[:, 1]\n" + CLS + "        else:\n"
       "            pred = self._pmf_predict(X)\n            randomized_pred = np.zeros(pred.shape[0])\n" + W + LOOP + CH + "            return randomized_pred",
       "        if not isinstance(self.constraints, ClassificationMoment):\n"
       "            pred: pd.DataFrame = self._pmf_predict(X)\n            logger.debug(\"regression predict\")\n            randomized_pred = np.zeros(pred.shape[0])\n" + W + LOOP + CH + "            return randomized_pred\n"
       "        else:\n            positive_probs = self._pmf_predict(X)[:, 1]\n" + CLS.rstrip("\n"))),
    R("r-loc", "`self.weights_.loc[pred.columns]`", (W, "            weights = self.weights_.loc[pred.columns]\n")),
    # ------------------------------------------------------------------ semantic edits
    S("s-positional", "weights_ as stored (positional pairing)", (W, "            weights = self.weights_\n")),
    S("s-values", "weights_.values[...] positional", (W, "            weights = self.weights_.values\n")),
    S("s-row", "choice over a column", (CH, CH.replace("pred.iloc[i, :]", "pred.iloc[:, i]"))),
    S("s-no-p", "uniform choice", (CH, CH.replace(", p=weights", ""))),
    S("s-cls-gt", "classification `>`", (CLS, CLS.replace(">=", ">"))),
    S("s-cls-col0", "positive_probs from column 0", ("            positive_probs = self._pmf_predict(X)[:, 1]", "            positive_probs = self._pmf_predict(X)[:, 0]")),
    S("s-cls-factor", "classification result * 2", (CLS, CLS.replace("* 1", "* 2"))),
    S("s-cls-one-draw", "a single uniform draw for all rows", (CLS, CLS.replace("rand(len(positive_probs))", "rand()"))),
    S("s-loop-range", "loop skips the last row", (LOOP, "            for i in range(pred.shape[0] - 1):\n")),
    S("s-store-index", "every draw stored in row 0", (CH, CH.replace("randomized_pred[i]", "randomized_pred[0]"))),
    S("s-weights-late", "weights re-assigned to the positional vector before the loop (dependent statements)",
      (LOOP, "            weights = self.weights_\n" + LOOP)),
]
