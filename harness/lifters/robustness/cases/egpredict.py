"""egpredict.py (EgPredict.lean) -- ExponentiatedGradient.predict"""
EG = "fairlearn/reductions/_exponentiated_gradient/exponentiated_gradient.py"


def R(id, what, *edits, **kw):
    return dict(id="egpredict-" + id, kind="R", file=EG, edits=list(edits), what=what, **kw)


def S(id, what, *edits, **kw):
    return dict(id="egpredict-" + id, kind="S", file=EG, edits=list(edits), what=what, **kw)


CLS = "            return (positive_probs >= random_state.rand(len(positive_probs))) * 1\n"
W = "            weights = self.weights_[pred.columns]\n"
CH = "                randomized_pred[i] = random_state.choice(pred.iloc[i, :], p=weights)\n"
LOOP = "            for i in range(pred.shape[0]):\n"

CASES = [
    R("r-rename", "rename pred / randomized_pred / weights / i / positive_probs",
      ("            positive_probs = self._pmf_predict(X)[:, 1]\n" + CLS,
       "            probs = self._pmf_predict(X)[:, 1]\n            return (probs >= random_state.rand(len(probs))) * 1\n"),
      ("            pred = self._pmf_predict(X)\n            randomized_pred = np.zeros(pred.shape[0])\n" + W + LOOP + CH + "            return randomized_pred",
       "            values = self._pmf_predict(X)\n            out = np.zeros(values.shape[0])\n            probs_by_id = self.weights_[values.columns]\n"
       "            for row in range(values.shape[0]):\n                out[row] = random_state.choice(values.iloc[row, :], p=probs_by_id)\n            return out")),
    R("r-inline-weights", "inline the weights temporary into the choice call", (W, ""), (CH, CH.replace("p=weights", "p=self.weights_[pred.columns]"))),
    R("r-temps", "temporaries for the number of rows and the row values; range(0, n)",
      ("            randomized_pred = np.zeros(pred.shape[0])\n", "            n_rows = pred.shape[0]\n            randomized_pred = np.zeros(n_rows)\n"),
      (LOOP + CH, "            for i in range(0, n_rows):\n                row_values = pred.iloc[i, :]\n                randomized_pred[i] = random_state.choice(row_values, p=weights)\n")),
    R("r-reorder", "weights computed before the result buffer",
      ("            randomized_pred = np.zeros(pred.shape[0])\n" + W, W + "            randomized_pred = np.zeros(pred.shape[0])\n")),
    R("r-cls-spellings", "classification branch: `1 * (rand <= probs)` through a temporary",
      (CLS, "            draws = random_state.rand(len(positive_probs))\n            return 1 * (draws <= positive_probs)\n")),
    R("r-if-not", "`if not isinstance(...)` with exchanged branches, logger.debug, annotation",
      ("        if isinstance(self.constraints, ClassificationMoment):\n            positive_probs = self._pmf_predict(X)[:, 1]\n" + CLS + "        else:\n"
       "            pred = self._pmf_predict(X)\n            randomized_pred = np.zeros(pred.shape[0])\n" + W + LOOP + CH + "            return randomized_pred",
       "        if not isinstance(self.constraints, ClassificationMoment):\n"
       "            pred: pd.DataFrame = self._pmf_predict(X)\n            logger.debug(\"regression predict\")\n            randomized_pred = np.zeros(pred.shape[0])\n" + W + LOOP + CH + "            return randomized_pred\n"
       "        else:\n            positive_probs = self._pmf_predict(X)[:, 1]\n" + CLS.rstrip("\n"))),
    R("r-loc", "`self.weights_.loc[pred.columns]`", (W, "            weights = self.weights_.loc[pred.columns]\n")),
    # ------------------------------------------------------------------ semantic edits
    S("s-positional", "weights_ as stored (positional pairing)", (W, "            weights = self.weights_\n")),
    S("s-values", "weights_.values[...] positional", (W, "            weights = self.weights_.values\n")),
    S("s-row", "choice over a column", (CH, CH.replace("pred.iloc[i, :]", "pred.iloc[:, i]"))),
    S("s-no-p", "uniform choice", (CH, CH.replace(", p=weights", ""))),
    S("s-cls-gt", "classification `>`", (CLS, CLS.replace(">=", ">"))),
    S("s-cls-col0", "positive_probs from column 0", ("            positive_probs = self._pmf_predict(X)[:, 1]", "            positive_probs = self._pmf_predict(X)[:, 0]")),
    S("s-cls-factor", "classification result * 2", (CLS, CLS.replace("* 1", "* 2"))),
    S("s-cls-one-draw", "a single uniform draw for all rows", (CLS, CLS.replace("rand(len(positive_probs))", "rand()"))),
    S("s-loop-range", "loop skips the last row", (LOOP, "            for i in range(pred.shape[0] - 1):\n")),
    S("s-store-index", "every draw stored in row 0", (CH, CH.replace("randomized_pred[i]", "randomized_pred[0]"))),
    S("s-weights-late", "weights re-assigned to the positional vector before the loop (dependent statements)",
      (LOOP, "            weights = self.weights_\n" + LOOP)),
]

MASK = ("            if self.weights_[t] == 0:\n                pred[t] = np.zeros(len(X))\n            else:\n"
        "                pred[t] = np.asarray(self._hs[t](X))\n")
DOT = "            positive_probs = pred[self.weights_.index].dot(self.weights_).to_frame()\n"
CAT = "            return np.concatenate((1 - positive_probs, positive_probs), axis=1)\n"
PLOOP = "        for t in range(len(self._hs)):\n"

CASES += [
    # ---- _pmf_predict (lifted since L1: zero mask, dot pairing, the two columns) ----------------------------- refactors
    R("r-pmf-rename", "rename pred / t / positive_probs in _pmf_predict",
      ("        pred = pd.DataFrame()\n" + PLOOP + MASK, "        outputs = pd.DataFrame()\n        for k in range(len(self._hs)):\n"
       + MASK.replace("pred[t]", "outputs[k]").replace("weights_[t]", "weights_[k]").replace("_hs[t]", "_hs[k]")),
      (DOT + CAT, "            probs = outputs[self.weights_.index].dot(self.weights_).to_frame()\n            return np.concatenate((1 - probs, probs), axis=1)\n"),
      ("        else:\n            return pred\n", "        else:\n            return outputs\n")),
    R("r-pmf-mask-ne", "`if self.weights_[t] != 0:` with exchanged branches",
      (MASK, "            if self.weights_[t] != 0:\n                pred[t] = np.asarray(self._hs[t](X))\n            else:\n                pred[t] = np.zeros(len(X))\n")),
    R("r-pmf-zero-left", "`0 == self.weights_[t]`, range(0, n)", (MASK, MASK.replace("self.weights_[t] == 0", "0 == self.weights_[t]")),
      (PLOOP, "        for t in range(0, len(self._hs)):\n")),
    R("r-pmf-temp-mix", "temporary for the mixture before .to_frame()", (DOT, "            mix = pred[self.weights_.index].dot(self.weights_)\n            positive_probs = mix.to_frame()\n")),
    R("r-pmf-list-concat", "np.concatenate([..], axis=1) with a list", (CAT, "            return np.concatenate([1 - positive_probs, positive_probs], axis=1)\n")),
    # ------------------------------------------------------------------ semantic edits
    S("s-pmf-mask-ones", "zero-weight predictors contribute a column of ones", (MASK, MASK.replace("np.zeros(len(X))", "np.ones(len(X))"))),
    S("s-pmf-mask-flipped", "mask test inverted (outputs only for zero weights)", (MASK, MASK.replace("== 0", "!= 0"))),
    S("s-pmf-mask-threshold", "mask at weight 1", (MASK, MASK.replace("== 0", "== 1"))),
    S("s-pmf-dot-positional", "positional dot product", (DOT, "            positive_probs = pd.Series(pred.values.dot(self.weights_.values)).to_frame()\n")),
    S("s-pmf-dot-values", "positional dot product through .values on the weights only", (DOT, "            positive_probs = pred.dot(self.weights_.values).to_frame()\n")),
    S("s-pmf-cols-swapped", "columns [p, 1 - p]", (CAT, "            return np.concatenate((positive_probs, 1 - positive_probs), axis=1)\n")),
    S("s-pmf-col0-wrong", "column 0 = p", (CAT, "            return np.concatenate((positive_probs, positive_probs), axis=1)\n")),
    S("s-pmf-loop-short", "the last stored predictor is skipped", (PLOOP, "        for t in range(len(self._hs) - 1):\n")),
    S("s-cls-lt", "classification `<`", (CLS, CLS.replace(">=", "<"))),
]
