"""oracle.py (OracleSrc.lean) -- _Lagrangian._call_oracle, the per-column loop of GridSearch.fit, the span flags"""
LG = "fairlearn/reductions/_exponentiated_gradient/_lagrangian.py"
GS = "fairlearn/reductions/_grid_search/grid_search.py"
UP = "fairlearn/reductions/_moments/utility_parity.py"
BG = "fairlearn/reductions/_moments/bounded_group_loss.py"


def R(id, what, *edits, file=LG, **kw):
    return dict(id="oracle-" + id, kind="R", file=file, edits=list(edits), what=what, **kw)


def S(id, what, *edits, file=LG, **kw):
    return dict(id="oracle-" + id, kind="S", file=file, edits=list(edits), what=what, **kw)


SW = "        signed_weights = self.obj.signed_weights() + self.constraints.signed_weights(lambda_vec)\n"
FIT = "        estimator.fit(self.constraints.X, redY, **{self.sample_weight_name: redW})\n"
GFIT = "            current_estimator.fit(X, y_reduction, **{self.sample_weight_name: weights})\n"

CASES = [
    # ------------------------------------------------------------------ refactors: _call_oracle
    R("r-eg-rename", "rename signed_weights / redY / redW / redY_unique",
      (SW + "        if isinstance(self.constraints, ClassificationMoment):\n            redY = 1 * (signed_weights > 0)\n"
       "        else:\n            redY = self.constraints._y_as_series\n        redW = signed_weights.abs()\n"
       "        redW = self.constraints.total_samples * redW / redW.sum()\n\n        redY_unique = np.unique(redY)\n\n"
       "        estimator = None\n        if len(redY_unique) == 1:",
       "        sw = self.obj.signed_weights() + self.constraints.signed_weights(lambda_vec)\n"
       "        if isinstance(self.constraints, ClassificationMoment):\n            labels = 1 * (sw > 0)\n"
       "        else:\n            labels = self.constraints._y_as_series\n        wts = sw.abs()\n"
       "        wts = self.constraints.total_samples * wts / wts.sum()\n\n        uniq = np.unique(labels)\n\n"
       "        estimator = None\n        if len(uniq) == 1:"),
      ("            estimator = DummyClassifier(strategy=\"constant\", constant=redY_unique[0])",
       "            estimator = DummyClassifier(strategy=\"constant\", constant=uniq[0])"),
      (FIT, "        estimator.fit(self.constraints.X, labels, **{self.sample_weight_name: wts})\n")),
    R("r-eg-rename-estimator", "rename the local `estimator`",
      ("        estimator = None\n", "        est = None\n"),
      ("            estimator = DummyClassifier(strategy=\"constant\", constant=redY_unique[0])",
       "            est = DummyClassifier(strategy=\"constant\", constant=redY_unique[0])"),
      ("            estimator = clone(estimator=self.estimator, safe=False)", "            est = clone(estimator=self.estimator, safe=False)"),
      (FIT, "        est.fit(self.constraints.X, redY, **{self.sample_weight_name: redW})\n"),
      ("        self.n_oracle_calls += 1\n\n        return estimator", "        self.n_oracle_calls += 1\n\n        return est"),
      why="lifecycle.py (other group) used to emit this local's name; it now canonicalises it"),
    R("r-eg-commute-signed", "commute the two summands of the signed weights",
      (SW, "        signed_weights = self.constraints.signed_weights(lambda_vec) + self.obj.signed_weights()\n")),
    R("r-eg-temps-signed", "temporaries for the two summands of the signed weights",
      (SW, "        obj_w = self.obj.signed_weights()\n        con_w = self.constraints.signed_weights(lambda_vec)\n"
           "        signed_weights = obj_w + con_w\n")),
    R("r-eg-reorder-abs", "compute redW (abs + normalisation) before the relabel branch",
      ("        if isinstance(self.constraints, ClassificationMoment):\n            redY = 1 * (signed_weights > 0)\n"
       "        else:\n            redY = self.constraints._y_as_series\n        redW = signed_weights.abs()\n"
       "        redW = self.constraints.total_samples * redW / redW.sum()\n",
       "        redW = signed_weights.abs()\n        redW = self.constraints.total_samples * redW / redW.sum()\n"
       "        if isinstance(self.constraints, ClassificationMoment):\n            redY = 1 * (signed_weights > 0)\n"
       "        else:\n            redY = self.constraints._y_as_series\n")),
    R("r-eg-logger-annot", "logger.debug with a method-call argument, annotation, comment, docstring",
      (SW, "        \"\"\"Call the oracle.\"\"\"\n" + SW),
      ("        redW = signed_weights.abs()\n", "        redW: pd.Series = signed_weights.abs()\n        # normalise\n"
       "        logger.debug(\"total weight %f\", redW.sum())\n\n")),
    R("r-eg-temp-sum-n", "temporaries for total_samples and redW.sum()",
      ("        redW = signed_weights.abs()\n        redW = self.constraints.total_samples * redW / redW.sum()\n",
       "        n_samples = self.constraints.total_samples\n        redW = signed_weights.abs()\n        total = redW.sum()\n"
       "        redW = n_samples * redW / total\n")),
    R("r-eg-commute-norm", "`n * redW` -> `redW * n` in the normalisation",
      ("        redW = self.constraints.total_samples * redW / redW.sum()", "        redW = redW * self.constraints.total_samples / redW.sum()")),
    R("r-eg-if-not", "`if not isinstance(...)` with swapped branches",
      ("        if isinstance(self.constraints, ClassificationMoment):\n            redY = 1 * (signed_weights > 0)\n"
       "        else:\n            redY = self.constraints._y_as_series\n",
       "        if not isinstance(self.constraints, ClassificationMoment):\n            redY = self.constraints._y_as_series\n"
       "        else:\n            redY = 1 * (signed_weights > 0)\n")),
    R("r-eg-label-spellings", "`(w > 0) * 1`", ("            redY = 1 * (signed_weights > 0)", "            redY = (signed_weights > 0) * 1")),
    R("r-eg-label-astype", "`(w > 0).astype(int)`", ("            redY = 1 * (signed_weights > 0)", "            redY = (signed_weights > 0).astype(int)")),
    R("r-eg-np-abs", "`np.abs(w)` for `w.abs()`", ("        redW = signed_weights.abs()", "        redW = np.abs(signed_weights)")),
    R("r-eg-len-flipped", "`1 == len(u)`, dead `estimator = None` removed",
      ("        estimator = None\n        if len(redY_unique) == 1:", "        if 1 == len(redY_unique):")),
    R("r-eg-clone-positional", "`clone(self.estimator, safe=False)`; DummyClassifier keywords swapped",
      ("            estimator = clone(estimator=self.estimator, safe=False)", "            estimator = clone(self.estimator, safe=False)"),
      ("DummyClassifier(strategy=\"constant\", constant=redY_unique[0])", "DummyClassifier(constant=redY_unique[0], strategy=\"constant\")")),
    R("r-eg-fit-temps", "temporaries for X and the keyword dict of the fit call; time() bookkeeping renamed",
      ("        oracle_call_start_time = time()\n" + FIT + "        self.oracle_execution_times.append(time() - oracle_call_start_time)\n",
       "        fit_kwargs = {self.sample_weight_name: redW}\n        t0 = time()\n"
       "        estimator.fit(self.constraints.X, redY, **fit_kwargs)\n        self.oracle_execution_times.append(time() - t0)\n")),
    # ------------------------------------------------------------------ refactors: GridSearch.fit
    R("r-grid-rename", "rename lambda_vec / weights / y_reduction / y_reduction_unique in the grid loop",
      ("            lambda_vec = grid[i]\n            logger.debug(\"Obtaining weights\")\n            weights = self.constraints.signed_weights(lambda_vec)\n"
       "            if not objective_in_the_span:\n                weights = weights + objective.signed_weights()\n",
       "            lam = grid[i]\n            logger.debug(\"Obtaining weights\")\n            w = self.constraints.signed_weights(lam)\n"
       "            if not objective_in_the_span:\n                w = w + objective.signed_weights()\n"),
      ("                y_reduction = 1 * (weights > 0)\n                weights = weights.abs()\n            else:\n"
       "                y_reduction = self.constraints._y_as_series\n\n            y_reduction_unique = np.unique(y_reduction)\n"
       "            if len(y_reduction_unique) == 1:",
       "                y_red = 1 * (w > 0)\n                w = w.abs()\n            else:\n"
       "                y_red = self.constraints._y_as_series\n\n            uniq = np.unique(y_red)\n            if len(uniq) == 1:"),
      ("                    strategy=\"constant\", constant=y_reduction_unique[0]\n", "                    strategy=\"constant\", constant=uniq[0]\n"),
      (GFIT, "            current_estimator.fit(X, y_red, **{self.sample_weight_name: w})\n"),
      ("            self.lambda_vecs_[i] = lambda_vec", "            self.lambda_vecs_[i] = lam"),
      file=GS),
    R("r-grid-rename-estimator", "rename the local `current_estimator`",
      ("                current_estimator = DummyClassifier(", "                est = DummyClassifier("),
      ("                current_estimator = copy.deepcopy(self.estimator)", "                est = copy.deepcopy(self.estimator)"),
      (GFIT, "            est.fit(X, y_reduction, **{self.sample_weight_name: weights})\n"),
      ("                return current_estimator.predict(X)\n\n            self.predictors_.append(current_estimator)",
       "                return est.predict(X)\n\n            self.predictors_.append(est)"),
      file=GS, why="lifecycle.py (other group) used to emit this local's name; it now canonicalises it"),
    R("r-grid-rename-flags", "rename objective_in_the_span / is_classification_reduction / objective / grid",
      ("            is_classification_reduction = True", "            is_clf = True"),
      ("            is_classification_reduction = False", "            is_clf = False"),
      ("        objective = self.constraints.default_objective()\n        objective.load_data(X, y, **kwargs)",
       "        obj = self.constraints.default_objective()\n        obj.load_data(X, y, **kwargs)"),
      ("        objective_in_the_span = self.constraints.default_objective_lambda_vec is not None",
       "        in_span = self.constraints.default_objective_lambda_vec is not None"),
      ("                neg_allowed,\n                objective_in_the_span,", "                neg_allowed,\n                in_span,"),
      ("            if not objective_in_the_span:\n                weights = weights + objective.signed_weights()",
       "            if not in_span:\n                weights = weights + obj.signed_weights()"),
      ("            if is_classification_reduction:", "            if is_clf:"),
      ("            self.objectives_.append(objective.gamma(predict_fct).iloc[0])", "            self.objectives_.append(obj.gamma(predict_fct).iloc[0])"),
      file=GS),
    R("r-grid-commute", "`objective.signed_weights() + weights`",
      ("                weights = weights + objective.signed_weights()", "                weights = objective.signed_weights() + weights"), file=GS),
    R("r-grid-flag-direct", "is_classification_reduction assigned directly from isinstance(...)",
      ("        if isinstance(self.constraints, ClassificationMoment):\n            logger.debug(\"Classification problem detected\")\n"
       "            is_classification_reduction = True\n        else:\n            logger.debug(\"Regression problem detected\")\n"
       "            is_classification_reduction = False\n",
       "        is_classification_reduction = isinstance(self.constraints, ClassificationMoment)\n"), file=GS),
    R("r-grid-temps", "temporaries for the objective's weights and the fit keywords; logger lines removed",
      ("            logger.debug(\"Obtaining weights\")\n", ""),
      ("                weights = weights + objective.signed_weights()", "                objective_weights = objective.signed_weights()\n                weights = weights + objective_weights"),
      (GFIT, "            fit_params = {self.sample_weight_name: weights}\n            current_estimator.fit(X, y_reduction, **fit_params)\n"),
      file=GS),
    R("r-grid-if-not-clf", "`if not is_classification_reduction` with swapped branches, np.abs",
      ("            if is_classification_reduction:\n                logger.debug(\"Applying relabelling for classification problem\")\n"
       "                y_reduction = 1 * (weights > 0)\n                weights = weights.abs()\n            else:\n"
       "                y_reduction = self.constraints._y_as_series\n",
       "            if not is_classification_reduction:\n                y_reduction = self.constraints._y_as_series\n            else:\n"
       "                y_reduction = 1 * (weights > 0)\n                weights = np.abs(weights)\n"), file=GS),
    R("r-span-annot", "annotation / comment at the span flags; temporary in default_objective",
      ("        self.default_objective_lambda_vec = self.prob_attr\n", "        # the objective is in the span\n        self.default_objective_lambda_vec: pd.Series = self.prob_attr\n"),
      ("        return MeanLoss(self.reduction_loss)", "        objective = MeanLoss(self.reduction_loss)\n        return objective"),
      file=BG),
    # ------------------------------------------------------------------ semantic edits: _call_oracle
    S("s-eg-ge", "relabel with `>= 0`", ("            redY = 1 * (signed_weights > 0)", "            redY = 1 * (signed_weights >= 0)")),
    S("s-eg-threshold", "relabel threshold 0.5", ("            redY = 1 * (signed_weights > 0)", "            redY = 1 * (signed_weights > 0.5)")),
    S("s-eg-factor", "relabel factor 2", ("            redY = 1 * (signed_weights > 0)", "            redY = 2 * (signed_weights > 0)")),
    S("s-eg-signed-minus", "objective minus constraint weights", (SW, SW.replace("() + self", "() - self"))),
    S("s-eg-no-abs", "weights not made absolute", ("        redW = signed_weights.abs()", "        redW = signed_weights")),
    S("s-eg-norm-swapped", "normalisation `sum * w / n`",
      ("        redW = self.constraints.total_samples * redW / redW.sum()", "        redW = redW.sum() * redW / self.constraints.total_samples")),
    S("s-eg-norm-dropped", "normalisation dropped", ("        redW = self.constraints.total_samples * redW / redW.sum()\n", "")),
    S("s-eg-norm-before-abs", "normalisation of the signed weights, then abs (dependent statements reordered)",
      ("        redW = signed_weights.abs()\n        redW = self.constraints.total_samples * redW / redW.sum()\n",
       "        redW = self.constraints.total_samples * signed_weights / signed_weights.sum()\n        redW = redW.abs()\n")),
    S("s-eg-branches", "relabel in the regression branch",
      ("        if isinstance(self.constraints, ClassificationMoment):\n            redY = 1 * (signed_weights > 0)\n"
       "        else:\n            redY = self.constraints._y_as_series\n",
       "        if isinstance(self.constraints, ClassificationMoment):\n            redY = self.constraints._y_as_series\n"
       "        else:\n            redY = 1 * (signed_weights > 0)\n")),
    S("s-eg-shortcut-2", "shortcut when two labels", ("        if len(redY_unique) == 1:", "        if len(redY_unique) == 2:")),
    S("s-eg-pick-1", "dummy constant redY_unique[1]", ("constant=redY_unique[0])", "constant=redY_unique[1])")),
    S("s-eg-strategy", "dummy strategy most_frequent", ("DummyClassifier(strategy=\"constant\",", "DummyClassifier(strategy=\"most_frequent\",")),
    S("s-eg-clone-safe", "clone(..., safe=True)", ("clone(estimator=self.estimator, safe=False)", "clone(estimator=self.estimator, safe=True)")),
    S("s-eg-fit-raw-weights", "fit with the signed weights", (FIT, FIT.replace(": redW}", ": signed_weights}"))),
    S("s-eg-fit-labels", "fit with the original labels", (FIT, FIT.replace(".X, redY,", ".X, self.constraints._y_as_series,"))),
    S("s-eg-fit-no-weights", "fit without sample weights", (FIT, "        estimator.fit(self.constraints.X, redY)\n")),
    S("s-eg-unique-of-w", "np.unique of the weights", ("        redY_unique = np.unique(redY)", "        redY_unique = np.unique(redW)")),
    S("s-eg-reassign-late", "labels overwritten right before the fit",
      ("        oracle_call_start_time = time()\n        estimator.fit(self", "        redY = self.constraints._y_as_series\n        oracle_call_start_time = time()\n        estimator.fit(self")),
    S("s-eg-noise-shaped", "weights overwritten by a statement of timing shape",
      ("        oracle_call_start_time = time()\n        estimator.fit(self", "        redW = time()\n        estimator.fit(self"),
      ("time() - oracle_call_start_time)", "time() - redW)")),
    S("s-eg-return-other", "returns self.estimator", ("        self.n_oracle_calls += 1\n\n        return estimator", "        self.n_oracle_calls += 1\n\n        return self.estimator")),
    # ------------------------------------------------------------------ semantic edits: GridSearch.fit
    S("s-grid-span-test", "objective added when it IS in the span",
      ("            if not objective_in_the_span:\n                weights =", "            if objective_in_the_span:\n                weights ="), file=GS),
    S("s-grid-span-def", "objective_in_the_span = ... is None",
      ("default_objective_lambda_vec is not None", "default_objective_lambda_vec is None"), file=GS),
    S("s-grid-minus", "objective weights subtracted",
      ("                weights = weights + objective.signed_weights()", "                weights = weights - objective.signed_weights()"), file=GS),
    S("s-grid-abs-first", "abs before the relabelling (dependent statements reordered)",
      ("                y_reduction = 1 * (weights > 0)\n                weights = weights.abs()\n",
       "                weights = weights.abs()\n                y_reduction = 1 * (weights > 0)\n"), file=GS),
    S("s-grid-lt", "relabel with `<`", ("                y_reduction = 1 * (weights > 0)", "                y_reduction = 1 * (weights < 0)"), file=GS),
    S("s-grid-pick", "dummy constant [1]", ("constant=y_reduction_unique[0]", "constant=y_reduction_unique[1]"), file=GS),
    S("s-grid-flag-swapped", "classification flag values swapped",
      ("            is_classification_reduction = True", "            is_classification_reduction = False"),
      ("            logger.debug(\"Regression problem detected\")\n            is_classification_reduction = False",
       "            logger.debug(\"Regression problem detected\")\n            is_classification_reduction = True"), file=GS),
    S("s-grid-fit-lambda", "fit weighted by lambda_vec", (GFIT, GFIT.replace(": weights}", ": lambda_vec}")), file=GS),
    S("s-grid-est-overwritten", "estimator overwritten after the shortcut",
      ("            oracle_call_start_time = time()\n            current_estimator.fit(",
       "            current_estimator = copy.deepcopy(self.estimator)\n            oracle_call_start_time = time()\n            current_estimator.fit("), file=GS),
    S("s-grid-no-deepcopy", "the learner is not copied",
      ("                current_estimator = copy.deepcopy(self.estimator)", "                current_estimator = self.estimator"), file=GS),
    # ------------------------------------------------------------------ semantic edits: span flags
    S("s-span-loss-none", "loss moments: default_objective_lambda_vec = None",
      ("        self.default_objective_lambda_vec = self.prob_attr", "        self.default_objective_lambda_vec = None"), file=BG),
    S("s-span-parity", "parity moments: default_objective_lambda_vec = self.prob_event",
      ("        self.default_objective_lambda_vec = None", "        self.default_objective_lambda_vec = self.prob_event"), file=UP),
    S("s-span-objective", "default objective of the loss moments changed",
      ("        return MeanLoss(self.reduction_loss)", "        return MeanLoss(SquareLoss(0, 1))"), file=BG),
]
