"""frame.py (FrameSrc.lean): the call site in MetricFrame.__init__, the base frame, the groupby keywords
-- fairlearn/metrics/_metric_frame.py, fairlearn/metrics/_disaggregated_result.py"""
MF = "fairlearn/metrics/_metric_frame.py"
DR = "fairlearn/metrics/_disaggregated_result.py"


def R(id, what, *edits, file=MF, **kw):
    return dict(id="frame-" + id, kind="R", file=file, edits=list(edits), what=what, **kw)


def S(id, what, *edits, file=MF, **kw):
    return dict(id="frame-" + id, kind="S", file=file, edits=list(edits), what=what, **kw)


CREATE = ("        result = DisaggregatedResult.create(\n            data=all_data,\n            annotated_functions=annotated_funcs,\n"
          "            sensitive_feature_names=self._sf_names,\n            control_feature_names=self._cf_names,\n        )\n"
          "        # Build into cache\n        self._populate_results(result)\n")
BASE = '        all_data = pd.DataFrame.from_dict({"y_true": list(y_t), "y_pred": list(y_p)})\n'
GB = "        temp = data.groupby(grouping_names).apply(\n"

CASES = [
    # ------------------------------------------------------------------ refactors
    R("r-create-kw-order", "create(...): keyword arguments reordered",
      (CREATE, "        result = DisaggregatedResult.create(\n            control_feature_names=self._cf_names,\n            sensitive_feature_names=self._sf_names,\n"
       "            annotated_functions=annotated_funcs,\n            data=all_data,\n        )\n        self._populate_results(result)\n")),
    R("r-create-inline", "create(...) passed to _populate_results directly",
      (CREATE, "        self._populate_results(\n            DisaggregatedResult.create(\n                data=all_data,\n                annotated_functions=annotated_funcs,\n"
       "                sensitive_feature_names=self._sf_names,\n                control_feature_names=self._cf_names,\n            )\n        )\n")),
    R("r-create-rename-result", "the local holding the result renamed",
      (CREATE, CREATE.replace("result = ", "raw = ").replace("(result)", "(raw)"))),
    R("r-base-key-order", "from_dict: the two keys in the other order, locals renamed (the column ORDER is emitted; the model looks columns up by name)",
      (BASE, '        all_data = pd.DataFrame.from_dict({"y_pred": list(y_p), "y_true": list(y_t)})\n'), expect="changed",
      why="the generated `init_base_data` lists the columns in dict order; `C01.src_base_data_eq_model` is stated for the pinned order"),
    R("r-groupby-defaults-explicit", "groupby: the pandas defaults written out",
      (GB, "        temp = data.groupby(grouping_names, dropna=True, sort=True, group_keys=True).apply(\n"), file=DR),
    R("r-groupby-by-keyword", "groupby(by=grouping_names)",
      (GB, "        temp = data.groupby(by=grouping_names).apply(\n"), file=DR),
    # ------------------------------------------------------------------ semantic edits
    S("s-create-names-swapped", "create(...): the sensitive and the control names exchanged",
      ("            sensitive_feature_names=self._sf_names,\n            control_feature_names=self._cf_names,\n",
       "            sensitive_feature_names=self._cf_names,\n            control_feature_names=self._sf_names,\n")),
    S("s-create-no-control", "create(...): control_feature_names=None",
      ("            control_feature_names=self._cf_names,\n        )\n        # Build into cache", "            control_feature_names=None,\n        )\n        # Build into cache")),
    S("s-create-other-frame", "create(...): a copy of the frame without the sample-parameter columns",
      ("            data=all_data,\n            annotated_functions=annotated_funcs,\n            sensitive_feature_names=self._sf_names,",
       "            data=all_data[[\"y_true\", \"y_pred\"] + self._sf_names + (self._cf_names or [])],\n            annotated_functions=annotated_funcs,\n            sensitive_feature_names=self._sf_names,")),
    S("s-create-sorted-names", "create(...): the sensitive names sorted",
      ("            sensitive_feature_names=self._sf_names,\n            control_feature_names=self._cf_names,\n",
       "            sensitive_feature_names=sorted(self._sf_names),\n            control_feature_names=self._cf_names,\n")),
    S("s-base-swapped", "from_dict: y_true / y_pred exchanged", (BASE, '        all_data = pd.DataFrame.from_dict({"y_true": list(y_p), "y_pred": list(y_t)})\n')),
    S("s-base-key-renamed", "from_dict: the y_true column renamed", (BASE, '        all_data = pd.DataFrame.from_dict({"y_t": list(y_t), "y_pred": list(y_p)})\n')),
    S("s-base-unconverted", "from_dict: the raw y_pred (a Series would be joined by label)",
      (BASE, '        all_data = pd.DataFrame.from_dict({"y_true": list(y_t), "y_pred": y_pred})\n')),
    S("s-sfnames-reversed", "self._sf_names reversed", ("        self._sf_names = [x.name_ for x in sf_list]\n", "        self._sf_names = [x.name_ for x in reversed(sf_list)]\n")),
    S("s-feature-column-other-name", "the feature columns stored under another name than the one passed on",
      ("            all_data[sf.name_] = list(sf.raw_feature_)\n", "            all_data[\"f_\" + sf.name_] = list(sf.raw_feature_)\n")),
    S("s-groupby-dropna-false", "groupby(dropna=False): a missing feature value becomes a group",
      (GB, "        temp = data.groupby(grouping_names, dropna=False).apply(\n"), file=DR),
    S("s-groupby-sort-false", "groupby(sort=False): groups in order of appearance",
      (GB, "        temp = data.groupby(grouping_names, sort=False).apply(\n"), file=DR),
    S("s-groupby-group-keys-false", "groupby(group_keys=False)",
      (GB, "        temp = data.groupby(grouping_names, group_keys=False).apply(\n"), file=DR),
    S("s-groupby-other-columns", "groupby over the reversed names",
      (GB, "        temp = data.groupby(grouping_names[::-1]).apply(\n"), file=DR),
]
