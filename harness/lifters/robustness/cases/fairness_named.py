"""fairness_named.py (FairNamed.lean) and the `named` / `eoFrame` / `eodds` tables of fairness.py (FairnessSpec.lean)
-- fairlearn/metrics/_fairness_metrics.py"""
F = "fairlearn/metrics/_fairness_metrics.py"


def R(id, what, *edits, **kw):
    return dict(id="fairness_named-" + id, kind="R", file=F, edits=list(edits), what=what, **kw)


def S(id, what, *edits, **kw):
    return dict(id="fairness_named-" + id, kind="S", file=F, edits=list(edits), what=what, **kw)


DPD = ("    sel_rate = MetricFrame(\n        metrics=selection_rate,\n        y_true=y_true,\n        y_pred=y_pred,\n        sensitive_features=sensitive_features,\n"
       "        sample_params={\"sample_weight\": sample_weight},\n    )\n    result = sel_rate.difference(method=method)\n    return result\n")
EOD = ("    eo = _get_eo_frame(y_true, y_pred, sensitive_features, sample_weight)\n\n    if agg == \"worst_case\":\n        return max(eo.difference(method=method))\n"
       "    else:\n        return eo.difference(method=method).mean()\n")
EOF_ = ("    fns = {\"tpr\": true_positive_rate, \"fpr\": false_positive_rate}\n    sw_dict = {\"sample_weight\": sample_weight}\n    sp = {\"tpr\": sw_dict, \"fpr\": sw_dict}\n"
        "    eo = MetricFrame(\n        metrics=fns,\n        y_true=y_true,\n        y_pred=y_pred,\n        sensitive_features=sensitive_features,\n        sample_params=sp,\n    )\n    return eo\n")

CASES = [
    # ------------------------------------------------------------------ refactors
    R("r-dp-rename-inline", "demographic_parity_difference: rename sel_rate, return the aggregate directly, keywords reordered",
      (DPD, "    frame = MetricFrame(\n        metrics=selection_rate,\n        sensitive_features=sensitive_features,\n        y_true=y_true,\n        y_pred=y_pred,\n"
       "        sample_params={\"sample_weight\": sample_weight},\n    )\n    return frame.difference(method=method)\n")),
    R("r-dp-temps", "demographic_parity_difference: temporary for the sample_params dict, annotation, logger.debug",
      (DPD, "    weights = {\"sample_weight\": sample_weight}\n    sel_rate: MetricFrame = MetricFrame(\n        metrics=selection_rate,\n        y_true=y_true,\n        y_pred=y_pred,\n"
       "        sensitive_features=sensitive_features,\n        sample_params=weights,\n    )\n    logger.debug(\"computing the difference\")\n    result = sel_rate.difference(method=method)\n    return result\n"),
      ("from ._metric_frame import MetricFrame\n", "import logging\n\nfrom ._metric_frame import MetricFrame\n\nlogger = logging.getLogger(__name__)\n")),
    R("r-dp-chained", "demographic_parity_difference: one chained expression",
      (DPD, "    return MetricFrame(\n        metrics=selection_rate,\n        y_true=y_true,\n        y_pred=y_pred,\n        sensitive_features=sensitive_features,\n"
       "        sample_params={\"sample_weight\": sample_weight},\n    ).difference(method=method)\n")),
    R("r-eodds-no-else", "equalized_odds_difference: early return without else, rename eo",
      (EOD, "    frame = _get_eo_frame(y_true, y_pred, sensitive_features, sample_weight)\n\n    if agg == \"worst_case\":\n        return max(frame.difference(method=method))\n"
       "    return frame.difference(method=method).mean()\n")),
    R("r-eodds-temp", "equalized_odds_difference: the per-metric differences in a temporary shared by both branches",
      (EOD, "    eo = _get_eo_frame(y_true, y_pred, sensitive_features, sample_weight)\n    diffs = eo.difference(method=method)\n\n    if agg == \"worst_case\":\n        return max(diffs)\n"
       "    else:\n        return diffs.mean()\n")),
    R("r-eodds-not", "equalized_odds_difference: `if not agg == \"worst_case\"` with the branches swapped",
      (EOD, "    eo = _get_eo_frame(y_true, y_pred, sensitive_features, sample_weight)\n\n    if not agg == \"worst_case\":\n        return eo.difference(method=method).mean()\n"
       "    else:\n        return max(eo.difference(method=method))\n")),
    R("r-eoframe-rename", "_get_eo_frame: rename the locals, reorder the independent dicts, return the frame directly",
      (EOF_, "    weights = {\"sample_weight\": sample_weight}\n    per_metric = {\"tpr\": weights, \"fpr\": weights}\n    metric_fns = {\"tpr\": true_positive_rate, \"fpr\": false_positive_rate}\n"
       "    return MetricFrame(\n        metrics=metric_fns,\n        y_true=y_true,\n        y_pred=y_pred,\n        sensitive_features=sensitive_features,\n        sample_params=per_metric,\n    )\n")),
    R("r-eoframe-inline-sw", "_get_eo_frame: sw_dict inlined into sp",
      ("    sw_dict = {\"sample_weight\": sample_weight}\n    sp = {\"tpr\": sw_dict, \"fpr\": sw_dict}\n",
       "    sp = {\"tpr\": {\"sample_weight\": sample_weight}, \"fpr\": {\"sample_weight\": sample_weight}}\n")),
    # ------------------------------------------------------------------ semantic edits
    S("s-dp-base", "demographic_parity_difference disaggregates true_positive_rate",
      ("    sel_rate = MetricFrame(\n        metrics=selection_rate,\n        y_true=y_true,\n        y_pred=y_pred,\n        sensitive_features=sensitive_features,\n        sample_params={\"sample_weight\": sample_weight},\n    )\n    result = sel_rate.difference",
       "    sel_rate = MetricFrame(\n        metrics=true_positive_rate,\n        y_true=y_true,\n        y_pred=y_pred,\n        sensitive_features=sensitive_features,\n        sample_params={\"sample_weight\": sample_weight},\n    )\n    result = sel_rate.difference")),
    S("s-dp-agg", "demographic_parity_difference returns the ratio", ("    result = sel_rate.difference(method=method)\n", "    result = sel_rate.ratio(method=method)\n")),
    S("s-dp-no-weights", "demographic_parity_difference drops the sample weights",
      ("        sample_params={\"sample_weight\": sample_weight},\n    )\n    result = sel_rate.difference", "        sample_params={\"sample_weight\": None},\n    )\n    result = sel_rate.difference")),
    S("s-dp-method", "demographic_parity_difference ignores method=", ("    result = sel_rate.difference(method=method)\n", "    result = sel_rate.difference(method=\"between_groups\")\n")),
    S("s-dp-swapped-data", "demographic_parity_difference: y_true / y_pred exchanged",
      ("        y_true=y_true,\n        y_pred=y_pred,\n        sensitive_features=sensitive_features,\n        sample_params={\"sample_weight\": sample_weight},\n    )\n    result = sel_rate.difference",
       "        y_true=y_pred,\n        y_pred=y_true,\n        sensitive_features=sensitive_features,\n        sample_params={\"sample_weight\": sample_weight},\n    )\n    result = sel_rate.difference")),
    S("s-eodds-min", "equalized_odds_difference(worst_case) uses min", ("        return max(eo.difference(method=method))\n", "        return min(eo.difference(method=method))\n")),
    S("s-eodds-mean-max", "equalized_odds_difference(mean) uses .max()", ("        return eo.difference(method=method).mean()\n", "        return eo.difference(method=method).max()\n")),
    S("s-eodds-agg", "equalized_odds_difference aggregates the ratio in the worst case", ("        return max(eo.difference(method=method))\n", "        return max(eo.ratio(method=method))\n")),
    S("s-eodds-temp-ratio", "equalized_odds_difference: shared temporary holds the ratios",
      (EOD, "    eo = _get_eo_frame(y_true, y_pred, sensitive_features, sample_weight)\n    diffs = eo.ratio(method=method)\n\n    if agg == \"worst_case\":\n        return max(diffs)\n"
       "    else:\n        return diffs.mean()\n")),
    S("s-eodds-branch", "equalized_odds_difference branches on agg == \"mean\"", ("    if agg == \"worst_case\":\n        return max(", "    if agg == \"mean\":\n        return max(")),
    S("s-eodds-args", "equalized_odds_difference: frame built without the sample weights",
      ("    eo = _get_eo_frame(y_true, y_pred, sensitive_features, sample_weight)\n\n    if agg == \"worst_case\":\n        return max(", "    eo = _get_eo_frame(y_true, y_pred, sensitive_features, None)\n\n    if agg == \"worst_case\":\n        return max(")),
    S("s-eoframe-cols", "_get_eo_frame: fpr column is false_negative... (selection_rate)", ("\"fpr\": false_positive_rate}", "\"fpr\": selection_rate}")),
    S("s-eoframe-order", "_get_eo_frame: columns in the other order", ("    fns = {\"tpr\": true_positive_rate, \"fpr\": false_positive_rate}\n", "    fns = {\"fpr\": false_positive_rate, \"tpr\": true_positive_rate}\n")),
    S("s-eoframe-weights", "_get_eo_frame: fpr is not weighted", ("    sp = {\"tpr\": sw_dict, \"fpr\": sw_dict}\n", "    sp = {\"tpr\": sw_dict, \"fpr\": {}}\n")),
]
