"""lossrange.py (LossRange.lean) -- declared ranges of the regression losses, ConditionalLossMoment.gamma"""
BG = "fairlearn/reductions/_moments/bounded_group_loss.py"


def R(id, what, *edits, **kw):
    return dict(id="lossrange-" + id, kind="R", file=BG, edits=list(edits), what=what, **kw)


def S(id, what, *edits, **kw):
    return dict(id="lossrange-" + id, kind="S", file=BG, edits=list(edits), what=what, **kw)


SQ = "        self.min = 0\n        self.max = (max_val - min_val) ** 2\n"
AB = "        self.min = 0\n        self.max = np.abs(max_val - min_val)\n"
LOSS = "        self.tags[_LOSS] = self.reduction_loss.eval(self.tags[_LABEL], self.tags[_PREDICTION])\n"
EXP = "        expect_attr = self.tags.groupby(_GROUP_ID).mean()\n        self._gamma_descr = str(expect_attr[[_LOSS]])\n        return expect_attr[_LOSS]"

CASES = [
    R("r-init-reorder", "reorder the four assignments of SquareLoss.__init__, docstring, annotation",
      ("        self.min_val = min_val\n        self.max_val = max_val\n" + SQ,
       "        \"\"\"Create the loss.\"\"\"\n        self.min: float = 0\n        self.max = (max_val - min_val) ** 2\n        self.max_val = max_val\n        self.min_val = min_val\n")),
    R("r-init-temp", "temporary for the width in both constructors",
      (SQ, "        width = max_val - min_val\n        self.min = 0\n        self.max = width ** 2\n"),
      (AB, "        width = max_val - min_val\n        self.min = 0\n        self.max = np.abs(width)\n")),
    R("r-abs-builtin", "builtin abs for np.abs on the scalar range", (AB, AB.replace("np.abs(", "abs("))),
    R("r-square-product", "`width * width` for `width ** 2`", (SQ, SQ.replace("(max_val - min_val) ** 2", "(max_val - min_val) * (max_val - min_val)"))),
    R("r-gamma-rename", "rename expect_attr in ConditionalLossMoment.gamma", (EXP,
      "        means = self.tags.groupby(_GROUP_ID).mean()\n        self._gamma_descr = str(means[[_LOSS]])\n        return means[_LOSS]")),
    R("r-gamma-temps", "temporaries for predictions, labels and the result; logger.debug",
      ("        self.tags[_PREDICTION] = np.asarray(predictor(self.X))\n", "        raw = predictor(self.X)\n        self.tags[_PREDICTION] = np.asarray(raw)\n        logger.debug(\"predicted\")\n"),
      ("        return expect_attr[_LOSS]", "        result = expect_attr[_LOSS]\n        return result")),
    R("r-zeroone-docstring", "docstring / comment in ZeroOneLoss.__init__", ("        super().__init__(0, 1)", "        \"\"\"Zero-one loss.\"\"\"\n        # range [0, 1]\n        super().__init__(0, 1)")),
    R("r-zeroone-keywords", "ZeroOneLoss: super().__init__(min_val=0, max_val=1)", ("        super().__init__(0, 1)", "        super().__init__(min_val=0, max_val=1)")),
    # ------------------------------------------------------------------ semantic edits
    S("s-square-max", "SquareLoss.max without the square", (SQ, SQ.replace("(max_val - min_val) ** 2", "(max_val - min_val)"))),
    S("s-square-min", "SquareLoss.min = min_val", (SQ, SQ.replace("self.min = 0", "self.min = min_val"))),
    S("s-abs-max", "AbsoluteLoss.max = max_val", (AB, AB.replace("np.abs(max_val - min_val)", "max_val"))),
    S("s-minval-swapped", "min_val / max_val stored crossed in AbsoluteLoss",
      ("        self.min_val = min_val\n        self.max_val = max_val\n        self.min = 0\n        self.max = np.abs(",
       "        self.min_val = max_val\n        self.max_val = min_val\n        self.min = 0\n        self.max = np.abs(")),
    S("s-zeroone-range", "ZeroOneLoss(0, 2)", ("        super().__init__(0, 1)", "        super().__init__(0, 2)")),
    S("s-zeroone-kw-crossed", "ZeroOneLoss: super().__init__(max_val=0, min_val=1)", ("        super().__init__(0, 1)", "        super().__init__(max_val=0, min_val=1)")),
    S("s-eval-args", "eval(prediction, label)", (LOSS, LOSS.replace("self.tags[_LABEL], self.tags[_PREDICTION]", "self.tags[_PREDICTION], self.tags[_LABEL]"))),
    S("s-group-median", "per-group median", ("self.tags.groupby(_GROUP_ID).mean()", "self.tags.groupby(_GROUP_ID).median()")),
    S("s-order", "loss computed before the predictions are stored (dependent statements reordered)",
      ("        self.tags[_PREDICTION] = np.asarray(predictor(self.X))\n" + LOSS, LOSS + "        self.tags[_PREDICTION] = np.asarray(predictor(self.X))\n")),
    S("s-return-col", "returns the prediction column", ("        return expect_attr[_LOSS]", "        return expect_attr[_PREDICTION]")),
]
