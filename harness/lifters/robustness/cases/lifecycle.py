"""lifecycle.py (LifecycleSrc.lean) -- __init__/fit/predict life-cycle facts of every estimator class"""
TO = "fairlearn/postprocessing/_threshold_optimizer.py"
ADV = "fairlearn/adversarial/_adversarial_mitigation.py"
BE = "fairlearn/adversarial/_backend_engine.py"
GS = "fairlearn/reductions/_grid_search/grid_search.py"
CR = "fairlearn/preprocessing/_correlation_remover.py"
LAG = "fairlearn/reductions/_exponentiated_gradient/_lagrangian.py"
MOM = "fairlearn/reductions/_moments/moment.py"
IT = "fairlearn/postprocessing/_interpolated_thresholder.py"
PT = "fairlearn/adversarial/_pytorch_engine.py"
TF = "fairlearn/adversarial/_tensorflow_engine.py"


def R(id, f, what, *edits, **kw):
    return dict(id="lifecycle-" + id, kind="R", file=f, edits=list(edits), what=what, **kw)


def S(id, f, what, *edits, **kw):
    return dict(id="lifecycle-" + id, kind="S", file=f, edits=list(edits), what=what, **kw)


REINIT = "        reinitialize = not hasattr(self, \"classes_\") or not self.warm_start\n"
GUARD = "        if (not is_fitted) or (reinitialize):\n            self.__setup(X, y, A)\n"
KEEP = "        if base.warm_start and hasattr(base, \"backendEngine_\"):\n"
TRY = ("        try:  # TODO check this\n            check_is_fitted(self)\n            is_fitted = True\n"
       "        except NotFittedError:\n            is_fitted = False\n")

IT_LOOP = ("        for a, interpolation in self.interpolation_dict.items():\n"
           "            interpolated_predictions = interpolation.p0 * interpolation.operation0(\n"
           "                base_predictions_vector\n"
           "            ) + interpolation.p1 * interpolation.operation1(base_predictions_vector)\n"
           "            if \"p_ignore\" in interpolation:\n"
           "                interpolated_predictions = (\n"
           "                    interpolation.p_ignore * interpolation.prediction_constant\n"
           "                    + (1 - interpolation.p_ignore) * interpolated_predictions\n"
           "                )\n")
IT_BASE = "        base_predictions = np.array(\n            _get_soft_predictions(self.estimator_, X, self._predict_method)\n        )\n"
PT_EVAL = "        self.predictor_model.eval()\n"
TF_EVAL = "        Y_pred = self.predictor_model(X, training=False)\n"
ADV_EVAL = "        y_pred = self.backendEngine_.evaluate(X)\n"
TO_PMF = ("        return self.interpolated_thresholder_._pmf_predict(\n            X, sensitive_features=sensitive_features\n        )\n")

CASES = [
    # ------------------------------------------------------------------ refactors
    R("r-to-prefit-positive", TO, "`if not self.prefit: A else: B` -> `if self.prefit: B else: A`",
      ("        if not self.prefit:\n            # Following is on two lines due to issue when estimator comes from\n            # TensorFlow\n"
       "            self.estimator_ = clone(self.estimator)\n            self.estimator_.fit(X, y, **kwargs)\n        else:\n"
       "            try:\n                check_is_fitted(self.estimator)\n            except NotFittedError:\n"
       "                warn(BASE_ESTIMATOR_NOT_FITTED_WARNING.format(type(self).__name__))\n            self.estimator_ = self.estimator\n",
       "        if self.prefit:\n"
       "            try:\n                check_is_fitted(self.estimator)\n            except NotFittedError:\n"
       "                warn(BASE_ESTIMATOR_NOT_FITTED_WARNING.format(type(self).__name__))\n            self.estimator_ = self.estimator\n"
       "        else:\n            self.estimator_ = clone(self.estimator)\n            self.estimator_.fit(X, y, **kwargs)\n")),
    R("r-to-alias-temp", TO, "prefit branch: temporary for the user's estimator before aliasing it",
      ("            self.estimator_ = self.estimator\n", "            prefitted = self.estimator\n            self.estimator_ = prefitted\n")),
    R("r-to-noise-rename", TO, "logger.debug, annotation, comment in fit; rename locals scores / threshold_optimization_method",
      ("        scores = _get_soft_predictions(self.estimator_, X, self._predict_method)\n",
       "        logger.debug(\"estimator ready\")\n        soft: np.ndarray = _get_soft_predictions(self.estimator_, X, self._predict_method)\n"),
      ("            threshold_optimization_method = self._threshold_optimization_for_equalized_odds\n",
       "            optimize = self._threshold_optimization_for_equalized_odds\n"),
      ("            threshold_optimization_method = self._threshold_optimization_for_simple_constraints\n",
       "            optimize = self._threshold_optimization_for_simple_constraints\n"),
      ("        self.interpolated_thresholder_ = threshold_optimization_method(\n            sensitive_feature_vector, y, scores\n        )",
       "        # the fitted thresholder\n        self.interpolated_thresholder_ = optimize(sensitive_feature_vector, y, soft)")),
    R("r-to-reorder-metrics", TO, "reorder the independent x_metric_ / y_metric_ assignments",
      ("            self.x_metric_ = \"false_positive_rate\"\n            self.y_metric_ = \"true_positive_rate\"\n",
       "            self.y_metric_ = \"true_positive_rate\"\n            self.x_metric_ = \"false_positive_rate\"\n")),
    R("r-adv-rename-reinit", ADV, "rename the local `reinitialize` of fit",
      (REINIT, "        fresh = not hasattr(self, \"classes_\") or not self.warm_start\n"),
      ("        X, y, A = self._validate_input(X, y, sensitive_features, reinitialize)\n",
       "        X, y, A = self._validate_input(X, y, sensitive_features, fresh)\n")),
    R("r-adv-reinit-demorgan", ADV, "De Morgan: `not (hasattr(..) and self.warm_start)`",
      (REINIT, "        reinitialize = not (hasattr(self, \"classes_\") and self.warm_start)\n")),
    R("r-adv-reinit-swap", ADV, "swap the two (pure) disjuncts of the reinitialize rule",
      (REINIT, "        reinitialize = not self.warm_start or not hasattr(self, \"classes_\")\n")),
    R("r-adv-reinit-temp", ADV, "temporaries for both atoms of the reinitialize rule",
      (REINIT, "        has_classes = hasattr(self, \"classes_\")\n        warm = self.warm_start\n"
               "        reinitialize = not has_classes or not warm\n")),
    R("r-adv-reinit-inline-kw", ADV, "inline the rule into the call and pass it by keyword",
      (REINIT, ""),
      ("        X, y, A = self._validate_input(X, y, sensitive_features, reinitialize)\n",
       "        X, y, A = self._validate_input(\n            X, y, sensitive_features, reinitialize=not hasattr(self, \"classes_\") or not self.warm_start\n        )\n")),
    R("r-adv-guard-rename-swap", ADV, "_validate_input: rename `is_fitted`, swap the disjuncts of the setup guard",
      (TRY, "        try:\n            check_is_fitted(self)\n            already = True\n        except NotFittedError:\n            already = False\n"),
      (GUARD, "        if reinitialize or not already:\n            self.__setup(X, y, A)\n")),
    R("r-adv-guard-demorgan", ADV, "_validate_input: `if not (is_fitted and not reinitialize)`",
      (GUARD, "        if not (is_fitted and not reinitialize):\n            self.__setup(X, y, A)\n")),
    R("r-adv-try-else", ADV, "_validate_input: `is_fitted = True` moved to the `else:` of the try",
      (TRY, "        try:\n            check_is_fitted(self)\n        except NotFittedError:\n            is_fitted = False\n        else:\n            is_fitted = True\n")),
    R("r-adv-rename-cb", ADV, "rename the callback loop variable cb -> callback",
      ("                    for cb in self.callbacks_:\n                        result = cb(\n",
       "                    for callback in self.callbacks_:\n                        result = callback(\n")),
    R("r-adv-isfitted-doc", ADV, "__sklearn_is_fitted__: docstring removed, parenthesised return",
      ("        \"\"\"Speed up check_is_fitted.\"\"\"\n        return hasattr(self, \"_is_setup\")\n",
       "        # speed up check_is_fitted\n        return (hasattr(self, \"_is_setup\"))\n")),
    R("r-be-keep-swap-negate", BE, "BackendEngine.__init__: `if not (hasattr and warm_start): build else: keep`",
      (KEEP + "            self.predictor_model = base.backendEngine_.predictor_model\n"
              "            self.adversary_model = base.backendEngine_.adversary_model\n        else:\n",
       "        if not (hasattr(base, \"backendEngine_\") and base.warm_start):\n"),
      ("                \"adversary\",\n            )\n\n        if hasattr(self, \"__move_model__\"):",
       "                \"adversary\",\n            )\n        else:\n            self.predictor_model = base.backendEngine_.predictor_model\n"
       "            self.adversary_model = base.backendEngine_.adversary_model\n\n        if hasattr(self, \"__move_model__\"):")),
    R("r-be-alias-base", BE, "BackendEngine.__init__: the (positionally passed) parameter renamed, `base` kept as a local alias",
      ("    def __init__(self, base, X, Y, A):", "    def __init__(self, est, X, Y, A):\n        base = est"),
      expect="refused", why="the rule is then over a local alias of the parameter; refusing is the safe answer"),
    R("r-gs-rename-receiver", GS, "rename the local `current_estimator` that GridSearch.fit fits",
      ("                current_estimator = DummyClassifier(\n", "                oracle = DummyClassifier(\n"),
      ("                current_estimator = copy.deepcopy(self.estimator)\n", "                oracle = copy.deepcopy(self.estimator)\n"),
      ("            current_estimator.fit(X, y_reduction, **{self.sample_weight_name: weights})",
       "            oracle.fit(X, y_reduction, **{self.sample_weight_name: weights})"),
      ("                return current_estimator.predict(X)", "                return oracle.predict(X)"),
      ("            self.predictors_.append(current_estimator)", "            self.predictors_.append(oracle)")),
    R("r-cr-reorder-fit", CR, "CorrelationRemover.fit: set _n_features_in_ before beta_ (independent)",
      ("        X_s_center = X_sensitive - self.sensitive_mean_\n        self.beta_, _, _, _ = np.linalg.lstsq(X_s_center, X_use, rcond=None)\n\n        self._n_features_in_ = X.shape[1]\n",
       "        self._n_features_in_ = X.shape[1]\n        X_s_center = X_sensitive - self.sensitive_mean_\n        self.beta_, _, _, _ = np.linalg.lstsq(X_s_center, X_use, rcond=None)\n\n")),
    R("r-cr-to-numpy", CR, "_create_lookup: .values -> .to_numpy(), comment",
      ("            self.lookup_ = {c: i for i, c in enumerate(X.columns)}\n            return X.values\n",
       "            self.lookup_ = {c: i for i, c in enumerate(X.columns)}\n            # lookup built\n            return X.to_numpy()\n")),
    R("r-cr-rename-split", CR, "rename the private method _split_X",
      ("        X_use, X_sensitive = self._split_X(X)\n\n        # correctly", "        X_use, X_sensitive = self._split_columns(X)\n\n        # correctly"),
      ("                % (X.shape[1], self.__class__.__name__, self._n_features_in_)\n            )\n\n        X_use, X_sensitive = self._split_X(X)",
       "                % (X.shape[1], self.__class__.__name__, self._n_features_in_)\n            )\n\n        X_use, X_sensitive = self._split_columns(X)"),
      ("    def _split_X(self, X):", "    def _split_columns(self, X):"),
      expect="changed", why="fitHistoryReads names the method in which the stale read happens (`lookup_ in _split_X`) and C19 pins that string"),
    R("r-lag-reorder-init", LAG, "_Lagrangian.__init__: reorder independent attribute initialisations, annotation",
      ("        self.n_oracle_calls = 0\n        self.oracle_execution_times = []\n        self.n_oracle_calls_dummy_returned = 0\n",
       "        self.n_oracle_calls_dummy_returned: int = 0\n        self.oracle_execution_times = []\n        self.n_oracle_calls = 0\n")),
    # ------------------------------------------------------------------ semantic edits
    S("s-adv-reinit-and", ADV, "reinitialize rule `or` -> `and`",
      (REINIT, "        reinitialize = not hasattr(self, \"classes_\") and not self.warm_start\n")),
    S("s-adv-reinit-no-not", ADV, "reinitialize rule: `not self.warm_start` -> `self.warm_start`",
      (REINIT, "        reinitialize = not hasattr(self, \"classes_\") or self.warm_start\n")),
    S("s-adv-reinit-temp-stale", ADV, "atom read into a temporary, the parameter overwritten before the rule is evaluated",
      (REINIT, "        warm = self.warm_start\n        self.warm_start = False\n"
               "        reinitialize = not hasattr(self, \"classes_\") or not warm\n")),
    S("s-adv-classes-preset", ADV, "classes_ assigned before the rule is evaluated (has_classes always true)",
      (REINIT, "        self.classes_ = None\n" + REINIT)),
    S("s-adv-guard-and", ADV, "setup guard `or` -> `and`",
      (GUARD, "        if (not is_fitted) and (reinitialize):\n            self.__setup(X, y, A)\n")),
    S("s-adv-guard-try-flipped", ADV, "is_fitted computed the wrong way round",
      (TRY, "        try:\n            check_is_fitted(self)\n            is_fitted = False\n        except NotFittedError:\n            is_fitted = True\n")),
    S("s-adv-isfitted-attr", ADV, "__sklearn_is_fitted__ looks at classes_",
      ("        return hasattr(self, \"_is_setup\")\n", "        return hasattr(self, \"classes_\")\n")),
    S("s-be-keep-or", BE, "keep-the-engine rule `and` -> `or`",
      (KEEP, "        if base.warm_start or hasattr(base, \"backendEngine_\"):\n")),
    S("s-to-no-clone", TO, "fit the user's estimator itself",
      ("            self.estimator_ = clone(self.estimator)\n", "            self.estimator_ = self.estimator\n")),
    S("s-to-prefit-clones", TO, "prefit branch clones instead of aliasing",
      ("                warn(BASE_ESTIMATOR_NOT_FITTED_WARNING.format(type(self).__name__))\n            self.estimator_ = self.estimator\n",
       "                warn(BASE_ESTIMATOR_NOT_FITTED_WARNING.format(type(self).__name__))\n            self.estimator_ = clone(self.estimator).fit(X, y)\n")),
    S("s-to-predict-assigns", TO, "predict stores an attribute",
      ("        check_is_fitted(self)\n        return self.interpolated_thresholder_.predict(\n",
       "        check_is_fitted(self)\n        self.last_X_ = X\n        return self.interpolated_thresholder_.predict(\n")),
    S("s-gs-no-deepcopy", GS, "GridSearch fits the user's estimator instead of a deep copy",
      ("                current_estimator = copy.deepcopy(self.estimator)\n", "                current_estimator = self.estimator\n")),
    S("s-cr-drop-lookup", CR, "fit no longer calls _create_lookup",
      ("        self._check_sensitive_features_in_X(X)\n        self._create_lookup(X)\n", "        self._check_sensitive_features_in_X(X)\n")),
    S("s-cr-return-none", CR, "fit returns None",
      ("        self._n_features_in_ = X.shape[1]\n        return self\n", "        self._n_features_in_ = X.shape[1]\n        return None\n")),
    S("s-cr-history-order", CR, "fit reads sensitive_mean_ before assigning it (reordered dependent statements)",
      ("        self.sensitive_mean_ = (\n            np.array([]) if X_sensitive.shape[1] == 0 else X_sensitive.mean(axis=0)\n        )\n\n        X_s_center = X_sensitive - self.sensitive_mean_\n",
       "        X_s_center = X_sensitive - self.sensitive_mean_\n        self.sensitive_mean_ = (\n            np.array([]) if X_sensitive.shape[1] == 0 else X_sensitive.mean(axis=0)\n        )\n\n")),
    S("s-lag-copies-constraints", LAG, "_Lagrangian deep-copies the constraints",
      ("        self.constraints = constraints\n        self.constraints.load_data(X, y, **kwargs)\n",
       "        self.constraints = copy.deepcopy(constraints)\n        self.constraints.load_data(X, y, **kwargs)\n")),
    S("s-mom-latch", MOM, "Moment.load_data asserts it was not loaded before",
      ("        if sensitive_features is not None:\n            assert isinstance(sensitive_features, pd.Series)\n        self.X = X\n",
       "        if sensitive_features is not None:\n            assert isinstance(sensitive_features, pd.Series)\n        assert not self.data_loaded\n        self.X = X\n")),
    S("s-to-ctor-param", TO, "a constructor parameter renamed",
      ("        prefit: bool = False,\n        predict_method: Literal[\"auto\", \"predict_proba\", \"decision_function\", \"predict\"] = \"auto\",\n    ):\n",
       "        pre_fit: bool = False,\n        predict_method: Literal[\"auto\", \"predict_proba\", \"decision_function\", \"predict\"] = \"auto\",\n    ):\n"),
      ("        self.prefit = prefit\n", "        self.prefit = pre_fit\n")),
    # ------------------------------------------------------------------ prediction closure ACROSS the helper objects
    # (harness/lifters/lifecycle_helpers.py: InterpolatedThresholder.predict/_pmf_predict, <engine>.evaluate, the call sites)
    R("r-it-rename-loopvar", IT, "InterpolatedThresholder._pmf_predict: rename the loop variable `interpolation`",
      (IT_LOOP, IT_LOOP.replace("interpolation.", "entry.").replace("a, interpolation in", "a, entry in").replace("in interpolation:", "in entry:"))),
    R("r-it-predict-temp", IT, "InterpolatedThresholder.predict: temporary for the pmf before slicing",
      ("        positive_probs = self._pmf_predict(X, sensitive_features=sensitive_features)[:, 1]\n",
       "        pmf = self._pmf_predict(X, sensitive_features=sensitive_features)\n        positive_probs = pmf[:, 1]\n")),
    R("r-pt-eval-alias", PT, "PytorchEngine.evaluate: local alias for the predictor network (mode call and forward pass through it)",
      (PT_EVAL, "        model = self.predictor_model\n        model.eval()\n"),
      ("        with torch.no_grad():\n            Y_pred = self.predictor_model(X)\n",
       "        with torch.no_grad():\n            Y_pred = model(X)\n")),
    R("r-pt-eval-train-false", PT, "PytorchEngine.evaluate: `.eval()` spelled `.train(False)`",
      (PT_EVAL, "        self.predictor_model.train(False)\n")),
    R("r-pt-eval-reorder", PT, "PytorchEngine.evaluate: the tensor conversion moved before the (independent) mode call",
      (PT_EVAL + "        X = torch.from_numpy(X).float()\n        if self.cuda:\n            X = X.to(self.device)\n        with torch.no_grad():\n",
       "        X = torch.from_numpy(X).float()\n        if self.cuda:\n            X = X.to(self.device)\n" + PT_EVAL + "        with torch.no_grad():\n")),
    R("r-adv-engine-alias", ADV, "_AdversarialFairness._raw_predict: local alias for the engine",
      (ADV_EVAL, "        engine = self.backendEngine_\n        y_pred = engine.evaluate(X)\n")),
    R("r-to-predict-temp", TO, "ThresholdOptimizer._pmf_predict: temporary for the delegated result",
      (TO_PMF, "        pmf = self.interpolated_thresholder_._pmf_predict(\n            X, sensitive_features=sensitive_features\n        )\n        return pmf\n")),
    R("r-tf-eval-logging", TF, "TensorflowEngine.evaluate: logger.debug before the forward pass",
      (TF_EVAL, "        logger.debug(\"forward pass\")\n" + TF_EVAL)),
    S("s-it-call-counter", IT, "InterpolatedThresholder._pmf_predict counts its calls on the helper object",
      (IT_BASE, "        self.n_pmf_calls_ = getattr(self, \"n_pmf_calls_\", 0) + 1\n" + IT_BASE)),
    S("s-it-mutates-entry", IT, "_pmf_predict normalises every interpolation entry IN PLACE (through the loop variable)",
      (IT_LOOP, IT_LOOP.replace("            if \"p_ignore\" in interpolation:\n",
                                "            interpolation.setdefault(\"p_ignore\", 0.0)\n            interpolation.setdefault(\"prediction_constant\", 0.0)\n"
                                "            if \"p_ignore\" in interpolation:\n"))),
    S("s-it-store-entry", IT, "_pmf_predict stores into an interpolation entry (`interpolation.p0 = float(..)`)",
      (IT_LOOP, IT_LOOP.replace("            if \"p_ignore\" in interpolation:\n",
                                "            interpolation.p0 = float(interpolation.p0)\n            if \"p_ignore\" in interpolation:\n"))),
    S("s-it-predict-cache", IT, "InterpolatedThresholder.predict caches the last probabilities on the helper object",
      ("        return (positive_probs >= random_state.rand(len(positive_probs))) * 1\n",
       "        self._last_positive_probs = positive_probs\n        return (positive_probs >= random_state.rand(len(positive_probs))) * 1\n")),
    S("s-it-rebinds-dict", IT, "_pmf_predict rebinds interpolation_dict (a copy)",
      (IT_BASE, "        self.interpolation_dict = dict(self.interpolation_dict)\n" + IT_BASE)),
    S("s-pt-eval-dropped", PT, "PytorchEngine.evaluate no longer selects eval mode (forward pass in whatever mode fit left)",
      (PT_EVAL, "")),
    S("s-pt-eval-train", PT, "PytorchEngine.evaluate selects TRAIN mode", (PT_EVAL, "        self.predictor_model.train()\n")),
    S("s-pt-eval-after-forward", PT, "PytorchEngine.evaluate selects eval mode only AFTER the forward pass",
      (PT_EVAL, ""),
      ("        with torch.no_grad():\n            Y_pred = self.predictor_model(X)\n",
       "        with torch.no_grad():\n            Y_pred = self.predictor_model(X)\n        self.predictor_model.eval()\n")),
    S("s-pt-eval-conditional", PT, "PytorchEngine.evaluate selects eval mode on one path only",
      (PT_EVAL, "        if X.shape[0] > 1:\n            self.predictor_model.eval()\n")),
    S("s-pt-eval-clamps-weights", PT, "PytorchEngine.evaluate clips the weights in place (alias loop over parameters())",
      (PT_EVAL, PT_EVAL + "        for p in self.predictor_model.parameters():\n            p.data.clamp_(-0.25, 0.25)\n")),
    S("s-pt-eval-zero-grad", PT, "PytorchEngine.evaluate calls the optimiser's zero_grad",
      (PT_EVAL, PT_EVAL + "        self.predictor_optimizer.zero_grad()\n")),
    S("s-pt-eval-writes-base", PT, "PytorchEngine.evaluate counts predictions on the estimator (`self.base.n_eval_ = ..`)",
      (PT_EVAL, PT_EVAL + "        self.base.n_eval_ = getattr(self.base, \"n_eval_\", 0) + 1\n")),
    S("s-pt-eval-unknown-method", PT, "PytorchEngine.evaluate calls a method of unknown effect on the network",
      (PT_EVAL, PT_EVAL + "        self.predictor_model.fuse_layers()\n"), expect="refused"),
    S("s-tf-eval-training-true", TF, "TensorflowEngine.evaluate runs the network with training=True",
      (TF_EVAL, "        Y_pred = self.predictor_model(X, training=True)\n")),
    S("s-tf-eval-training-default", TF, "TensorflowEngine.evaluate no longer passes training=False",
      (TF_EVAL, "        Y_pred = self.predictor_model(X)\n")),
    S("s-adv-engine-getattr", ADV, "_raw_predict reaches the engine method through getattr",
      (ADV_EVAL, "        y_pred = getattr(self.backendEngine_, \"evaluate\")(X)\n"), expect="refused"),
    S("s-adv-engine-attr-call", ADV, "_raw_predict calls a method on an ATTRIBUTE of the engine",
      (ADV_EVAL, "        self.backendEngine_.predictor_model.train()\n" + ADV_EVAL), expect="refused"),
    S("s-adv-engine-passed-on", ADV, "_raw_predict hands the engine to a function",
      (ADV_EVAL, "        y_pred = _run_engine(self.backendEngine_, X)\n"), expect="refused"),
    S("s-adv-engine-unknown-method", ADV, "_raw_predict calls a method the engine classes do not define",
      (ADV_EVAL, "        y_pred = self.backendEngine_.evaluate_batched(X)\n"), expect="refused"),
    S("s-to-helper-dict-clear", TO, "ThresholdOptimizer._pmf_predict mutates the helper's interpolation_dict directly",
      (TO_PMF, "        self.interpolated_thresholder_.interpolation_dict.pop(None, None)\n" + TO_PMF), expect="refused"),
    S("s-adv-validate-reset", ADV, "_raw_predict: validate_data(.., reset=True)", ("            reset=False,\n", "            reset=True,\n")),
    # F5g is repaired in /repo (`validate_data(self, X, reset=False)` in CorrelationRemover.transform): the cases below are written
    # against the REPAIRED text (before the fix commit they report BADCASE: pattern not found)
    S("s-cr-validate-reset-dropped", CR, "CorrelationRemover.transform: reset=False dropped again (revert of the F5g repair)",
      ("        X = validate_data(self, X, reset=False)\n        if self._n_features_in_ != X.shape[1]:\n",
       "        X = validate_data(self, X)\n        if self._n_features_in_ != X.shape[1]:\n"), expect="changed"),
    S("s-cr-validate-reset-true", CR, "CorrelationRemover.transform: reset=True",
      ("        X = validate_data(self, X, reset=False)\n        if self._n_features_in_ != X.shape[1]:\n",
       "        X = validate_data(self, X, reset=True)\n        if self._n_features_in_ != X.shape[1]:\n"), expect="changed"),
    S("s-cr-validate-reset-expression", CR, "CorrelationRemover.transform: reset depends on the input",
      ("        X = validate_data(self, X, reset=False)\n        if self._n_features_in_ != X.shape[1]:\n",
       "        X = validate_data(self, X, reset=not hasattr(X, \"columns\"))\n        if self._n_features_in_ != X.shape[1]:\n"), expect="refused"),
    R("r-cr-validate-keyword-x", CR, "CorrelationRemover.transform: validate_data(self, X=X, reset=False), comment",
      ("        X = validate_data(self, X, reset=False)\n        if self._n_features_in_ != X.shape[1]:\n",
       "        # width / feature names are checked against the fitted ones\n        X = validate_data(self, X=X, reset=False)\n        if self._n_features_in_ != X.shape[1]:\n")),
    # ------------------------------------------------------------------ predictOtherCalls (what is NOT followed during prediction)
    R("r-adv-predict-fn-temp", ADV, "_AdversarialFairness.predict: temporary for the predictor function (the call is then on a local: "
      "the generated list loses `predictor_function_()`, every theorem survives)",
      ("        y_pred = self.predictor_function_(y_pred)\n", "        decide = self.predictor_function_\n        y_pred = decide(y_pred)\n"),
      expect="refused",
      why="refused by adv_schedule.py (C17), which pins the statement shapes of predict; lifecycle.py itself emits the shorter "
          "predictOtherCalls list (class b: src_predict_other_calls_trusted / src_predict_pure_flags are subset statements)"),
    R("r-gs-predict-logging", GS, "GridSearch.predict: logger.debug before the delegation",
      ("        return self.predictors_[self.best_idx_].predict(X)\n",
       "        logger.debug(\"delegating\")\n        return self.predictors_[self.best_idx_].predict(X)\n")),
    R("r-adv-predict-rename", ADV, "_AdversarialFairness.predict: rename the local y_pred",
      ("        y_pred = self._raw_predict(X)\n        y_pred = self.predictor_function_(y_pred)\n        y_pred = self._y_transform.inverse_transform(y_pred)\n        return y_pred\n",
       "        out = self._raw_predict(X)\n        out = self.predictor_function_(out)\n        out = self._y_transform.inverse_transform(out)\n        return out\n")),
    R("r-adv-predict-compose", ADV, "_AdversarialFairness.predict: the three steps composed in one expression",
      ("        y_pred = self._raw_predict(X)\n        y_pred = self.predictor_function_(y_pred)\n        y_pred = self._y_transform.inverse_transform(y_pred)\n        return y_pred\n",
       "        return self._y_transform.inverse_transform(self.predictor_function_(self._raw_predict(X)))\n")),
    S("s-gs-predict-refits", GS, "GridSearch.predict refits the selected predictor",
      ("        return self.predictors_[self.best_idx_].predict(X)\n",
       "        self.predictors_[self.best_idx_].fit(X, self.predictors_[self.best_idx_].predict(X))\n        return self.predictors_[self.best_idx_].predict(X)\n")),
    S("s-gs-predict-pops", GS, "GridSearch.predict_proba drops a predictor from the fitted list",
      ("        return self.predictors_[self.best_idx_].predict_proba(X)\n",
       "        self.predictors_.pop()\n        return self.predictors_[self.best_idx_].predict_proba(X)\n")),
    S("s-adv-predict-refits-transform", ADV, "_AdversarialFairness.predict refits the label transformer on the predictions",
      ("        y_pred = self._y_transform.inverse_transform(y_pred)\n        return y_pred\n",
       "        self._y_transform.fit(y_pred)\n        y_pred = self._y_transform.inverse_transform(y_pred)\n        return y_pred\n")),
    S("s-adv-predict-callbacks", ADV, "_AdversarialFairness.predict runs the user callbacks",
      ("        y_pred = self._y_transform.inverse_transform(y_pred)\n        return y_pred\n",
       "        y_pred = self._y_transform.inverse_transform(y_pred)\n        self.callbacks_[0](y_pred)\n        return y_pred\n")),
]
