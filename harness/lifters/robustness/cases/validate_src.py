"""validate_src.py (ValidateSrc.lean) -- the body of `_validate_and_reformat_input` as an ordered list of checks"""
IV = "fairlearn/utils/_input_validation.py"


def R(id, what, *edits, **kw):
    return dict(id="validatesrc-" + id, kind="R", file=IV, edits=list(edits), what=what, **kw)


def S(id, what, *edits, **kw):
    return dict(id="validatesrc-" + id, kind="S", file=IV, edits=list(edits), what=what, **kw)


Y_NONE = "        if y is None:\n            raise ValueError(_MESSAGE_Y_NONE + f\", got y={y}.\")\n"
Y_ASARRAY = "        y = np.asarray(y)\n"
Y_EMPTY = "        if y.size == 0:\n            raise ValueError(_MESSAGE_Y_NONE + f\", got y={y}.\")\n"
Y_BINARY = "        if enforce_binary_labels and not set(np.unique(y)).issubset(set([0, 1])):\n"
Y_CHECK = "        y = check_array(y.reshape(-1), ensure_2d=False, dtype=\"numeric\", ensure_all_finite=False)\n"
X_CHECK = "    result_X = check_array(X, dtype=None, ensure_all_finite=False, allow_nd=True)\n"
X_FRAME = "    if isinstance(X, pd.DataFrame):\n        result_X = pd.DataFrame(result_X)\n"
ROWS = "    if (y is not None) and y.shape[0] != result_X.shape[0]:\n        raise ValueError(_MESSAGE_X_Y_ROWS)\n"
SF_GET = "    sensitive_features = kwargs.get(_KW_SENSITIVE_FEATURES)\n"
SF_ELIF = "    elif expect_sensitive_features:\n        raise ValueError(_MESSAGE_SENSITIVE_FEATURES_NONE)\n"
RESULT_Y = ("    if y is not None:\n        result_y = pd.Series(y)\n    else:\n        result_y = pd.Series(dtype=\"float64\")\n")
RET = "    return (result_X, result_y, sensitive_features, control_features)\n"

CASES = [
    # ------------------------------------------------------------------ refactors
    R("r-rename-result-x", "local result_X renamed",
      (X_CHECK, "    X_checked = check_array(X, dtype=None, ensure_all_finite=False, allow_nd=True)\n"),
      (X_FRAME, "    if isinstance(X, pd.DataFrame):\n        X_checked = pd.DataFrame(X_checked)\n"),
      (ROWS, "    if (y is not None) and y.shape[0] != X_checked.shape[0]:\n        raise ValueError(_MESSAGE_X_Y_ROWS)\n"),
      (RET, "    return (X_checked, result_y, sensitive_features, control_features)\n"),
      expect="changed", why="validate_src.py / merge_callers.py alone: same (locals alpha-renamed); containers.py prints the sink "
                            "expression `pd.DataFrame(X_checked)` into ContainerSites.lean as a comment-like string (C12's table keeps its classes)"),
    R("r-message-temporary", "the message of the rows check through a temporary; a comment; a logger.debug",
      (ROWS, "    # rows of X against rows of y\n    logger.debug(\"comparing rows\")\n    if (y is not None) and y.shape[0] != result_X.shape[0]:\n"
             "        msg = _MESSAGE_X_Y_ROWS\n        raise ValueError(msg)\n")),
    R("r-frame-wrap-moved", "the DataFrame re-wrapping of result_X (not a check) moved after the rows check",
      (X_FRAME + "\n" + ROWS, ROWS + "\n" + X_FRAME)),
    R("r-result-y-moved", "the result_y block (not a check) moved before the sensitive-feature block",
      (RESULT_Y, ""),
      (SF_GET, RESULT_Y + "\n" + SF_GET),
      expect="changed", why="validate_src.py alone: same; containers.py lists the sinks in source order, so the `pd.Series(y)` row of "
                            "ContainerSites.lean moves up (same set of rows, `C12.lifted_sites_drop_labels` is order independent)"),
    R("r-x-keywords-reordered", "keywords of check_array(X, ..) in another order",
      (X_CHECK, "    result_X = check_array(X, allow_nd=True, ensure_all_finite=False, dtype=None)\n")),
    R("r-rows-flipped", "rows comparison read from the other side",
      (ROWS, "    if (y is not None) and result_X.shape[0] != y.shape[0]:\n        raise ValueError(_MESSAGE_X_Y_ROWS)\n")),
    R("r-none-test-else", "`if y is None: raise` written `if y is not None: pass / else: raise`",
      (Y_NONE, "        if y is not None:\n            pass\n        else:\n            raise ValueError(_MESSAGE_Y_NONE + f\", got y={y}.\")\n")),
    R("r-label-set-literal", "label set written as a set display in the other order",
      (Y_BINARY, "        if enforce_binary_labels and not set(np.unique(y)).issubset({1, 0}):\n")),
    R("r-missing-sf-nested", "`elif expect_sensitive_features: raise` written as `else: if ..: raise`",
      (SF_ELIF, "    else:\n        if expect_sensitive_features:\n            raise ValueError(_MESSAGE_SENSITIVE_FEATURES_NONE)\n")),
    # ------------------------------------------------------------------ semantic edits
    S("s-drop-none-check", "the `y is None` check dropped (np.asarray(None) is an array: the empty test does not fire either)",
      (Y_NONE, "")),
    S("s-drop-empty-check", "the empty-y check dropped", (Y_EMPTY, "")),
    S("s-drop-rows-check", "the X / y rows check dropped", (ROWS, "")),
    S("s-label-set-wider", "labels {0,1,2} accepted", (Y_BINARY, "        if enforce_binary_labels and not set(np.unique(y)).issubset(set([0, 1, 2])):\n")),
    S("s-label-set-signed", "labels {-1,1} instead of {0,1}", (Y_BINARY, "        if enforce_binary_labels and not set(np.unique(y)).issubset({-1, 1}):\n")),
    S("s-expect-y-flipped", "`if expect_y:` -> `if not expect_y:`", ("    if expect_y:\n", "    if not expect_y:\n")),
    S("s-expect-sf-flipped", "`elif expect_sensitive_features:` negated",
      (SF_ELIF, "    elif not expect_sensitive_features:\n        raise ValueError(_MESSAGE_SENSITIVE_FEATURES_NONE)\n")),
    S("s-enforce-ignored", "labels checked whatever enforce_binary_labels says",
      (Y_BINARY, "        if not set(np.unique(y)).issubset(set([0, 1])):\n")),
    S("s-enforce-negated", "`enforce_binary_labels` negated",
      (Y_BINARY, "        if not enforce_binary_labels and not set(np.unique(y)).issubset(set([0, 1])):\n")),
    S("s-y-rebound-abs", "`y = np.abs(y)` before the label test", (Y_BINARY, "        y = np.abs(y)\n" + Y_BINARY)),
    S("s-y-rebound-late", "`y = None` before the rows check", (ROWS, "    y = None\n" + ROWS)),
    S("s-sf-rebound-x", "`sensitive_features = X` before the guard that reads it",
      (SF_GET, SF_GET + "    sensitive_features = X\n")),
    S("s-sf-is-none", "`is not None` -> `is None` for the sensitive features",
      ("    if sensitive_features is not None:\n", "    if sensitive_features is None:\n")),
    S("s-y-is-none-flipped", "`y is None` -> `y is not None`", ("        if y is None:\n", "        if y is not None:\n")),
    S("s-rows-none-flipped", "rows check: `y is not None` -> `y is None`",
      (ROWS, "    if (y is None) and y.shape[0] != result_X.shape[0]:\n        raise ValueError(_MESSAGE_X_Y_ROWS)\n")),
    S("s-rows-typeerror", "the rows check raises TypeError",
      (ROWS, "    if (y is not None) and y.shape[0] != result_X.shape[0]:\n        raise TypeError(_MESSAGE_X_Y_ROWS)\n")),
    S("s-missing-sf-typeerror-first", "missing sensitive features tested first and raising TypeError (order of two checks of different kinds)",
      (SF_ELIF, ""),
      ("    if expect_y:\n", "    if expect_sensitive_features and kwargs.get(_KW_SENSITIVE_FEATURES) is None:\n"
                               "        raise TypeError(_MESSAGE_SENSITIVE_FEATURES_NONE)\n    if expect_y:\n")),
    S("s-flag-rebound", "`expect_y = True` at the top", ("    if expect_y:\n", "    expect_y = True\n    if expect_y:\n")),
    S("s-kwargs-popped", "the sensitive features popped from kwargs first",
      ("    if expect_y:\n", "    kwargs.pop(_KW_SENSITIVE_FEATURES, None)\n    if expect_y:\n")),
    S("s-y-finite-enforced", "check_array(y, ensure_all_finite=True)",
      (Y_CHECK, "        y = check_array(y.reshape(-1), ensure_2d=False, dtype=\"numeric\", ensure_all_finite=True)\n")),
    S("s-x-2d-not-enforced", "check_array(X, ensure_2d=False)",
      (X_CHECK, "    result_X = check_array(X, dtype=None, ensure_all_finite=False, allow_nd=True, ensure_2d=False)\n")),
    S("s-asarray-first", "`y = np.asarray(y)` moved before the None test",
      (Y_NONE + Y_ASARRAY, Y_ASARRAY + Y_NONE)),
    S("s-empty-check-asserted", "the empty-y check as an assert", (Y_EMPTY, "        assert y.size != 0\n")),
    S("s-shape-check-weakened", "any 2-D y accepted",
      ("        if not (y.ndim == 1 or (y.ndim == 2 and y.shape[1] == 1)):\n", "        if not (y.ndim == 1 or y.ndim == 2):\n")),
    S("s-rows-check-swallowed", "the rows check inside try / except",
      (ROWS, "    try:\n        if (y is not None) and y.shape[0] != result_X.shape[0]:\n            raise ValueError(_MESSAGE_X_Y_ROWS)\n"
             "    except ValueError:\n        pass\n")),
]
