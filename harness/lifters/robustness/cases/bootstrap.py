"""bootstrap.py (BootstrapSrc.lean) -- fairlearn/metrics/_bootstrap.py and the bootstrap plumbing of MetricFrame"""
B = "fairlearn/metrics/_bootstrap.py"
MF = "fairlearn/metrics/_metric_frame.py"


def R(id, f, what, *edits, **kw):
    return dict(id="bootstrap-" + id, kind="R", file=f, edits=list(edits), what=what, **kw)


def S(id, f, what, *edits, **kw):
    return dict(id="bootstrap-" + id, kind="S", file=f, edits=list(edits), what=what, **kw)


SAMPLE = ("    sampled_data = data.sample(\n        frac=1, replace=True, random_state=random_state, axis=0, ignore_index=True\n    )\n")
CREATE = ("    result = DisaggregatedResult.create(\n        data=sampled_data,\n")
STREAM3 = ("        generator = np.random.default_rng(seed=random_state)\n        rs = generator.integers(\n"
           "            low=0, high=np.iinfo(np.uint32).max, size=n_samples, dtype=np.uint32\n        )\n")
LOOP = ("    for i in range(n_samples):\n        nxt = generate_single_bootstrap_sample(\n            random_state=rs[i],\n")
SERQ = "        result_np = np.quantile(samples, q=quantiles, axis=0)\n"
FRMQ = "        result_np = np.nanquantile(samples, q=quantiles, axis=0)\n"
SERLOOP = ("    for i in range(result_np.shape[0]):\n        nxt = pd.Series(name=samples[0].name, index=samples[0].index, data=result_np[i, :])\n"
           "        result.append(nxt)\n")
ALIGN = ("    all_indices = [sample.index for sample in samples]\n    outer_common_index = reduce(lambda x, y: x.union(y), all_indices)\n"
         "    samples = [sample.reindex(outer_common_index) for sample in samples]\n    return samples\n")
DISPATCH = ("    if isinstance(bootstrap_samples[0], pd.Series):\n        result = _calc_series_quantiles(quantiles=quantiles, samples=bootstrap_samples)\n"
            "    elif isinstance(bootstrap_samples[0], pd.DataFrame):\n        result = _calc_dataframe_quantiles(quantiles=quantiles, samples=bootstrap_samples)\n"
            "    else:\n        assert False, \"Should not be possible to get here\"\n    return result\n")
GBS = ("            _bootstrap_samples = generate_bootstrap_samples(\n                n_samples=n_boot,\n                random_state=random_state,\n                data=all_data,\n")
POP = "            self._populate_results_ci(_bootstrap_samples, ci_quantiles)\n"

CASES = [
    # ------------------------------------------------------------------ refactors
    R("r-single-rename", B, "rename sampled_data / result in generate_single_bootstrap_sample; logger.debug; annotation",
      (SAMPLE, "    boot: pd.DataFrame = data.sample(\n        frac=1, replace=True, random_state=random_state, axis=0, ignore_index=True\n    )\n"
               "    logger.debug(\"drew %d rows\", len(boot))\n"),
      (CREATE, "    out = DisaggregatedResult.create(\n        data=boot,\n"),
      ("        control_feature_names=control_feature_names,\n    )\n    return result\n\n\ndef generate_bootstrap_samples(",
       "        control_feature_names=control_feature_names,\n    )\n    return out\n\n\ndef generate_bootstrap_samples(")),
    R("r-single-inline", B, "inline the sampled frame into DisaggregatedResult.create(..) and return the result directly",
      (SAMPLE, ""),
      (CREATE, "    return DisaggregatedResult.create(\n        data=data.sample(frac=1, replace=True, random_state=random_state, axis=0, ignore_index=True),\n"),
      ("        control_feature_names=control_feature_names,\n    )\n    return result\n\n\ndef generate_bootstrap_samples(",
       "        control_feature_names=control_feature_names,\n    )\n\n\ndef generate_bootstrap_samples(")),
    R("r-single-kw-order", B, "reorder the keywords of data.sample(..); `frac=1.0`",
      (SAMPLE, "    sampled_data = data.sample(\n        axis=0, random_state=random_state, replace=True, frac=1.0, ignore_index=True\n    )\n")),
    R("r-stream-rename", B, "rename rs / i / nxt / result / generator in generate_bootstrap_samples",
      ("    if random_state is None:\n        generator = np.random.default_rng()\n        rs = generator.integers(",
       "    if random_state is None:\n        gen = np.random.default_rng()\n        seeds = gen.integers("),
      ("        rs = random_state.randint(", "        seeds = random_state.randint("),
      (STREAM3, "        gen = np.random.default_rng(seed=random_state)\n        seeds = gen.integers(\n"
                "            low=0, high=np.iinfo(np.uint32).max, size=n_samples, dtype=np.uint32\n        )\n"),
      ("    result = []\n" + LOOP, "    out = []\n    for k in range(n_samples):\n        one = generate_single_bootstrap_sample(\n            random_state=seeds[k],\n"),
      ("            control_feature_names=control_feature_names,\n        )\n        result.append(nxt)\n\n    return result\n",
       "            control_feature_names=control_feature_names,\n        )\n        out.append(one)\n    return out\n")),
    R("r-stream-range0-inline", B, "`range(0, n_samples)`; the sample appended without the temporary",
      (LOOP, "    for i in range(0, n_samples):\n        result.append(generate_single_bootstrap_sample(\n            random_state=rs[i],\n"),
      ("            control_feature_names=control_feature_names,\n        )\n        result.append(nxt)\n\n    return result\n",
       "            control_feature_names=control_feature_names,\n        ))\n    return result\n")),
    R("r-stream-high-temp", B, "temporary for the upper bound of the seed stream",
      ("    assert n_samples >= 1\n    if random_state is None:\n", "    assert n_samples >= 1\n    hi = np.iinfo(np.uint32).max\n    if random_state is None:\n"),
      ("        generator = np.random.default_rng()\n        rs = generator.integers(\n            low=0, high=np.iinfo(np.uint32).max, size=n_samples, dtype=np.uint32\n        )\n",
       "        generator = np.random.default_rng()\n        rs = generator.integers(low=0, high=hi, size=n_samples, dtype=np.uint32)\n"),
      ("        rs = random_state.randint(\n            low=0, high=np.iinfo(np.uint32).max, size=n_samples, dtype=np.uint32\n        )\n",
       "        rs = random_state.randint(low=0, high=hi, size=n_samples, dtype=np.uint32)\n"),
      (STREAM3, "        generator = np.random.default_rng(seed=random_state)\n        rs = generator.integers(low=0, high=hi, size=n_samples, dtype=np.uint32)\n")),
    R("r-stream-inline-generator", B, "integer branch: `np.random.default_rng(seed=random_state).integers(..)` without the local",
      (STREAM3, "        rs = np.random.default_rng(seed=random_state).integers(\n"
                "            low=0, high=np.iinfo(np.uint32).max, size=n_samples, dtype=np.uint32\n        )\n")),
    R("r-series-rename-positional-q", B, "_calc_series_quantiles: rename result_np / i / nxt, q passed positionally, explicit method=\"linear\"",
      (SERQ, "        q_np = np.quantile(samples, quantiles, axis=0, method=\"linear\")\n"),
      ("    result = []\n    assert result_np.shape[0] == len(quantiles)\n" + SERLOOP,
       "    result = []\n    assert q_np.shape[0] == len(quantiles)\n    for k in range(0, q_np.shape[0]):\n"
       "        entry = pd.Series(data=q_np[k, :], name=samples[0].name, index=samples[0].index)\n        result.append(entry)\n")),
    R("r-series-inline-entry", B, "_calc_series_quantiles: entry appended without the temporary",
      (SERLOOP, "    for i in range(result_np.shape[0]):\n        result.append(pd.Series(name=samples[0].name, index=samples[0].index, data=result_np[i, :]))\n")),
    R("r-align-rename", B, "_align_sample_indices: rename locals, comprehension variables and the lambda's arguments",
      (ALIGN, "    indices = [df.index for df in samples]\n    union = reduce(lambda a, b: a.union(b), indices)\n"
              "    samples = [df.reindex(union) for df in samples]\n    return samples\n")),
    R("r-align-inline", B, "_align_sample_indices: inline both temporaries and return the list directly",
      (ALIGN, "    outer_common_index = reduce(lambda x, y: x.union(y), [sample.index for sample in samples])\n"
              "    return [sample.reindex(outer_common_index) for sample in samples]\n")),
    R("r-dispatch-return", B, "calculate_pandas_quantiles: return from the branches directly",
      (DISPATCH, "    if isinstance(bootstrap_samples[0], pd.Series):\n        return _calc_series_quantiles(quantiles=quantiles, samples=bootstrap_samples)\n"
                 "    elif isinstance(bootstrap_samples[0], pd.DataFrame):\n        return _calc_dataframe_quantiles(quantiles=quantiles, samples=bootstrap_samples)\n"
                 "    else:\n        assert False, \"Should not be possible to get here\"\n")),
    R("r-dispatch-rename", B, "calculate_pandas_quantiles: rename the local `result`, temporary for the first sample",
      (DISPATCH, "    first = bootstrap_samples[0]\n    if isinstance(first, pd.Series):\n        out = _calc_series_quantiles(quantiles=quantiles, samples=bootstrap_samples)\n"
                 "    elif isinstance(first, pd.DataFrame):\n        out = _calc_dataframe_quantiles(quantiles=quantiles, samples=bootstrap_samples)\n"
                 "    else:\n        assert False, \"Should not be possible to get here\"\n    return out\n")),
    R("r-mf-rename-samples", MF, "MetricFrame.__init__: rename _bootstrap_samples",
      (GBS, "            boot = generate_bootstrap_samples(\n                n_samples=n_boot,\n                random_state=random_state,\n                data=all_data,\n"),
      (POP, "            self._populate_results_ci(boot, ci_quantiles)\n")),
    R("r-mf-populate-kw", MF, "MetricFrame.__init__: _populate_results_ci called with keywords",
      (POP, "            self._populate_results_ci(bootstrap_samples=_bootstrap_samples, ci_quantiles=ci_quantiles)\n")),
    R("r-mf-ci-kw", MF, "_populate_results_ci: quantiles passed by keyword at the first call site, renamed locals",
      ("        result_overall = calculate_pandas_quantiles(\n            ci_quantiles, [x.overall for x in bootstrap_samples]\n        )\n"
       "        self._result_cache[\"overall_ci\"] = [\n            self._extract_result(x, no_control_levels=False) for x in result_overall\n        ]\n",
       "        overall_q = calculate_pandas_quantiles(\n            quantiles=ci_quantiles, bootstrap_samples=[b.overall for b in bootstrap_samples]\n        )\n"
       "        self._result_cache[\"overall_ci\"] = [\n            self._extract_result(q, no_control_levels=False) for q in overall_q\n        ]\n")),
    R("r-mf-group-ci-positional", MF, "_populate_results_ci: self._group_ci(..) called positionally",
      ("            self._result_cache[k] = self._group_ci(\n                bootstrap_samples=bootstrap_samples,\n                ci_quantiles=ci_quantiles,\n                grouping_function=v,\n            )\n",
       "            self._result_cache[k] = self._group_ci(bootstrap_samples, ci_quantiles, v)\n")),
    # ------------------------------------------------------------------ semantic edits
    S("s-single-no-replace", B, "replace=False", ("frac=1, replace=True, random_state", "frac=1, replace=False, random_state")),
    S("s-single-frac", B, "frac=0.5", ("frac=1, replace=True", "frac=0.5, replace=True")),
    S("s-single-axis", B, "axis=1", ("random_state=random_state, axis=0, ignore_index=True", "random_state=random_state, axis=1, ignore_index=True")),
    S("s-single-keep-index", B, "ignore_index=False", ("axis=0, ignore_index=True", "axis=0, ignore_index=False")),
    S("s-single-wrong-frame", B, "the un-resampled frame is evaluated", (CREATE, "    result = DisaggregatedResult.create(\n        data=data,\n")),
    S("s-single-seed-dropped", B, "data.sample without the seed", ("replace=True, random_state=random_state, axis=0", "replace=True, random_state=None, axis=0")),
    S("s-stream-fixed-seed", B, "every sample seeded with rs[0]", ("            random_state=rs[i],\n", "            random_state=rs[0],\n")),
    S("s-stream-user-seed", B, "every sample seeded with the user's seed", ("            random_state=rs[i],\n", "            random_state=random_state,\n")),
    S("s-stream-loop-count", B, "one sample fewer", ("    for i in range(n_samples):\n        nxt = generate", "    for i in range(n_samples - 1):\n        nxt = generate")),
    S("s-stream-range-from-1", B, "loop starts at 1", ("    for i in range(n_samples):\n        nxt = generate", "    for i in range(1, n_samples):\n        nxt = generate")),
    S("s-stream-int-seed", B, "integer seeds shifted", ("np.random.default_rng(seed=random_state)", "np.random.default_rng(seed=random_state + 1)")),
    S("s-stream-high", B, "seed range of one branch changed",
      ("        rs = random_state.randint(\n            low=0, high=np.iinfo(np.uint32).max,", "        rs = random_state.randint(\n            low=0, high=np.iinfo(np.uint16).max,")),
    S("s-stream-not-appended", B, "only the last sample is returned",
      ("        result.append(nxt)\n\n    return result\n\n\ndef _calc_series_quantiles", "        result = [nxt]\n\n    return result\n\n\ndef _calc_series_quantiles")),
    S("s-series-nan", B, "series quantiles skip NaN", (SERQ, "        result_np = np.nanquantile(samples, q=quantiles, axis=0)\n")),
    S("s-frame-axis", B, "frame quantiles along axis 1", (FRMQ, "        result_np = np.nanquantile(samples, q=quantiles, axis=1)\n")),
    S("s-frame-method", B, "frame quantiles method=lower", (FRMQ, "        result_np = np.nanquantile(samples, q=quantiles, axis=0, method=\"lower\")\n")),
    S("s-series-q-sorted", B, "series quantiles in sorted order", (SERQ, "        result_np = np.quantile(samples, q=sorted(quantiles), axis=0)\n")),
    S("s-series-q-positional-axis", B, "positional call with the quantiles in the axis slot",
      (SERQ, "        result_np = np.quantile(samples, 0, quantiles)\n")),
    S("s-series-row", B, "every entry built from row 0", ("index=samples[0].index, data=result_np[i, :])", "index=samples[0].index, data=result_np[0, :])")),
    S("s-series-index-last", B, "entry index taken from the last sample",
      ("name=samples[0].name, index=samples[0].index, data=result_np[i, :]", "name=samples[0].name, index=samples[-1].index, data=result_np[i, :]")),
    S("s-frame-no-align", B, "frames no longer aligned", ("    samples = _align_sample_indices(samples)\n", "")),
    S("s-align-intersection", B, "alignment to the intersection of the indices", ("lambda x, y: x.union(y)", "lambda x, y: x.intersection(y)")),
    S("s-align-swapped-args", B, "reindex to the per-sample indices list", ("sample.reindex(outer_common_index)", "sample.reindex(all_indices[0])")),
    S("s-dispatch-swapped", B, "Series go to the DataFrame routine",
      ("        result = _calc_series_quantiles(quantiles=quantiles, samples=bootstrap_samples)\n",
       "        result = _calc_dataframe_quantiles(quantiles=quantiles, samples=bootstrap_samples)\n")),
    S("s-dispatch-temp-last", B, "dispatch on the type of the LAST sample through a temporary",
      (DISPATCH, "    first = bootstrap_samples[-1]\n    if isinstance(first, pd.Series):\n        out = _calc_series_quantiles(quantiles=quantiles, samples=bootstrap_samples)\n"
                 "    elif isinstance(first, pd.DataFrame):\n        out = _calc_dataframe_quantiles(quantiles=quantiles, samples=bootstrap_samples)\n"
                 "    else:\n        assert False, \"Should not be possible to get here\"\n    return out\n")),
    S("s-stream-high-temp", B, "upper bound of the seed stream changed through a temporary",
      ("    assert n_samples >= 1\n    if random_state is None:\n", "    assert n_samples >= 1\n    hi = np.iinfo(np.uint16).max\n    if random_state is None:\n"),
      (STREAM3, "        generator = np.random.default_rng(seed=random_state)\n        rs = generator.integers(low=0, high=hi, size=n_samples, dtype=np.uint32)\n")),
    S("s-mf-nboot", MF, "n_samples=n_boot + 1", ("                n_samples=n_boot,\n", "                n_samples=n_boot + 1,\n")),
    S("s-mf-seed", MF, "random_state not forwarded", ("                n_samples=n_boot,\n                random_state=random_state,\n", "                n_samples=n_boot,\n                random_state=None,\n")),
    S("s-mf-data", MF, "the bootstrap resamples another frame",
      ("                random_state=random_state,\n                data=all_data,\n", "                random_state=random_state,\n                data=all_data.head(10),\n")),
    S("s-mf-quantiles-sorted", MF, "by_group_ci computed for sorted quantiles",
      ("            ci_quantiles, [x.by_group for x in bootstrap_samples]\n", "            sorted(ci_quantiles), [x.by_group for x in bootstrap_samples]\n")),
    S("s-mf-group-ci-args", MF, "positional _group_ci with swapped arguments",
      ("            self._result_cache[k] = self._group_ci(\n                bootstrap_samples=bootstrap_samples,\n                ci_quantiles=ci_quantiles,\n                grouping_function=v,\n            )\n",
       "            self._result_cache[k] = self._group_ci(ci_quantiles, bootstrap_samples, v)\n")),
    S("s-mf-accessor-dropped", MF, "ratio_ci no longer filled", ("        for c_t in [\"difference_ci\", \"ratio_ci\"]:\n", "        for c_t in [\"difference_ci\"]:\n")),
    S("s-mf-populate-swapped", MF, "populate called with the quantiles of another variable",
      (POP, "            self._populate_results_ci(_bootstrap_samples, self._ci_quantiles[::-1])\n")),
]

# ---------------------------------------------------------------------- statement census (L2)
RET1 = "        control_feature_names=control_feature_names,\n    )\n    return result\n\n\ndef generate_bootstrap_samples("
CASES += [
    R("r-census-assert-moved", B, "a second pure assert and the existing one moved between the two calls",
      ("    assert random_state is not None, \"Must specify random_state\"\n\n" + SAMPLE,
       SAMPLE + "    assert random_state is not None, \"Must specify random_state\"\n    assert len(data.columns) > 0\n")),
    R("r-census-create-kw-order", B, "keywords of DisaggregatedResult.create reordered, comment between the two calls",
      (CREATE + "        annotated_functions=annotated_functions,\n        sensitive_feature_names=sensitive_feature_names,\n",
       "    # evaluate the metrics on the resampled frame\n" + CREATE + "        sensitive_feature_names=sensitive_feature_names,\n        annotated_functions=annotated_functions,\n")),
    R("r-census-stream-pure-local", B, "pure local bindings (dtype, count alias read in the assert only) in generate_bootstrap_samples",
      ("    assert n_samples >= 1\n    if random_state is None:\n", "    dt = np.uint32\n    assert n_samples >= 1\n    logger.debug(\"%s\", dt)\n    if random_state is None:\n")),
    R("r-census-stream-else-raise-type", B, "the unsupported-seed branch raises TypeError",
      ("        raise ValueError(f\"Unsupported random_state: {random_state}\")", "        raise TypeError(f\"Unsupported random_state: {random_state!r}\")")),
    S("s-census-drop-duplicates-inplace", B, "the resampled frame loses its repeated rows (in-place call between sample and create)",
      (SAMPLE, SAMPLE + "    sampled_data.drop_duplicates(inplace=True)\n"), expect="refused"),
    S("s-census-drop-duplicates-chained", B, "`.drop_duplicates()` chained on data.sample(..)",
      ("axis=0, ignore_index=True\n    )\n\n    result = DisaggregatedResult", "axis=0, ignore_index=True\n    ).drop_duplicates()\n\n    result = DisaggregatedResult"), expect="refused"),
    S("s-census-column-overwritten", B, "a column of the resampled frame is overwritten before the metrics are evaluated",
      (SAMPLE, SAMPLE + "    sampled_data[\"y_pred\"] = data[\"y_pred\"].values\n"), expect="refused"),
    S("s-census-sort-inplace", B, "the resampled frame is re-sampled once more inside an if between the two calls",
      (SAMPLE, SAMPLE + "    if len(sampled_data) > 2:\n        sampled_data = sampled_data.iloc[:-1]\n"), expect="refused"),
    S("s-census-data-rebound", B, "`data` is cut before it is sampled",
      (SAMPLE, "    data = data.iloc[: max(1, len(data) // 2)]\n" + SAMPLE), expect="refused"),
    S("s-census-create-args-crossed", B, "create gets the control features as sensitive features",
      ("    result = DisaggregatedResult.create(\n        data=sampled_data,\n        annotated_functions=annotated_functions,\n        sensitive_feature_names=sensitive_feature_names,\n",
       "    result = DisaggregatedResult.create(\n        data=sampled_data,\n        annotated_functions=annotated_functions,\n        sensitive_feature_names=control_feature_names or sensitive_feature_names,\n"),
      expect="refused"),
    S("s-census-result-patched", B, "the DisaggregatedResult is modified after it was created",
      (RET1, "        control_feature_names=control_feature_names,\n    )\n    result.overall = result.overall * 0\n    return result\n\n\ndef generate_bootstrap_samples("),
      expect="refused"),
    S("s-census-stream-data-inplace", B, "generate_bootstrap_samples de-duplicates `data` in place before the loop",
      ("    result = []\n" + LOOP, "    data.drop_duplicates(inplace=True)\n    result = []\n" + LOOP), expect="refused"),
    S("s-census-stream-loop-patch", B, "every sample is patched inside the loop before it is appended",
      ("            control_feature_names=control_feature_names,\n        )\n        result.append(nxt)\n\n    return result\n",
       "            control_feature_names=control_feature_names,\n        )\n        nxt.overall = nxt.overall.round(1)\n        result.append(nxt)\n\n    return result\n"),
      expect="refused"),
    S("s-census-stream-continue", B, "every second sample is skipped",
      (LOOP, "    for i in range(n_samples):\n        if i % 2:\n            continue\n        nxt = generate_single_bootstrap_sample(\n            random_state=rs[i],\n"),
      expect="refused"),
]
