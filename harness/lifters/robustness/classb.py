"""Class (b) test: for robustness cases whose generated text CHANGES under a behaviour-preserving refactor, check that the
Lean proofs survive: write the changed Generated/*.lean files (originals are restored afterwards, also on failure), and
`lake build` every FairModel.Properties.Cxx module that imports one of them.

    /venv/bin/python harness/lifters/robustness/classb.py CASE_ID [CASE_ID ...]

Must not run concurrently with a harness.vcheck run in the same checkout (both use lean/.lake)."""
import os
import subprocess
import sys
import tempfile

HERE = os.path.dirname(os.path.abspath(__file__))
ROOT = os.path.abspath(os.path.join(HERE, "..", "..", ".."))
sys.path.insert(0, ROOT)
sys.path.insert(0, HERE)
import run as R  # noqa: E402
from harness import translate, leanrun  # noqa: E402


def main(ids):
    cases = {c["id"]: c for c in R.load_cases([])}
    R.ensure_wt()
    rc = 0
    try:
        base = R.run_all(R.WT)
        for cid in ids:
            c = cases[cid]
            with R.Applied(c):
                got = R.run_all(R.WT)
            changed = {name: content for k, (st, name, content) in got.items() if st == "ok" and content != base[k][2]}
            refused = [k for k, v in got.items() if v[0] != "ok"]
            if refused or not changed:
                print(f"{cid}: nothing to build (changed={sorted(changed)}, refused={refused})")
                continue
            props = [f"C{i:02d}" for i in range(1, 21)
                     if set(changed) & translate.generated_deps(f"FairModel.Properties.C{i:02d}")]
            saved = {}
            try:
                for name, content in changed.items():
                    p = os.path.join(translate.GEN_DIR, name)
                    saved[p] = open(p).read()
                    with open(p, "w") as f:
                        f.write(content)
                t = subprocess.run(["lake", "build"] + [f"FairModel.Properties.{p}" for p in props] + ["driver"],
                                   cwd=leanrun.LEAN, capture_output=True, text=True)
                ok = t.returncode == 0
                print(f"{cid}: changed {sorted(changed)} -> lake build {' '.join(props)} driver: {'OK (class b)' if ok else 'FAILS (class c)'}")
                if not ok:
                    rc = 1
                    print("\n".join((t.stdout + t.stderr).splitlines()[-25:]))
            finally:
                for p, content in saved.items():
                    with open(p, "w") as f:
                        f.write(content)
        # bring the build products back to the pinned text
        subprocess.run(["lake", "build", "FairModel", "driver"], cwd=leanrun.LEAN, capture_output=True, text=True)
    finally:
        subprocess.run(["git", "-C", R.WT, "checkout", "--", "."], stdout=subprocess.DEVNULL, stderr=subprocess.DEVNULL)
        R.remove_wt()
    return rc


if __name__ == "__main__":
    sys.exit(main(sys.argv[1:]))
