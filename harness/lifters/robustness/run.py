"""False-alarm robustness suite for the translator tie (harness/lifters/*.py).

Every case is a textual edit of fairlearn source applied in a SCRATCH git worktree of the repo (never in the repo
itself), after which every lifter is re-run in memory (nothing under lean/ is written) and its output compared with
what it emits for the unchanged tree:

    kind "R"  behaviour-preserving refactor   expected: every generated file byte-identical (class a)
              expect="changed"                 documented class (b): text differs, the proofs were checked to survive
              expect="refused"                 deliberately left refused (the `why` field says why)
    kind "S"  semantics-changing edit          expected: at least one generated file differs, or a lifter refuses

Case files: harness/lifters/robustness/cases/<lifter>.py with a list CASES of dicts
    {"id", "kind", "file", "edits": [(old, new), ...], "what", optional "expect", "why", "files": {rel: [(old, new)]}}
`old` must occur exactly once in the file (the runner fails loudly otherwise, so the suite cannot rot silently).

    /venv/bin/python harness/lifters/robustness/run.py                 # all cases, summary table
    /venv/bin/python harness/lifters/robustness/run.py tradeoff oracle # some case files
    /venv/bin/python harness/lifters/robustness/run.py --md            # markdown rows for ROBUSTNESS.md
    /venv/bin/python harness/lifters/robustness/run.py --emit ID DIR   # write the generated files of case ID to DIR
    /venv/bin/python harness/lifters/robustness/run.py --apply ID,ID,.. DIR   # apply these cases' edits to the tree in DIR
                                   (then: VERIF_REPO=DIR /venv/bin/python -m harness.vcheck Cxx --tier quick)
Exit status 1 when a case does not have its expected outcome.
"""
import ast
import difflib
import importlib.util
import os
import subprocess
import sys

HERE = os.path.dirname(os.path.abspath(__file__))
ROOT = os.path.abspath(os.path.join(HERE, "..", "..", ".."))
sys.path.insert(0, ROOT)
REPO = os.environ.get("VERIF_BASE_REPO", "/repo")
WT = os.environ.get("VERIF_ROBUST_WT", "/tmp/wt-H1-robust")

from harness import translate  # noqa: E402


def lifters():
    if not translate.LIFTERS:
        translate._load_lifters()
    return [(f"{fn.__module__.rsplit('.', 1)[-1]}.{fn.__name__}", fn) for fn in translate.LIFTERS]


def run_all(repo):
    out = {}
    for key, fn in lifters():
        try:
            name, content, _meta = fn(repo)
            out[key] = ("ok", name, content)
        except translate.Untranslatable as e:
            out[key] = ("refused", None, str(e))
        except Exception as e:  # a lifter must refuse, never crash
            out[key] = ("CRASH", None, f"{type(e).__name__}: {e}")
    return out


def load_cases(names):
    d = os.path.join(HERE, "cases")
    files = sorted(f for f in os.listdir(d) if f.endswith(".py"))
    if names:
        files = [f for f in files if f[:-3] in names]
    cases = []
    for f in files:
        spec = importlib.util.spec_from_file_location("robust_cases_" + f[:-3], os.path.join(d, f))
        m = importlib.util.module_from_spec(spec)
        spec.loader.exec_module(m)
        for c in m.CASES:
            c = dict(c)
            c["group"] = f[:-3]
            cases.append(c)
    ids = [c["id"] for c in cases]
    dup = {i for i in ids if ids.count(i) > 1}
    if dup:
        raise SystemExit(f"duplicate case ids: {sorted(dup)}")
    return cases


class CaseError(SystemExit):
    """the case itself is broken (pattern not found, edited module not runnable)"""


def apply_edits(src, edits, where):
    for old, new in edits:
        n = src.count(old)
        if n != 1:
            raise CaseError(f"{where}: pattern occurs {n} times (need exactly 1): {old[:80]!r}")
        src = src.replace(old, new)
    tree = ast.parse(src)  # the edited file must still be Python
    # a refactor that adds `logger.debug(...)` must be runnable: the module has to define `logger`
    uses = any(isinstance(n, ast.Attribute) and isinstance(n.value, ast.Name) and n.value.id == "logger" for n in ast.walk(tree))
    defines = any(isinstance(n, ast.Assign) and any(isinstance(t, ast.Name) and t.id == "logger" for t in n.targets)
                  for n in tree.body)
    if uses and not defines:
        # the maintainer who adds logging to a module also adds the logger: insert the two usual lines before the first
        # statement that is neither the module docstring nor a `from __future__` import
        first = next((n for n in tree.body
                      if not (isinstance(n, ast.Expr) and isinstance(n.value, ast.Constant))
                      and not (isinstance(n, ast.ImportFrom) and n.module == "__future__")), None)
        if first is None:
            raise CaseError(f"{where}: the edited module uses `logger` but does not define it")
        lines = src.splitlines(keepends=True)
        at = first.lineno - 1
        lines[at:at] = ["import logging\n", "\n", "logger = logging.getLogger(__name__)\n", "\n"]
        src = "".join(lines)
        ast.parse(src)
    return src


def ensure_wt():
    if not os.path.isdir(WT):
        subprocess.run(["git", "-C", REPO, "worktree", "add", "--detach", WT, "HEAD"], check=True,
                       stdout=subprocess.DEVNULL, stderr=subprocess.DEVNULL)
    # the worktree must be clean
    st = subprocess.run(["git", "-C", WT, "status", "--porcelain"], capture_output=True, text=True).stdout.strip()
    if st:
        subprocess.run(["git", "-C", WT, "checkout", "--", "."], check=True)


def remove_wt():
    subprocess.run(["git", "-C", REPO, "worktree", "remove", "--force", WT], stdout=subprocess.DEVNULL,
                   stderr=subprocess.DEVNULL)


class Applied:
    def __init__(self, case):
        self.case = case
        self.saved = {}

    def __enter__(self):
        c = self.case
        files = dict(c.get("files", {}))
        if "file" in c:
            files[c["file"]] = c["edits"]
        todo = {}
        for rel, edits in files.items():        # compute every edited file first: a broken case changes nothing
            p = os.path.join(WT, rel)
            with open(p) as f:
                src = f.read()
            self.saved[p] = src
            todo[p] = apply_edits(src, edits, f"{c['id']} ({rel})")
        for p, new in todo.items():
            with open(p, "w") as f:
                f.write(new)
        return self

    def __exit__(self, *a):
        for p, src in self.saved.items():
            with open(p, "w") as f:
                f.write(src)


def outcome(base, got):
    """-> (class, detail): same | changed | refused | crash"""
    changed, refused, crash = [], [], []
    for k, (st, name, content) in got.items():
        if st == "CRASH":
            crash.append(f"{k}: {content}")
        elif st == "refused":
            refused.append(f"{k}: {content}")
        elif content != base[k][2]:
            changed.append(base[k][1])
    if crash:
        return "crash", crash
    if refused:
        return "refused", refused
    if changed:
        return "changed", changed
    return "same", []


def main(argv):
    md = "--md" in argv
    verbose = "-v" in argv
    emit = None
    if "--emit" in argv:
        i = argv.index("--emit")
        emit = (argv[i + 1], argv[i + 2])
        argv = argv[:i] + argv[i + 3:]
    if "--apply" in argv:
        # --apply ID[,ID...] DIR : apply the edits of these cases (cumulatively) to the fairlearn tree in DIR and stop
        i = argv.index("--apply")
        ids, target = argv[i + 1].split(","), argv[i + 2]
        allc = {c["id"]: c for c in load_cases([])}
        for cid in ids:
            c = allc[cid]
            files = dict(c.get("files", {}))
            if "file" in c:
                files[c["file"]] = c["edits"]
            for rel, edits in files.items():
                path = os.path.join(target, rel)
                with open(path) as f:
                    src = f.read()
                new_src = apply_edits(src, edits, f"{cid} ({rel})")
                with open(path, "w") as f:
                    f.write(new_src)
            print("applied", cid)
        return 0
    names = [a for a in argv if not a.startswith("-")]
    cases = load_cases(names)
    ensure_wt()
    bad = 0
    try:
        base = run_all(WT)
        for k, v in base.items():
            if v[0] != "ok":
                raise SystemExit(f"lifter {k} does not translate the unchanged tree: {v[2]}")
            disk = os.path.join(translate.GEN_DIR, v[1])
            if os.path.exists(disk) and open(disk).read() != v[2]:
                print(f"NOTE: {v[1]} on disk differs from what the lifter emits for the unchanged tree")
        rows = []
        for c in cases:
            if emit and c["id"] != emit[0]:
                continue
            try:
                with Applied(c):
                    got = run_all(WT)
                cls, detail = outcome(base, got)
            except CaseError as e:
                got, cls, detail = {}, "BADCASE", [str(e)]
            if emit:
                os.makedirs(emit[1], exist_ok=True)
                for k, (st, name, content) in got.items():
                    if st == "ok" and content != base[k][2]:
                        with open(os.path.join(emit[1], name), "w") as f:
                            f.write(content)
                        print("wrote", os.path.join(emit[1], name))
            if c["kind"] == "R":
                want = c.get("expect", "same")
                ok = cls == want
            else:
                want = c.get("expect", "changed|refused")
                ok = cls in want.split("|")
            if cls in ("crash", "BADCASE"):
                ok = False
            rows.append((c, cls, detail, ok))
            if not ok:
                bad += 1
            if md:
                continue
            if not ok or verbose:
                print(f"{'ok  ' if ok else 'FAIL'} {c['group']:18} {c['id']:34} {c['kind']} -> {cls:8} (want {want})  {c['what']}")
                for d in detail[:4]:
                    print("       ", d[:300])
                if verbose and cls == "changed":
                    for k, (st, name, content) in got.items():
                        if st == "ok" and content != base[k][2]:
                            for line in difflib.unified_diff(base[k][2].splitlines(), content.splitlines(), lineterm="", n=0):
                                print("          ", line[:200])
        if md:
            print("| lifter | case | kind | edit | outcome | note |\n|---|---|---|---|---|---|")
            for c, cls, detail, ok in rows:
                note = c.get("why", "")
                if cls == "changed":
                    note = (note + " " if note else "") + "changes " + ", ".join(sorted(set(detail)))
                print(f"| {c['group']} | {c['id']} | {c['kind']} | {c['what']} | {cls}{'' if ok else ' (UNEXPECTED)'} | {note} |")
        else:
            n_r = sum(1 for c, *_ in rows if c["kind"] == "R")
            n_s = len(rows) - n_r
            print(f"{len(rows)} cases ({n_r} refactors, {n_s} semantic edits), {bad} unexpected")
            by = {}
            for c, cls, _d, ok in rows:
                by.setdefault((c["group"], c["kind"], cls), 0)
                by[(c["group"], c["kind"], cls)] += 1
            for (g, k, cls), n in sorted(by.items()):
                print(f"   {g:18} {k} {cls:8} {n}")
    finally:
        subprocess.run(["git", "-C", WT, "checkout", "--", "."], stdout=subprocess.DEVNULL, stderr=subprocess.DEVNULL)
        if os.environ.get("VERIF_ROBUST_KEEP") != "1":
            remove_wt()
    return 1 if bad else 0


if __name__ == "__main__":
    sys.exit(main(sys.argv[1:]))
