"""Lifter for the MetricFrame disaggregation -> Generated/FrameSrc.lean

Translates, from the Python ast (refusing every shape it does not know):
  fairlearn/metrics/_disaggregated_result.py
    * `DisaggregatedResult._apply_functions` — statement by statement: the "no grouping" test
      (`grouping_names is None or len(grouping_names) == 0`), `data.groupby(names).apply(apply_to_dataframe, ...)`,
      the re-index condition (`len(grouping_names) > 1`), `pd.MultiIndex.from_product([np.unique(data[col]) for col in
      grouping_names])` and `temp.reindex(index=all_indices)`;
    * `DisaggregatedResult.create` — which column lists `overall` and `by_group` are grouped on, in which order
      (`control_feature_names` / `(control_feature_names or []) + sensitive_feature_names`);
    * `apply_to_dataframe` — every function of the dict is applied to the SAME frame and stored under its own key;
  fairlearn/metrics/_annotated_metric_function.py
    * `AnnotatedMetricFunction.__call__` — positional arguments read from `df[arg_name]`, keyword arguments
      `kwargs[func_arg_name] = df[data_arg_name]` for the items of `kw_argument_mapping`, all from the same `df`;
  fairlearn/metrics/_metric_frame.py
    * the loop of `MetricFrame._construct_annotated_metric_function` (skip `None`, the column name f-string, the column
      assignment, the mapping entry) and its `positional_argument_names=`;
    * `_get_annotated_metric_functions`: a bare callable is constructed with `name=None` and the whole `sample_params`,
      a dict entry with its key and `sample_params.get(key, {})`.
The pandas calls are mapped to the primitives of `Model/FramePrims.lean`.  `Lemmas/FrameSrc.lean` proves the translation
equal to `Frame.byGroup/overall` (`*_eq_model`); `Model/FrameMulti.lean` (multi-metric frames) is built on it."""
import ast
import hashlib
import os

from .. import translate
from . import normalize

DR = "fairlearn/metrics/_disaggregated_result.py"
AMF = "fairlearn/metrics/_annotated_metric_function.py"
MF = "fairlearn/metrics/_metric_frame.py"

LEAN_KEYWORDS = {"at", "fun", "let", "in", "do", "then", "else", "if", "end", "from", "have", "show", "with", "open", "where",
                 "match", "by", "mut", "return", "for", "some", "none", "true", "false", "Type", "Prop", "local", "def"}


def U(rel, msg):
    return translate.Untranslatable(f"{rel}: {msg}")


def ident(name):
    if not name.isidentifier():
        raise translate.Untranslatable(f"bad identifier {name!r}")
    return f"«{name}»" if name in LEAN_KEYWORDS else name


def dotted(e):
    parts = []
    while isinstance(e, ast.Attribute):
        parts.append(e.attr)
        e = e.value
    if isinstance(e, ast.Name):
        parts.append(e.id)
        return ".".join(reversed(parts))
    return None


def no_doc(body):
    return [s for s in body if not (isinstance(s, ast.Expr) and isinstance(s.value, ast.Constant) and isinstance(s.value.value, str))]


def kwonly_names(fn, rel, want_n):
    a = fn.args
    names = [x.arg for x in a.args if x.arg not in ("self", "cls")] + [x.arg for x in a.kwonlyargs]
    if a.vararg or a.kwarg or len(names) != want_n:
        raise U(rel, f"{fn.name}: unexpected parameter list {names}")
    return names


def is_name(e, n):
    return isinstance(e, ast.Name) and e.id == n


# ---------------------------------------------------------------------------------------------- _apply_functions
class ApplyFunctions:
    def __init__(self, fn):
        self.fn = fn
        self.data, self.fns, self.names = kwonly_names(fn, DR, 3)
        self.types = {self.data: "data", self.fns: "fns", self.names: "names"}
        self.groupby_dropna = None

    def err(self, msg, node=None):
        ln = f" (line {node.lineno})" if node is not None and hasattr(node, "lineno") else ""
        return U(DR, f"_apply_functions{ln}: {msg}")

    def names_list(self):
        return f"({ident(self.names)}.getD [])"

    def cond(self, e):
        if isinstance(e, ast.BoolOp):
            op = " || " if isinstance(e.op, ast.Or) else " && "
            return "(" + op.join(self.cond(v) for v in e.values) + ")"
        if isinstance(e, ast.UnaryOp) and isinstance(e.op, ast.Not):
            if is_name(e.operand, self.names):  # `not grouping_names`: None or empty
                return f"({ident(self.names)}.isNone || ({self.names_list()}.length == 0))"
            return f"(!{self.cond(e.operand)})"
        if isinstance(e, ast.Compare) and len(e.ops) == 1:
            l, op, r = e.left, e.ops[0], e.comparators[0]
            if is_name(l, self.names) and isinstance(r, ast.Constant) and r.value is None \
                    and isinstance(op, (ast.Is, ast.IsNot)):
                return f"{ident(self.names)}.{'isNone' if isinstance(op, ast.Is) else 'isSome'}"
            if isinstance(l, ast.Call) and dotted(l.func) == "len" and len(l.args) == 1 and is_name(l.args[0], self.names) \
                    and isinstance(r, ast.Constant) and isinstance(r.value, int) and not isinstance(r.value, bool):
                k = r.value
                if isinstance(op, ast.Eq):
                    return f"({self.names_list()}.length == {k})"
                if isinstance(op, ast.NotEq):
                    return f"({self.names_list()}.length != {k})"
                sym = {ast.Gt: ">", ast.GtE: "≥", ast.Lt: "<", ast.LtE: "≤"}.get(type(op))
                if sym:
                    return f"decide ({self.names_list()}.length {sym} {k})"
        raise self.err(f"unsupported condition {ast.unparse(e)}", e)

    def check_apply_kwargs(self, call, first_positional):
        """apply_to_dataframe(...) / .apply(apply_to_dataframe, ...): metric_functions=<fns>, optional include_groups=False"""
        kws = {k.arg: k.value for k in call.keywords}
        if set(kws) - {"metric_functions", "include_groups"} or "metric_functions" not in kws \
                or not is_name(kws["metric_functions"], self.fns):
            raise self.err(f"unexpected keyword arguments in {ast.unparse(call)}", call)
        if "include_groups" in kws and not (isinstance(kws["include_groups"], ast.Constant) and kws["include_groups"].value is False):
            raise self.err("include_groups is not False", call)
        if len(call.args) != 1 or not first_positional(call.args[0]):
            raise self.err(f"unexpected positional arguments in {ast.unparse(call)}", call)

    def groupby_keywords(self, g):
        """`data.groupby(names, dropna=..., sort=..., group_keys=...)`: the grouping columns are the `grouping_names`
        parameter (positional or `by=`); `dropna` is emitted (pandas default True: a row whose key contains a missing value is
        in no group); `sort` / `group_keys` must have their default True (the primitives know the sorted, keyed result only);
        every other keyword (`level`, `as_index`, `observed`, `axis`, ...) is refused."""
        kws = {}
        for k in g.keywords:
            if k.arg is None or k.arg in kws:
                raise self.err(f"unsupported groupby arguments in {ast.unparse(g)}", g)
            kws[k.arg] = k.value
        if len(g.args) == 1 and "by" not in kws:
            by = g.args[0]
        elif not g.args and "by" in kws:
            by = kws.pop("by")
        else:
            raise self.err(f"expected {self.data}.groupby({self.names}, ...), found {ast.unparse(g)}", g)
        if not is_name(by, self.names):
            raise self.err(f"groupby is not over the parameter {self.names}: {ast.unparse(g)}", g)
        if set(kws) - {"dropna", "sort", "group_keys"}:
            raise self.err(f"unsupported groupby keyword(s) {sorted(set(kws) - {'dropna', 'sort', 'group_keys'})}", g)
        for k, v in kws.items():
            if not (isinstance(v, ast.Constant) and isinstance(v.value, bool)):
                raise self.err(f"groupby {k}= is not a literal True / False: {ast.unparse(v)}", g)
        for k in ("sort", "group_keys"):
            if k in kws and kws[k].value is not True:
                raise self.err(f"groupby({k}=False) is not modelled (the groupby primitive is the sorted, keyed result)", g)
        if self.groupby_dropna is not None:
            raise self.err("more than one groupby call", g)
        self.groupby_dropna = kws["dropna"].value if "dropna" in kws else True

    def expr(self, e):
        """-> (lean, type)"""
        if isinstance(e, ast.Name):
            if e.id not in self.types:
                raise self.err(f"unknown name {e.id}", e)
            return ident(e.id), self.types[e.id]
        if isinstance(e, ast.Call):
            f = dotted(e.func)
            if f == "apply_to_dataframe":
                self.check_apply_kwargs(e, lambda a: is_name(a, self.data))
                return f"ungrouped {ident(self.data)} {ident(self.fns)}", "table"
            if isinstance(e.func, ast.Attribute) and e.func.attr == "apply":
                g = e.func.value
                if not (isinstance(g, ast.Call) and isinstance(g.func, ast.Attribute) and g.func.attr == "groupby"
                        and is_name(g.func.value, self.data)):
                    raise self.err(f"expected {self.data}.groupby({self.names}).apply(...), found {ast.unparse(e)}", e)
                self.groupby_keywords(g)
                self.check_apply_kwargs(e, lambda a: is_name(a, "apply_to_dataframe"))
                return f"groupbyApplyNa groupby_dropna {ident(self.data)} {self.names_list()} {ident(self.fns)}", "table"
            if f in ("pd.MultiIndex.from_product", "MultiIndex.from_product"):
                kws = {k.arg: k.value for k in e.keywords}
                if set(kws) - {"names"} or ("names" in kws and not is_name(kws["names"], self.names)) or len(e.args) != 1:
                    raise self.err(f"unexpected arguments in {ast.unparse(e)}", e)
                lc = e.args[0]
                if not (isinstance(lc, ast.ListComp) and len(lc.generators) == 1 and not lc.generators[0].ifs
                        and isinstance(lc.generators[0].target, ast.Name) and is_name(lc.generators[0].iter, self.names)):
                    raise self.err("from_product argument is not a comprehension over the grouping names", e)
                var = lc.generators[0].target.id
                el = lc.elt
                if not (isinstance(el, ast.Call) and dotted(el.func) == "np.unique" and len(el.args) == 1 and not el.keywords
                        and isinstance(el.args[0], ast.Subscript) and is_name(el.args[0].value, self.data)
                        and is_name(el.args[0].slice, var)):
                    raise self.err(f"from_product levels are not np.unique({self.data}[col]): {ast.unparse(el)}", e)
                return (f"fromProduct ({self.names_list()}.map (fun {ident(var)} => npUnique (column {ident(self.data)} "
                        f"{ident(var)})))"), "index"
            if isinstance(e.func, ast.Attribute) and e.func.attr == "reindex":
                t, tt = self.expr(e.func.value)
                kws = {k.arg: k.value for k in e.keywords}
                if tt != "table":
                    raise self.err("reindex of something that is not a groupby result", e)
                if len(e.args) == 1 and not kws:
                    ix = e.args[0]
                elif not e.args and set(kws) == {"index"}:
                    ix = kws["index"]
                else:
                    raise self.err(f"unexpected arguments in {ast.unparse(e)} (fill_value etc. are not modelled)", e)
                i, it = self.expr(ix)
                if it != "index":
                    raise self.err("reindex target is not an index", e)
                return f"reindex nanv {i} {t}", "table"
        raise self.err(f"unsupported expression {ast.unparse(e)}", e)

    def returns(self, body):
        body = no_doc(body)
        return bool(body) and (isinstance(body[-1], ast.Return) or (
            isinstance(body[-1], ast.If) and self.returns(body[-1].body) and self.returns(body[-1].orelse)))

    def block(self, body, ind):
        body = no_doc(body)
        if not body:
            raise self.err("a path does not return")
        st, rest = body[0], body[1:]
        if isinstance(st, ast.Return):
            s, t = self.expr(st.value)
            if t != "table":
                raise self.err(f"returns a value of kind {t}", st)
            return [ind + s]
        if isinstance(st, ast.Assign) and len(st.targets) == 1 and isinstance(st.targets[0], ast.Name):
            s, t = self.expr(st.value)
            self.types[st.targets[0].id] = t
            return [f"{ind}let {ident(st.targets[0].id)} := {s}"] + self.block(rest, ind)
        if isinstance(st, ast.If):
            c = self.cond(st.test)
            saved = dict(self.types)
            if self.returns(st.body):
                then = self.block(st.body, ind + "  ")
                self.types = dict(saved)
                els = self.block(list(st.orelse) + rest, ind + "  ")
                self.types = saved
                return [f"{ind}if {c} then"] + then + [f"{ind}else"] + els
            raise self.err("an if-branch that does not return is not supported", st)
        raise self.err(f"unsupported statement {ast.unparse(st)[:60]}", st)

    def lean(self):
        body = self.block(self.fn.body, "  ")
        d, f, n = ident(self.data), ident(self.fns), ident(self.names)
        if self.groupby_dropna is None:
            raise self.err("no groupby call found")
        return ("/-- `data.groupby(grouping_names, dropna=...)` in `_apply_functions` (pandas default `True` when not given): a row\n"
                "    whose key contains a missing value belongs to no group; `sort=` / `group_keys=` are pinned to `True` by the lifter -/\n"
                f"def groupby_dropna : Bool := {'true' if self.groupby_dropna else 'false'}\n\n"
                f"/-- `DisaggregatedResult._apply_functions` -/\n"
                f"def apply_functions (nanv : β) ({d} : List (Row α)) ({f} : List α → β)\n"
                f"    ({n} : Option (List Col)) : List (Key × β) :=\n" + "\n".join(body))


# ---------------------------------------------------------------------------------------------- create
def lift_create(fn, af):
    names = kwonly_names(fn, DR, 4)
    data, fns, sfn, cfn = names
    if (sfn, cfn) != ("sensitive_feature_names", "control_feature_names"):
        raise U(DR, f"create: parameters {names}")
    d = fn.args.kw_defaults
    if len(d) != 4 or d[2] is not None or not (isinstance(d[3], ast.Constant) and d[3].value is None):
        raise U(DR, "create: unexpected defaults")

    def names_expr(e):
        """-> (lean, 'list'|'olist')"""
        if is_name(e, cfn):
            return ident(cfn), "olist"
        if is_name(e, sfn):
            return ident(sfn), "list"
        if isinstance(e, ast.Constant) and e.value is None:
            return "none", "olist"
        if isinstance(e, ast.List) and not e.elts:
            return "([] : List Col)", "list"
        if isinstance(e, ast.BoolOp) and isinstance(e.op, ast.Or) and len(e.values) == 2 \
                and isinstance(e.values[1], ast.List) and not e.values[1].elts:
            s, t = names_expr(e.values[0])
            return (f"({s}.getD [])", "list") if t == "olist" else (s, "list")
        if isinstance(e, ast.BinOp) and isinstance(e.op, ast.Add):
            (a, at), (b, bt) = names_expr(e.left), names_expr(e.right)
            if at != "list" or bt != "list":
                raise U(DR, f"create: concatenation of a possibly-None list in {ast.unparse(e)}")
            return f"({a} ++ {b})", "list"
        raise U(DR, f"create: unsupported grouping_names expression {ast.unparse(e)}")

    bound = {}
    ret = None
    for st in no_doc(fn.body):
        if isinstance(st, ast.Assign) and len(st.targets) == 1 and isinstance(st.targets[0], ast.Name):
            c = st.value
            if not (isinstance(c, ast.Call) and dotted(c.func) in ("DisaggregatedResult._apply_functions", "cls._apply_functions")
                    and not c.args):
                raise U(DR, f"create: unsupported statement {ast.unparse(st)[:80]}")
            kws = {k.arg: k.value for k in c.keywords}
            if set(kws) != {af.data, af.fns, af.names} or not is_name(kws[af.data], data) or not is_name(kws[af.fns], fns):
                raise U(DR, f"create: _apply_functions is not called with data/annotated_functions passed through: {ast.unparse(c)}")
            s, t = names_expr(kws[af.names])
            bound[st.targets[0].id] = s if t == "olist" else f"(some {s})"
        elif isinstance(st, ast.Return):
            ret = st.value
        else:
            raise U(DR, f"create: unsupported statement {ast.unparse(st)[:80]}")
    if not (isinstance(ret, ast.Call) and dotted(ret.func) in ("DisaggregatedResult", "cls")):
        raise U(DR, "create: does not return DisaggregatedResult(...)")
    given = {}
    for nm, a in zip(["overall", "by_group"], ret.args):
        given[nm] = a
    for k in ret.keywords:
        given[k.arg] = k.value
    if set(given) != {"overall", "by_group"} or not all(isinstance(v, ast.Name) and v.id in bound for v in given.values()):
        raise U(DR, f"create: unexpected constructor call {ast.unparse(ret)}")
    out = []
    for which in ("overall", "by_group"):
        out.append(
            f"/-- `DisaggregatedResult.create`: `{which}` -/\n"
            f"def create_{which} (nanv : β) ({ident(data)} : List (Row α)) ({ident(fns)} : List α → β)\n"
            f"    ({ident(sfn)} : List Col) ({ident(cfn)} : Option (List Col)) : List (Key × β) :=\n"
            f"  apply_functions nanv {ident(data)} {ident(fns)} {bound[given[which].id]}")
    return out, {w: bound[given[w].id] for w in ("overall", "by_group")}


# ---------------------------------------------------------------------------------------------- apply_to_dataframe
def lift_apply_to_dataframe(fn):
    a = fn.args
    names = [x.arg for x in a.args]
    if len(names) < 2 or a.vararg or a.kwarg:
        raise U(DR, f"apply_to_dataframe: parameters {names}")
    data, mfs = names[0], names[1]
    loops = [s for s in ast.walk(fn) if isinstance(s, ast.For)]
    if len(loops) != 1:
        raise U(DR, "apply_to_dataframe: expected exactly one loop")
    lp = loops[0]
    if not (isinstance(lp.target, ast.Tuple) and len(lp.target.elts) == 2 and all(isinstance(x, ast.Name) for x in lp.target.elts)
            and isinstance(lp.iter, ast.Call) and isinstance(lp.iter.func, ast.Attribute) and lp.iter.func.attr == "items"
            and is_name(lp.iter.func.value, mfs) and not lp.orelse and len(lp.body) == 1):
        raise U(DR, "apply_to_dataframe: loop is not `for name, fn in metric_functions.items(): <one statement>`")
    k, v = lp.target.elts[0].id, lp.target.elts[1].id
    st = lp.body[0]
    if not (isinstance(st, ast.Assign) and len(st.targets) == 1 and isinstance(st.targets[0], ast.Subscript)
            and isinstance(st.targets[0].value, ast.Name) and is_name(st.targets[0].slice, k)
            and isinstance(st.value, ast.Call) and is_name(st.value.func, v) and len(st.value.args) == 1
            and not st.value.keywords and is_name(st.value.args[0], data)):
        raise U(DR, f"apply_to_dataframe: loop body is not `values[{k}] = {v}({data})`: {ast.unparse(st)}")
    store = st.targets[0].value.id
    # the stored dict must be what the result is built from
    if not any(isinstance(n, ast.Call) and dotted(n.func) == "pd.Series" and n.args and is_name(n.args[0], store)
               for n in ast.walk(fn)):
        raise U(DR, f"apply_to_dataframe: result is not pd.Series({store})")
    return (f"/-- `apply_to_dataframe` -/\n"
            f"def apply_to_dataframe {{δ : Type}} ({ident(data)} : δ) ({ident(mfs)} : List (String × (δ → γ))) : List (String × γ) :=\n"
            f"  {ident(mfs)}.map (fun ({ident(k)}, {ident(v)}) => ({ident(k)}, {ident(v)} {ident(data)}))")


# ---------------------------------------------------------------------------------------------- __call__
def unwrap_array(e):
    """np.asarray(list(X)) / np.asarray(X) / list(X) -> X"""
    while isinstance(e, ast.Call) and dotted(e.func) in ("np.asarray", "np.array", "list") and len(e.args) == 1 and not e.keywords:
        e = e.args[0]
    return e


def lift_call(cls):
    fn = next((n for n in cls.body if isinstance(n, ast.FunctionDef) and n.name == "__call__"), None)
    if fn is None:
        raise U(AMF, "__call__ not found")
    params = [x.arg for x in fn.args.args]
    if len(params) != 2 or params[0] != "self":
        raise U(AMF, f"__call__: parameters {params}")
    df = params[1]
    body = no_doc(fn.body)
    pos_attr = kw_attr = None
    args_name = kwargs_name = None
    arg_var = fk = dk = None
    final = None
    aliases = {}
    for st in body:
        if isinstance(st, ast.Assign) and len(st.targets) == 1 and isinstance(st.targets[0], ast.Name):
            v = st.value
            if isinstance(v, ast.List) and not v.elts:
                args_name = st.targets[0].id
                continue
            if (isinstance(v, ast.Dict) and not v.keys) or (isinstance(v, ast.Call) and dotted(v.func) == "dict" and not v.args and not v.keywords):
                kwargs_name = st.targets[0].id
                continue
            if isinstance(v, ast.Call) and dotted(v.func) == "self.func":
                aliases[st.targets[0].id] = v
                continue
            raise U(AMF, f"__call__: unsupported statement {ast.unparse(st)}")
        if isinstance(st, ast.For) and not st.orelse and len(st.body) == 1:
            b = st.body[0]
            if isinstance(st.target, ast.Name) and isinstance(st.iter, ast.Attribute) and is_name(st.iter.value, "self"):
                # for arg_name in self.<attr>: args.append(W(df[arg_name]))
                if not (isinstance(b, ast.Expr) and isinstance(b.value, ast.Call) and isinstance(b.value.func, ast.Attribute)
                        and b.value.func.attr == "append" and is_name(b.value.func.value, args_name or "") and len(b.value.args) == 1):
                    raise U(AMF, f"__call__: positional loop body {ast.unparse(b)}")
                src = unwrap_array(b.value.args[0])
                if not (isinstance(src, ast.Subscript) and is_name(src.value, df) and is_name(src.slice, st.target.id)):
                    raise U(AMF, f"__call__: positional argument is not read from {df}[{st.target.id}]: {ast.unparse(b)}")
                pos_attr, arg_var = st.iter.attr, st.target.id
                continue
            if isinstance(st.target, ast.Tuple) and len(st.target.elts) == 2 and all(isinstance(x, ast.Name) for x in st.target.elts) \
                    and isinstance(st.iter, ast.Call) and isinstance(st.iter.func, ast.Attribute) and st.iter.func.attr == "items" \
                    and isinstance(st.iter.func.value, ast.Attribute) and is_name(st.iter.func.value.value, "self"):
                a, b2 = st.target.elts[0].id, st.target.elts[1].id
                if not (isinstance(b, ast.Assign) and len(b.targets) == 1 and isinstance(b.targets[0], ast.Subscript)
                        and is_name(b.targets[0].value, kwargs_name or "") and isinstance(b.targets[0].slice, ast.Name)):
                    raise U(AMF, f"__call__: keyword loop body {ast.unparse(b)}")
                key = b.targets[0].slice.id
                src = unwrap_array(b.value)
                if not (isinstance(src, ast.Subscript) and is_name(src.value, df) and isinstance(src.slice, ast.Name)):
                    raise U(AMF, f"__call__: keyword argument is not read from {df}[...]: {ast.unparse(b)}")
                col = src.slice.id
                if {key, col} != {a, b2} or key == col:
                    raise U(AMF, f"__call__: keyword loop does not use both loop variables: {ast.unparse(b)}")
                kw_attr = st.iter.func.value.attr
                # (first loop variable, second loop variable) = (dict key, dict value)
                fk, dk = a, b2
                key_is_first = key == a
                continue
        if isinstance(st, ast.Return):
            final = st.value
            continue
        raise U(AMF, f"__call__: unsupported statement {ast.unparse(st)[:80]}")
    if isinstance(final, ast.Name) and final.id in aliases:
        final = aliases[final.id]
    if not (isinstance(final, ast.Call) and dotted(final.func) == "self.func" and len(final.args) == 1
            and isinstance(final.args[0], ast.Starred) and is_name(final.args[0].value, args_name or "")
            and len(final.keywords) == 1 and final.keywords[0].arg is None and is_name(final.keywords[0].value, kwargs_name or "")):
        raise U(AMF, "__call__: result is not self.func(*args, **kwargs)")
    if None in (pos_attr, kw_attr, arg_var, fk, dk):
        raise U(AMF, "__call__: positional / keyword loops not found")
    pair = f"({ident(fk)}, {ident(dk)})"
    entry = f"({ident(fk)}, df {ident(dk)})" if key_is_first else f"({ident(dk)}, df {ident(fk)})"
    lean = (f"/-- `AnnotatedMetricFunction.__call__` -/\n"
            f"def annotated_call (func : List (List Rat) → List (String × List Rat) → γ)\n"
            f"    ({ident(pos_attr)} : List String) ({ident(kw_attr)} : List (String × String))\n"
            f"    (df : String → List Rat) : γ :=\n"
            f"  func ({ident(pos_attr)}.map (fun {ident(arg_var)} => df {ident(arg_var)}))\n"
            f"    ({ident(kw_attr)}.map (fun {pair} => {entry}))")
    return lean, {"positional_attr": pos_attr, "kw_attr": kw_attr, "kw_key_is_function_argument": key_is_first}


# ---------------------------------------------------------------------------------------------- _construct_annotated_metric_function
def lift_construct(cls):
    fn = next((n for n in cls.body if isinstance(n, ast.FunctionDef) and n.name == "_construct_annotated_metric_function"), None)
    if fn is None:
        raise U(MF, "_construct_annotated_metric_function not found")
    params = [x.arg for x in fn.args.args]
    if params != ["self", "func", "name", "sample_params", "all_data"]:
        raise U(MF, f"_construct_annotated_metric_function: parameters {params}")
    loops = [s for s in no_doc(fn.body) if isinstance(s, ast.For)]
    if len(loops) != 1:
        raise U(MF, "_construct_annotated_metric_function: expected exactly one loop")
    lp = loops[0]
    if not (isinstance(lp.target, ast.Tuple) and len(lp.target.elts) == 2 and all(isinstance(x, ast.Name) for x in lp.target.elts)
            and isinstance(lp.iter, ast.Call) and isinstance(lp.iter.func, ast.Attribute) and lp.iter.func.attr == "items"
            and is_name(lp.iter.func.value, "sample_params") and not lp.orelse):
        raise U(MF, "_construct_annotated_metric_function: loop is not over sample_params.items()")
    pn, pv = lp.target.elts[0].id, lp.target.elts[1].id
    mapping = None
    for st in no_doc(fn.body):
        if isinstance(st, ast.Assign) and len(st.targets) == 1 and isinstance(st.targets[0], ast.Name) \
                and ((isinstance(st.value, ast.Dict) and not st.value.keys) or
                     (isinstance(st.value, ast.Call) and dotted(st.value.func) == "dict" and not st.value.args)):
            mapping = st.targets[0].id
    if mapping is None:
        raise U(MF, "_construct_annotated_metric_function: mapping dict not found")
    lines = ["  let all_data := state.1", f"  let {ident(mapping)} := state.2", f"  let {ident(pn)} := item.1",
             f"  let {ident(pv)} := item.2"]
    strs = {pn: ident(pn)}
    guarded = False
    assigned_col = False
    uniquified = set()
    for st in lp.body:
        if isinstance(st, ast.If) and not st.orelse and len(st.body) == 1 and isinstance(st.body[0], ast.Continue) \
                and isinstance(st.test, ast.Compare) and len(st.test.ops) == 1 and isinstance(st.test.ops[0], ast.Is) \
                and is_name(st.test.left, pv) and isinstance(st.test.comparators[0], ast.Constant) \
                and st.test.comparators[0].value is None:
            lines.append(f"  if {ident(pv)}.isNone then (all_data, {ident(mapping)}) else")
            guarded = True
            continue
        if isinstance(st, ast.While) and not st.orelse and len(st.body) == 1 and isinstance(st.test, ast.Compare) \
                and len(st.test.ops) == 1 and isinstance(st.test.ops[0], ast.In) and isinstance(st.test.left, ast.Name) \
                and st.test.left.id in strs and st.test.left.id != pn and ast.unparse(st.test.comparators[0]) == "all_data.columns":
            # `while col_name in all_data.columns: col_name = col_name + "<non-empty constant>"`
            cn = st.test.left.id
            b = st.body[0]
            if not (isinstance(b, ast.Assign) and len(b.targets) == 1 and is_name(b.targets[0], cn)
                    and isinstance(b.value, ast.BinOp) and isinstance(b.value.op, ast.Add) and is_name(b.value.left, cn)
                    and isinstance(b.value.right, ast.Constant) and isinstance(b.value.right.value, str)
                    and b.value.right.value != ""):
                raise U(MF, f"unsupported uniquify loop body {ast.unparse(b)}")
            if not guarded or assigned_col:
                raise U(MF, "uniquify loop in an unexpected position")
            suf = b.value.right.value.replace("\\", "\\\\").replace('"', '\\"')
            lines.append(f'  let {ident(cn)} := uniquifyCol all_data {ident(cn)} "{suf}"')
            uniquified.add(cn)
            continue
        if isinstance(st, ast.Assign) and len(st.targets) == 1:
            tg, v = st.targets[0], st.value
            if isinstance(tg, ast.Name) and isinstance(v, ast.JoinedStr):
                parts = []
                for piece in v.values:
                    if isinstance(piece, ast.Constant) and isinstance(piece.value, str):
                        parts.append('"' + piece.value.replace("\\", "\\\\").replace('"', '\\"') + '"')
                    elif isinstance(piece, ast.FormattedValue) and piece.conversion == -1 and piece.format_spec is None \
                            and isinstance(piece.value, ast.Name):
                        if piece.value.id == "name":
                            parts.append("(pyFormat name)")
                        elif piece.value.id in strs:
                            parts.append(strs[piece.value.id])
                        else:
                            raise U(MF, f"column name uses {piece.value.id}")
                    else:
                        raise U(MF, f"unsupported f-string piece in {ast.unparse(v)}")
                strs[tg.id] = ident(tg.id)
                lines.append(f"  let {ident(tg.id)} := " + " ++ ".join(parts))
                continue
            if isinstance(tg, ast.Subscript) and is_name(tg.value, "all_data") and isinstance(tg.slice, ast.Name) and tg.slice.id in strs:
                src = unwrap_array(v)
                if not is_name(src, pv):
                    raise U(MF, f"column value is not the parameter value: {ast.unparse(st)}")
                if not (isinstance(v, ast.Call) and dotted(v.func) in ("np.asarray", "np.array")):
                    raise U(MF, "the sample parameter is stored without np.asarray(...): a pandas Series would be joined to the "
                            f"rows by index label, not by position: {ast.unparse(st)}")
                if not guarded:
                    raise U(MF, "column assignment before the None guard")
                if tg.slice.id not in uniquified:
                    raise U(MF, f"column {tg.slice.id} is assigned without the `while {tg.slice.id} in all_data.columns` uniquify loop "
                            "(two sample parameters could share a column)")
                lines.append(f"  let all_data := setCol all_data {strs[tg.slice.id]} ({ident(pv)}.getD [])")
                assigned_col = True
                continue
            if isinstance(tg, ast.Subscript) and is_name(tg.value, mapping) and isinstance(tg.slice, ast.Name) and tg.slice.id in strs \
                    and isinstance(v, ast.Name) and v.id in strs:
                lines.append(f"  let {ident(mapping)} := dictSet {ident(mapping)} {strs[tg.slice.id]} {strs[v.id]}")
                continue
        raise U(MF, f"_construct_annotated_metric_function: unsupported loop statement {ast.unparse(st)[:80]}")
    lines.append(f"  (all_data, {ident(mapping)})")
    # the constructor call
    ret = next((s.value for s in no_doc(fn.body) if isinstance(s, ast.Return)), None)
    if not (isinstance(ret, ast.Call) and dotted(ret.func) == "AnnotatedMetricFunction" and not ret.args):
        raise U(MF, "_construct_annotated_metric_function: does not return AnnotatedMetricFunction(...)")
    kws = {k.arg: k.value for k in ret.keywords}
    if set(kws) != {"func", "name", "positional_argument_names", "kw_argument_mapping"} or not is_name(kws["func"], "func") \
            or not is_name(kws["name"], "name") or not is_name(kws["kw_argument_mapping"], mapping):
        raise U(MF, f"unexpected AnnotatedMetricFunction call {ast.unparse(ret)}")
    pa = kws["positional_argument_names"]
    if not (isinstance(pa, ast.List) and all(isinstance(x, ast.Constant) and isinstance(x.value, str) for x in pa.elts)):
        raise U(MF, "positional_argument_names is not a list of string constants")
    pos = [x.value for x in pa.elts]
    lean = ("/-- `MetricFrame._construct_annotated_metric_function`: one iteration of "
            f"`for {pn}, {pv} in sample_params.items()` -/\n"
            "def construct_step (name : Option String) (state : AllData × List (String × String))\n"
            "    (item : String × Option (List Rat)) : AllData × List (String × String) :=\n" + "\n".join(lines) + "\n\n"
            "/-- `positional_argument_names=` passed to `AnnotatedMetricFunction` -/\n"
            "def positional_argument_names : List String := [" + ", ".join('"' + p + '"' for p in pos) + "]")
    return lean, {"positional": pos}


def lift_get_annotated(cls):
    fn = next((n for n in cls.body if isinstance(n, ast.FunctionDef) and n.name == "_get_annotated_metric_functions"), None)
    if fn is None:
        raise U(MF, "_get_annotated_metric_functions not found")
    params = [x.arg for x in fn.args.args]
    if params[:3] != ["self", "metric", "sample_params"]:
        raise U(MF, f"_get_annotated_metric_functions: parameters {params}")
    calls = [n for n in ast.walk(fn) if isinstance(n, ast.Call) and dotted(n.func) == "self._construct_annotated_metric_function"]
    if len(calls) != 2:
        raise U(MF, "_get_annotated_metric_functions: expected two constructions (bare callable, dict entry)")
    bare = dict_ = None
    for c in calls:
        kws = {k.arg: k.value for k in c.keywords}
        if c.args or set(kws) != {"func", "name", "sample_params", "all_data"}:
            raise U(MF, f"unexpected construction call {ast.unparse(c)}")
        if is_name(kws["func"], "metric"):
            bare = kws
        else:
            dict_ = kws
    if bare is None or dict_ is None:
        raise U(MF, "_get_annotated_metric_functions: bare / dict constructions not identified")
    if not (isinstance(bare["name"], ast.Constant) and bare["name"].value is None and is_name(bare["sample_params"], "sample_params")):
        raise U(MF, "bare callable is not constructed with name=None and the whole sample_params")
    loops = [n for n in ast.walk(fn) if isinstance(n, ast.For)]
    ok = False
    for lp in loops:
        if isinstance(lp.target, ast.Tuple) and len(lp.target.elts) == 2 and isinstance(lp.iter, ast.Call) \
                and isinstance(lp.iter.func, ast.Attribute) and lp.iter.func.attr == "items" and is_name(lp.iter.func.value, "metric"):
            k, f = lp.target.elts[0].id, lp.target.elts[1].id
            own = None
            for st in lp.body:
                if isinstance(st, ast.Assign) and len(st.targets) == 1 and isinstance(st.targets[0], ast.Name) \
                        and isinstance(st.value, ast.Call) and dotted(st.value.func) == "sample_params.get" \
                        and len(st.value.args) == 2 and is_name(st.value.args[0], k) \
                        and isinstance(st.value.args[1], ast.Dict) and not st.value.args[1].keys:
                    own = st.targets[0].id
            if own and is_name(dict_["func"], f) and is_name(dict_["name"], k) and is_name(dict_["sample_params"], own):
                ok = True
    if not ok:
        raise U(MF, "dict entries are not constructed with (func=value, name=key, sample_params=sample_params.get(key, {}))")
    return ("/-- `_get_annotated_metric_functions`: the `name` a bare callable is constructed with -/\n"
            "def bare_callable_name : Option String := none")


def lift_extract_result(cls):
    """`MetricFrame._extract_result` (which part of the underlying pandas result the accessors return) and the
    `no_control_levels=` flags `_populate_results` passes for `overall` and `by_group`"""
    fn = next((n for n in cls.body if isinstance(n, ast.FunctionDef) and n.name == "_extract_result"), None)
    if fn is None:
        raise U(MF, "_extract_result not found")
    params = [x.arg for x in fn.args.args]
    if params != ["self", "underlying_result", "no_control_levels"]:
        raise U(MF, f"_extract_result: parameters {params}")
    res, flag = params[1], params[2]

    def cond(e):
        if isinstance(e, ast.BoolOp):
            return "(" + (" || " if isinstance(e.op, ast.Or) else " && ").join(cond(v) for v in e.values) + ")"
        if isinstance(e, ast.UnaryOp) and isinstance(e.op, ast.Not):
            return f"(!{cond(e.operand)})"
        if is_name(e, flag):
            return ident(flag)
        src = ast.unparse(e)
        if src == "self._user_supplied_callable":
            return "user_supplied_callable"
        if src == "self.control_levels":      # truthiness of the list of names: None or [] is false
            return "control_levels"
        raise U(MF, f"_extract_result: unsupported condition {src}")

    def value(e):
        if is_name(e, res):
            return "Extract.whole"
        if isinstance(e, ast.Subscript) and isinstance(e.value, ast.Attribute) and e.value.attr == "iloc" and is_name(e.value.value, res):
            sl = e.slice
            if isinstance(sl, ast.Constant) and sl.value == 0:
                return "Extract.entry0"
            if isinstance(sl, ast.Tuple) and len(sl.elts) == 2 and isinstance(sl.elts[0], ast.Slice) \
                    and sl.elts[0].lower is None and sl.elts[0].upper is None and sl.elts[0].step is None \
                    and isinstance(sl.elts[1], ast.Constant) and sl.elts[1].value == 0:
                return "Extract.column0"
        raise U(MF, f"_extract_result: unsupported result {ast.unparse(e)}")

    def block(body, ind):
        body = no_doc(body)
        if len(body) == 1 and isinstance(body[0], ast.Return):
            return [ind + value(body[0].value)]
        if len(body) == 1 and isinstance(body[0], ast.If) and body[0].orelse:
            st = body[0]
            return [f"{ind}if {cond(st.test)} then"] + block(st.body, ind + "  ") + [f"{ind}else"] + block(st.orelse, ind + "  ")
        if len(body) == 2 and isinstance(body[0], ast.If) and not body[0].orelse and isinstance(body[1], ast.Return):
            st = body[0]
            return [f"{ind}if {cond(st.test)} then"] + block(st.body, ind + "  ") + [f"{ind}else"] + block([body[1]], ind + "  ")
        raise U(MF, "_extract_result: unsupported body shape")
    lines = block(fn.body, "  ")
    # the flags in _populate_results
    pop = next((n for n in cls.body if isinstance(n, ast.FunctionDef) and n.name == "_populate_results"), None)
    if pop is None:
        raise U(MF, "_populate_results not found")
    flags = {}
    for st in pop.body:
        if isinstance(st, ast.Assign) and len(st.targets) == 1 and isinstance(st.targets[0], ast.Subscript) \
                and ast.unparse(st.targets[0].value) == "self._result_cache" and isinstance(st.targets[0].slice, ast.Constant) \
                and st.targets[0].slice.value in ("overall", "by_group"):
            key = st.targets[0].slice.value
            c = st.value
            if not (isinstance(c, ast.Call) and ast.unparse(c.func) == "self._extract_result" and len(c.args) == 1
                    and ast.unparse(c.args[0]) == f"raw_result.{key}" and len(c.keywords) == 1
                    and c.keywords[0].arg == flag and isinstance(c.keywords[0].value, ast.Constant)
                    and isinstance(c.keywords[0].value.value, bool)):
                raise U(MF, f"_populate_results: unexpected {key} assignment {ast.unparse(st)}")
            flags[key] = c.keywords[0].value.value
    if set(flags) != {"overall", "by_group"}:
        raise U(MF, "_populate_results: overall / by_group cache entries not found")
    lean = ("/-- `MetricFrame._extract_result` -/\n"
            f"def extract_result (user_supplied_callable control_levels {ident(flag)} : Bool) : Extract :=\n" + "\n".join(lines) + "\n\n"
            "/-- `_populate_results`: the flag passed for `overall` / `by_group` -/\n"
            f"def overall_no_control_levels : Bool := {'true' if flags['overall'] else 'false'}\n"
            f"def by_group_no_control_levels : Bool := {'true' if flags['by_group'] else 'false'}")
    return lean, flags


# ---------------------------------------------------------------------------------------------- MetricFrame.__init__
def lift_init(cls, positional):
    """`MetricFrame.__init__`: the `DisaggregatedResult.create(...)` call (the frame, the annotated functions and the two name
    lists are passed through unchanged), the `pd.DataFrame.from_dict({"y_true": list(y_t), "y_pred": list(y_p)})` base frame,
    where `self._sf_names` / `self._cf_names` come from and that the feature columns are stored under exactly those names."""
    fn = next((n for n in cls.body if isinstance(n, ast.FunctionDef) and n.name == "__init__"), None)
    if fn is None:
        raise U(MF, "__init__ not found")
    params = [x.arg for x in fn.args.args] + [x.arg for x in fn.args.kwonlyargs]
    for need in ("y_true", "y_pred", "sensitive_features", "control_features", "metrics", "sample_params"):
        if need not in params:
            raise U(MF, f"__init__: parameter {need} not found")

    def err(msg, node=None):
        ln = f" (line {node.lineno})" if node is not None and hasattr(node, "lineno") else ""
        return U(MF, f"__init__{ln}: {msg}")

    # every binding of a local / attribute anywhere in the body
    binds = {}
    for n in ast.walk(fn):
        tgts = []
        if isinstance(n, ast.Assign):
            tgts = [(t, n.value) for t in n.targets]
        elif isinstance(n, (ast.AugAssign, ast.AnnAssign)):
            tgts = [(n.target, n.value)]
        elif isinstance(n, (ast.For, ast.comprehension)):
            tgts = [(n.target, None)]
        elif isinstance(n, ast.withitem) and n.optional_vars is not None:
            tgts = [(n.optional_vars, None)]
        elif isinstance(n, ast.NamedExpr):
            tgts = [(n.target, n.value)]
        for t, v in tgts:
            for el in (t.elts if isinstance(t, (ast.Tuple, ast.List)) else [t]):
                key = dotted(el)
                if key is not None:
                    binds.setdefault(key, []).append(v if el is t else None)

    def single(name, what):
        vs = binds.get(name, [])
        if name in params or len(vs) != 1 or vs[0] is None:
            raise err(f"{what}: `{name}` is not a local bound exactly once by a plain assignment")
        return vs[0]

    def squeezed(e, param, what):
        """`e` is a local bound once to `_convert_to_ndarray_and_squeeze(<param>)`"""
        if not isinstance(e, ast.Name):
            raise err(f"{what}: {ast.unparse(e)} is not a local name", e)
        v = single(e.id, what)
        if not (isinstance(v, ast.Call) and dotted(v.func) == "_convert_to_ndarray_and_squeeze" and len(v.args) == 1
                and not v.keywords and is_name(v.args[0], param)):
            raise err(f"{what}: `{e.id}` is not _convert_to_ndarray_and_squeeze({param}): {ast.unparse(v)}", v)
        return e.id

    calls = [n for n in ast.walk(fn) if isinstance(n, ast.Call) and (dotted(n.func) or "").endswith("DisaggregatedResult.create")]
    if len(calls) != 1:
        raise err(f"expected exactly one DisaggregatedResult.create(...) call, found {len(calls)}")
    c = calls[0]
    kws = {k.arg: k.value for k in c.keywords}
    if c.args or None in kws or len(kws) != len(c.keywords) \
            or set(kws) != {"data", "annotated_functions", "sensitive_feature_names", "control_feature_names"}:
        raise err(f"unexpected arguments of DisaggregatedResult.create: {ast.unparse(c)}", c)
    # the result goes to _populate_results unchanged
    holder = next((n for n in ast.walk(fn) if isinstance(n, ast.Assign) and n.value is c), None)
    pops = [n for n in ast.walk(fn) if isinstance(n, ast.Call) and dotted(n.func) == "self._populate_results"]
    if len(pops) != 1 or len(pops[0].args) != 1 or pops[0].keywords:
        raise err("expected exactly one self._populate_results(<result>) call")
    if holder is not None:
        if not (len(holder.targets) == 1 and isinstance(holder.targets[0], ast.Name) and len(binds[holder.targets[0].id]) == 1
                and is_name(pops[0].args[0], holder.targets[0].id)):
            raise err("the result of DisaggregatedResult.create is not what _populate_results receives", holder)
    elif pops[0].args[0] is not c:
        raise err("the result of DisaggregatedResult.create is not what _populate_results receives", c)
    # data= : the frame built by from_dict
    if not isinstance(kws["data"], ast.Name):
        raise err(f"data= is not a local name: {ast.unparse(kws['data'])}", c)
    frame = kws["data"].id
    fd = single(frame, "data=")
    if not (isinstance(fd, ast.Call) and dotted(fd.func) in ("pd.DataFrame.from_dict", "pd.DataFrame", "DataFrame.from_dict")
            and len(fd.args) == 1 and not fd.keywords and isinstance(fd.args[0], ast.Dict)):
        raise err(f"`{frame}` is not pd.DataFrame.from_dict({{...}}): {ast.unparse(fd)}", fd)
    cols = []
    y_t = None
    for k, v in zip(fd.args[0].keys, fd.args[0].values):
        if not (isinstance(k, ast.Constant) and isinstance(k.value, str)):
            raise err("a key of the from_dict dictionary is not a string constant", fd)
        if not (isinstance(v, ast.Call) and dotted(v.func) == "list" and len(v.args) == 1 and not v.keywords):
            raise err(f"column {k.value!r} is not list(<converted array>): {ast.unparse(v)}", fd)
        src = None
        for prm in ("y_true", "y_pred"):
            try:
                loc = squeezed(v.args[0], prm, f"column {k.value!r}")
                src = prm
                if prm == "y_true":
                    y_t = loc
                break
            except translate.Untranslatable:
                continue
        if src is None:
            raise err(f"column {k.value!r} is neither the converted y_true nor the converted y_pred: {ast.unparse(v)}", fd)
        cols.append((k.value, src))
    if len(cols) != 2 or len({k for k, _ in cols}) != 2 or {p for _, p in cols} != {"y_true", "y_pred"}:
        raise err(f"the base frame does not have exactly one column for y_true and one for y_pred: {cols}", fd)
    # annotated_functions= : self._get_annotated_metric_functions(metrics, sample_params, <frame>)
    if not isinstance(kws["annotated_functions"], ast.Name):
        raise err(f"annotated_functions= is not a local name", c)
    af = single(kws["annotated_functions"].id, "annotated_functions=")
    if not (isinstance(af, ast.Call) and dotted(af.func) == "self._get_annotated_metric_functions"):
        raise err(f"annotated_functions= is not the result of self._get_annotated_metric_functions: {ast.unparse(af)}", af)
    given = dict(zip(["metric", "sample_params", "all_data"], af.args))
    for k in af.keywords:
        if k.arg is None or k.arg in given:
            raise err(f"unexpected arguments in {ast.unparse(af)}", af)
        given[k.arg] = k.value
    if set(given) != {"metric", "sample_params", "all_data"} or not is_name(given["metric"], "metrics") \
            or not is_name(given["sample_params"], "sample_params") or not is_name(given["all_data"], frame):
        raise err(f"_get_annotated_metric_functions is not called with (metrics, sample_params, {frame}): {ast.unparse(af)}", af)

    # the name lists
    def names_of(attr, prefix, param, optional):
        """`self.<attr> = [x.name_ for x in L]`, `L = self._process_features(prefix, param, y_t)`; optional: also `= None`
        before, and the list only under `if <param> is not None`; the columns `frame[f.name_] = list(f.raw_feature_)`"""
        vs = binds.get(attr, [])
        lists = [v for v in vs if not (isinstance(v, ast.Constant) and v.value is None)]
        nones = [v for v in vs if isinstance(v, ast.Constant) and v.value is None]
        if len(lists) != 1 or (nones and not optional) or (optional and len(nones) != 1) or lists[0] is None:
            raise err(f"{attr}: unexpected assignments")
        lc = lists[0]
        if not (isinstance(lc, ast.ListComp) and len(lc.generators) == 1 and not lc.generators[0].ifs
                and isinstance(lc.generators[0].target, ast.Name) and isinstance(lc.generators[0].iter, ast.Name)
                and isinstance(lc.elt, ast.Attribute) and lc.elt.attr == "name_" and is_name(lc.elt.value, lc.generators[0].target.id)):
            raise err(f"{attr} is not [x.name_ for x in <feature list>]: {ast.unparse(lc)}", lc)
        flist = lc.generators[0].iter.id
        fvs = [v for v in binds.get(flist, []) if not (isinstance(v, ast.Constant) and v.value is None)]
        if len(fvs) != 1 or fvs[0] is None:
            raise err(f"{attr}: the feature list `{flist}` is not bound once")
        pf = fvs[0]
        if not (isinstance(pf, ast.Call) and dotted(pf.func) == "self._process_features" and len(pf.args) == 3 and not pf.keywords
                and isinstance(pf.args[0], ast.Constant) and pf.args[0].value == prefix and is_name(pf.args[1], param)
                and is_name(pf.args[2], y_t)):
            raise err(f"`{flist}` is not self._process_features({prefix!r}, {param}, {y_t}): {ast.unparse(pf)}", pf)
        if optional:
            # both the list and the names are assigned in the same `if <param> is not None:` body
            guards = [n for n in ast.walk(fn) if isinstance(n, ast.If) and any(isinstance(s, ast.Assign) and s.value is lc for s in n.body)]
            if len(guards) != 1 or guards[0].orelse or ast.unparse(guards[0].test) != f"{param} is not None" \
                    or not any(isinstance(s, ast.Assign) and s.value is pf for s in guards[0].body):
                raise err(f"{attr} / {flist} are not assigned together under `if {param} is not None:`")
        # the column store
        stores = [n for n in ast.walk(fn) if isinstance(n, ast.For) and is_name(n.iter, flist)]
        if len(stores) != 1:
            raise err(f"expected exactly one loop over `{flist}` storing the feature columns")
        lp = stores[0]
        ok = (isinstance(lp.target, ast.Name) and len(lp.body) == 1 and not lp.orelse and isinstance(lp.body[0], ast.Assign)
              and len(lp.body[0].targets) == 1)
        if ok:
            tg, v = lp.body[0].targets[0], lp.body[0].value
            ok = (isinstance(tg, ast.Subscript) and is_name(tg.value, frame) and isinstance(tg.slice, ast.Attribute)
                  and tg.slice.attr == "name_" and is_name(tg.slice.value, lp.target.id)
                  and isinstance(v, ast.Call) and dotted(v.func) == "list" and len(v.args) == 1 and not v.keywords
                  and isinstance(v.args[0], ast.Attribute) and v.args[0].attr == "raw_feature_" and is_name(v.args[0].value, lp.target.id))
        if not ok:
            raise err(f"the loop over `{flist}` is not `{frame}[f.name_] = list(f.raw_feature_)`: {ast.unparse(lp)[:100]}", lp)

    if y_t is None:
        raise err("the converted y_true is not found")
    for key, attr in (("sensitive_feature_names", "self._sf_names"), ("control_feature_names", "self._cf_names")):
        if dotted(kws[key]) != attr:
            raise err(f"{key}= is not {attr}: {ast.unparse(kws[key])}", c)
    names_of("self._sf_names", "sensitive_feature_", "sensitive_features", False)
    names_of("self._cf_names", "control_feature_", "control_features", True)
    missing = [p for p in positional if p not in [k for k, _ in cols]]
    pairs = ", ".join(f'("{k}", {p})' for k, p in cols)
    lean = ("/-- `MetricFrame.__init__`: `all_data = pd.DataFrame.from_dict({...})` of the converted `y_true` / `y_pred` -/\n"
            f"def init_base_data (y_true y_pred : List Rat) : AllData := [{pairs}]\n\n"
            "/-- `MetricFrame.__init__`: `DisaggregatedResult.create(data=all_data, annotated_functions=annotated_funcs,\n"
            "    sensitive_feature_names=self._sf_names, control_feature_names=self._cf_names)`, where `self._sf_names` are the names\n"
            "    of the `nsf` sensitive columns and `self._cf_names` those of the `ncf` control columns (`None` without control\n"
            "    features), each column stored under exactly that name: `by_group` -/\n"
            "def init_by_group (nanv : β) (all_data : List (Row α)) (annotated_funcs : List α → β) (nsf ncf : Nat) : List (Key × β) :=\n"
            "  create_by_group nanv all_data annotated_funcs (sfNames nsf) (cfNames ncf)\n\n"
            "/-- the same call: `overall` -/\n"
            "def init_overall (nanv : β) (all_data : List (Row α)) (annotated_funcs : List α → β) (nsf ncf : Nat) : List (Key × β) :=\n"
            "  create_overall nanv all_data annotated_funcs (sfNames nsf) (cfNames ncf)")
    return lean, {"base_columns": cols, "positional_missing_from_base": missing}


@translate.lifter
def lift(repo):
    def parse(rel):
        return normalize.parse(open(os.path.join(repo, rel)).read())
    dr = parse(DR)
    cls = next((n for n in dr.body if isinstance(n, ast.ClassDef) and n.name == "DisaggregatedResult"), None)
    if cls is None:
        raise U(DR, "class DisaggregatedResult not found")
    meth = {n.name: n for n in cls.body if isinstance(n, ast.FunctionDef)}
    for need in ("_apply_functions", "create"):
        if need not in meth:
            raise U(DR, f"{need} not found")
    af = ApplyFunctions(meth["_apply_functions"])
    af_lean = af.lean()
    create_lean, create_meta = lift_create(meth["create"], af)
    atd = next((n for n in dr.body if isinstance(n, ast.FunctionDef) and n.name == "apply_to_dataframe"), None)
    if atd is None:
        raise U(DR, "apply_to_dataframe not found")
    atd_lean = lift_apply_to_dataframe(atd)
    amf = parse(AMF)
    acls = next((n for n in amf.body if isinstance(n, ast.ClassDef) and n.name == "AnnotatedMetricFunction"), None)
    if acls is None:
        raise U(AMF, "class AnnotatedMetricFunction not found")
    call_lean, call_meta = lift_call(acls)
    mf = parse(MF)
    mcls = next((n for n in mf.body if isinstance(n, ast.ClassDef) and n.name == "MetricFrame"), None)
    if mcls is None:
        raise U(MF, "class MetricFrame not found")
    cons_lean, cons_meta = lift_construct(mcls)
    bare_lean = lift_get_annotated(mcls)
    extract_lean, extract_meta = lift_extract_result(mcls)
    init_lean, init_meta = lift_init(mcls, cons_meta["positional"])
    lean = f"""-- GENERATED by harness/lifters/frame.py from {DR}, {AMF}, {MF}; do not edit.
-- Translation of the function bodies over the pandas primitives of Model/FramePrims.lean.
import FairModel.Model.FramePrims

set_option linter.unusedVariables false

namespace FrameSrc
open Frame FramePrims

variable {{α β γ : Type}}

""" + "\n\n".join([af_lean] + create_lean + [atd_lean, call_lean, cons_lean, bare_lean, extract_lean, init_lean]) + "\n\nend FrameSrc\n"
    meta = {"sources": [DR, AMF, MF], "grouping": create_meta, "call": call_meta, "construct": cons_meta, "extract_flags": extract_meta, "init": init_meta,
            "sha256": hashlib.sha256(lean.encode()).hexdigest()}
    return "FrameSrc.lean", lean, meta
