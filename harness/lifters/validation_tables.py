"""Lifter for C20: the argument-checking decision logic that is written as tables / closed conditions in the source.

Generates lean/FairModel/Generated/ValidationTables.lean from
  fairlearn/postprocessing/_threshold_optimizer.py   SIMPLE_CONSTRAINTS, OBJECTIVES_FOR_*, the statements of
                                                     ThresholdOptimizer.fit before `_validate_and_reformat_input`
  fairlearn/postprocessing/_tradeoff_curve_utilities.py  METRIC_DICT keys, the degenerate-label guard
  fairlearn/reductions/_moments/utility_parity.py    UtilityParity.__init__ (bounds)
  fairlearn/reductions/_moments/error_rate.py        ErrorRate.__init__ (costs)
  fairlearn/reductions/_grid_search/grid_search.py   GridSearch.__init__ (constraint_weight, selection rule)

A function body is read as a tiny language: `if/elif/else`, `raise`, assignments (ignored), nothing else.
It becomes a Lean `Bool` expression: `true` = the statements complete without raising.  Conditions may use
and/or/not, chained numeric comparisons, `x is (not) None`, membership in the lifted tables and a fixed list of
named atoms per function.  Anything else raises `Untranslatable`."""
import ast
import os
from fractions import Fraction

from .. import translate
from . import normalize
from ..translate import Untranslatable


def lstr(s):
    return '"' + s.replace("\\", "\\\\").replace('"', '\\"') + '"'


class Ctx:
    def __init__(self, name, optvars=None, numvars=None, strvars=None, tables=None, atoms=None):
        self.name = name
        self.optvars = optvars or {}    # python text -> Lean Bool variable meaning "is not None"
        self.numvars = numvars or {}    # python text -> Lean Rat/Nat variable
        self.strvars = strvars or {}    # python text -> Lean String variable
        self.tables = tables or {}      # python name -> Lean List String
        self.atoms = atoms or {}        # python text -> Lean Bool expression

    def bad(self, node, why):
        raise Untranslatable(f"{self.name}: {why}: `{ast.unparse(node)}`")

    # -- numeric expressions
    def num(self, e):
        t = ast.unparse(e)
        if t in self.numvars:
            return self.numvars[t]
        if isinstance(e, ast.Constant) and isinstance(e.value, (int, float)) and not isinstance(e.value, bool):
            q = Fraction(str(e.value))
            return f"({q.numerator} : Rat)" if q.denominator == 1 else f"(({q.numerator} : Rat) / {q.denominator})"
        if isinstance(e, ast.BinOp) and isinstance(e.op, (ast.Add, ast.Sub, ast.Mult)):
            op = {ast.Add: "+", ast.Sub: "-", ast.Mult: "*"}[type(e.op)]
            return f"({self.num(e.left)} {op} {self.num(e.right)})"
        if isinstance(e, ast.UnaryOp) and isinstance(e.op, ast.USub):
            return f"(-{self.num(e.operand)})"
        self.bad(e, "not a numeric expression I understand")

    # -- boolean expressions
    def cond(self, e):
        t = ast.unparse(e)
        if t in self.atoms:
            return self.atoms[t]
        if isinstance(e, ast.BoolOp):
            op = " && " if isinstance(e.op, ast.And) else " || "
            return "(" + op.join(self.cond(v) for v in e.values) + ")"
        if isinstance(e, ast.UnaryOp) and isinstance(e.op, ast.Not):
            return f"(!{self.cond(e.operand)})"
        if isinstance(e, ast.Compare):
            parts, left = [], e.left
            for op, right in zip(e.ops, e.comparators):
                parts.append(self.link(e, left, op, right))
                left = right
            return parts[0] if len(parts) == 1 else "(" + " && ".join(parts) + ")"
        self.bad(e, "not a condition I understand")

    def link(self, whole, left, op, right):
        lt, rt = ast.unparse(left), ast.unparse(right)
        if isinstance(op, (ast.Is, ast.IsNot)):
            if not (isinstance(right, ast.Constant) and right.value is None) or lt not in self.optvars:
                self.bad(whole, "`is` only against None on a known optional")
            return self.optvars[lt] if isinstance(op, ast.IsNot) else f"(!{self.optvars[lt]})"
        if isinstance(op, (ast.In, ast.NotIn)):
            if lt not in self.strvars or rt not in self.tables:
                self.bad(whole, "membership only of a known string in a lifted table")
            r = f"({self.tables[rt]}.contains {self.strvars[lt]})"
            return r if isinstance(op, ast.In) else f"(!{r})"
        if isinstance(op, (ast.Eq, ast.NotEq)) and lt in self.strvars and isinstance(right, ast.Constant) and isinstance(right.value, str):
            r = f"({self.strvars[lt]} == {lstr(right.value)})"
            return r if isinstance(op, ast.Eq) else f"(!{r})"
        sym = {ast.Lt: "<", ast.LtE: "≤", ast.Gt: ">", ast.GtE: "≥", ast.Eq: "=", ast.NotEq: "≠"}.get(type(op))
        if sym is None:
            self.bad(whole, "comparison operator")
        return f"decide ({self.num(left)} {sym} {self.num(right)})"

    # -- statements: Bool expression "completes without raising"
    allow_return = False     # `return` = the statements complete without raising

    def stmts(self, body, stop=None):
        if not body:
            return "true"
        s, rest = body[0], body[1:]
        if stop is not None and stop(s):
            return "true"
        if isinstance(s, ast.Raise):
            return "false"
        if self.allow_return and isinstance(s, ast.Return):
            return "true"
        if isinstance(s, ast.Expr) and isinstance(s.value, ast.Constant) and isinstance(s.value.value, str):
            return self.stmts(rest, stop)           # docstring
        if isinstance(s, ast.Expr) and isinstance(s.value, ast.Call) and ast.unparse(s.value).startswith(("super(", "logger.")):
            return self.stmts(rest, stop)
        if isinstance(s, (ast.Assign, ast.AnnAssign)):
            return self.stmts(rest, stop)
        if isinstance(s, ast.If):
            a, b = self.stmts(s.body, stop), self.stmts(s.orelse, stop)
            r = self.stmts(rest, stop)

            def ends_in_return(blk):
                return self.allow_return and bool(blk) and isinstance(blk[-1], ast.Return)
            if not ends_in_return(s.body):
                a = r if a == "true" else ("false" if a == "false" else f"({a} && {r})")
            if not ends_in_return(s.orelse):
                b = r if b == "true" else ("false" if b == "false" else f"({b} && {r})")
            return f"(if {self.cond(s.test)} then {a} else {b})"
        self.bad(s, "statement kind")


def _parse(repo, rel):
    with open(os.path.join(repo, rel)) as f:
        return normalize.parse(f.read())


def _assign(tree, name):
    for n in tree.body:
        if isinstance(n, ast.Assign) and len(n.targets) == 1 and isinstance(n.targets[0], ast.Name) and n.targets[0].id == name:
            return n.value
    raise Untranslatable(f"module-level assignment {name} not found")


def _method(tree, cls, name):
    for n in tree.body:
        if isinstance(n, ast.ClassDef) and n.name == cls:
            for m in n.body:
                if isinstance(m, ast.FunctionDef) and m.name == name:
                    return m
    raise Untranslatable(f"{cls}.{name} not found")


def _func(tree, name):
    for n in tree.body:
        if isinstance(n, ast.FunctionDef) and n.name == name:
            return n
    raise Untranslatable(f"function {name} not found")


def _strset(v, what):
    if isinstance(v, (ast.Set, ast.List, ast.Tuple)) and all(isinstance(e, ast.Constant) and isinstance(e.value, str) for e in v.elts):
        return sorted(e.value for e in v.elts)
    raise Untranslatable(f"{what} is not a literal collection of strings")


def _strdict(v, what):
    if isinstance(v, ast.Dict) and all(isinstance(k, ast.Constant) and isinstance(k.value, str) for k in v.keys) \
            and all(isinstance(x, ast.Constant) and isinstance(x.value, str) for x in v.values):
        return [(k.value, x.value) for k, x in zip(v.keys, v.values)]
    raise Untranslatable(f"{what} is not a literal dict of strings")


PREDICT_LIKE = ("predict", "predict_proba", "predict_log_proba", "decision_function", "_pmf_predict", "transform", "_raw_predict")
PREDICT_CLASSES = [
    ("ThresholdOptimizer", "fairlearn/postprocessing/_threshold_optimizer.py"),
    ("InterpolatedThresholder", "fairlearn/postprocessing/_interpolated_thresholder.py"),
    ("ExponentiatedGradient", "fairlearn/reductions/_exponentiated_gradient/exponentiated_gradient.py"),
    ("GridSearch", "fairlearn/reductions/_grid_search/grid_search.py"),
    ("CorrelationRemover", "fairlearn/preprocessing/_correlation_remover.py"),
    ("_AdversarialFairness", "fairlearn/adversarial/_adversarial_mitigation.py"),
]


def _predict_guards(repo):
    """(class, method, guarded): the first statement of every prediction entry point is `check_is_fitted(self, ..)`, or a
    statement whose first call is a same-class method that is guarded in this sense"""
    out = []
    for cls, rel in PREDICT_CLASSES:
        tree = _parse(repo, rel)
        methods = {}
        for n in tree.body:
            if isinstance(n, ast.ClassDef) and n.name == cls:
                methods = {m.name: m for m in n.body if isinstance(m, ast.FunctionDef)}
        if not methods:
            raise Untranslatable(f"{rel}: class {cls} not found")

        def first_stmt(fn):
            for st in fn.body:
                if isinstance(st, ast.Expr) and isinstance(st.value, ast.Constant) and isinstance(st.value.value, str):
                    continue
                return st
            return None

        def guarded(name, seen=()):
            if name in seen or name not in methods:
                return False
            st = first_stmt(methods[name])
            if st is None or isinstance(st, (ast.If, ast.For, ast.While, ast.Try, ast.With)):
                return False
            calls = [c for c in ast.walk(st) if isinstance(c, ast.Call)]
            if not calls:
                return False
            # the call evaluated first = the innermost-leftmost one; accept only the simple shapes
            if isinstance(st, ast.Expr) and isinstance(st.value, ast.Call) and ast.unparse(st.value.func) == "check_is_fitted" \
                    and st.value.args and ast.unparse(st.value.args[0]) == "self":
                return True
            val = st.value if isinstance(st, (ast.Assign, ast.Return, ast.Expr)) else None
            if isinstance(val, ast.Call) and isinstance(val.func, ast.Attribute) and ast.unparse(val.func.value) == "self" \
                    and not any(isinstance(c, ast.Call) for a in list(val.args) + [k.value for k in val.keywords] for c in ast.walk(a)):
                return guarded(val.func.attr, seen + (name,))
            return False
        found = [m for m in PREDICT_LIKE if m in methods]
        if not found:
            raise Untranslatable(f"{rel}: {cls} has no prediction entry point")
        for m in found:
            out.append((cls, m, guarded(m)))
    return out


def _frame_function_checks(repo):
    """MetricFrame._get_annotated_metric_functions (up to the loop over the metric dict) and the first guard of
    _construct_annotated_metric_function, as Bool expressions `true = no exception`"""
    mf = _parse(repo, "fairlearn/metrics/_metric_frame.py")
    fn = _method(mf, "MetricFrame", "_get_annotated_metric_functions")
    txt = {ast.unparse(st) for st in ast.walk(fn) if isinstance(st, ast.Assign)}
    for need in ("sample_params = sample_params or {}", "sample_params_keys = set(sample_params.keys())",
                 "metric_functions_keys = set(metric.keys())"):
        if need not in txt:
            raise Untranslatable(f"_get_annotated_metric_functions: `{need}` not found")
    ctx = Ctx("MetricFrame._get_annotated_metric_functions",
              optvars={"sample_params": "sample_params_given"},
              atoms={"isinstance(sample_params, dict)": "sample_params_is_dict", "isinstance(metric, dict)": "metric_is_dict",
                     "sample_params_keys.issubset(metric_functions_keys)": "keys_subset"})
    ctx.allow_return = True
    loops = [st for st in fn.body if isinstance(st, ast.For)]
    if len(loops) != 1 or ast.unparse(loops[0].iter) != "metric.items()":
        raise Untranslatable("_get_annotated_metric_functions: expected one loop over metric.items()")
    inner_calls = [c for c in ast.walk(loops[0]) if isinstance(c, ast.Call) and ast.unparse(c.func) == "self._construct_annotated_metric_function"]
    if len(inner_calls) != 1:
        raise Untranslatable("_get_annotated_metric_functions: the loop does not construct one annotated function per metric")
    kw = {k.arg: ast.unparse(k.value) for k in inner_calls[0].keywords}
    if kw.get("sample_params") != "associated_sample_params" or \
            "associated_sample_params = sample_params.get(name, {})" not in {ast.unparse(st) for st in loops[0].body}:
        raise Untranslatable("_get_annotated_metric_functions: per-metric sample_params are not sample_params.get(name, {})")
    prefix = ctx.stmts(fn.body, lambda st: isinstance(st, ast.For))
    inner = _method(mf, "MetricFrame", "_construct_annotated_metric_function")
    ictx = Ctx("MetricFrame._construct_annotated_metric_function", atoms={"isinstance(sample_params, dict)": "params_is_dict"})
    first_if = [st for st in inner.body if not (isinstance(st, ast.Expr) and isinstance(st.value, ast.Constant))][:1]
    if not first_if or not isinstance(first_if[0], ast.If):
        raise Untranslatable("_construct_annotated_metric_function: no leading type check of sample_params")
    inner_ok = ictx.stmts(first_if)
    return prefix, inner_ok


def _to_predict_checks(repo):
    """InterpolatedThresholder._pmf_predict: check_is_fitted first, then _validate_and_reformat_input(X, y=<base
    predictions>, sensitive_features=sensitive_features, expect_y=.., enforce_binary_labels=..); ThresholdOptimizer.predict /
    _pmf_predict delegate to it after their own check_is_fitted"""
    it = _parse(repo, "fairlearn/postprocessing/_interpolated_thresholder.py")
    fn = _method(it, "InterpolatedThresholder", "_pmf_predict")
    calls = [c for c in ast.walk(fn) if isinstance(c, ast.Call) and ast.unparse(c.func) == "_validate_and_reformat_input"]
    if len(calls) != 1:
        raise Untranslatable("InterpolatedThresholder._pmf_predict: expected one _validate_and_reformat_input call")
    c = calls[0]
    kw = {k.arg: ast.unparse(k.value) for k in c.keywords}
    if [ast.unparse(a) for a in c.args] != ["X"] or kw.get("sensitive_features") != "sensitive_features" or kw.get("y") != "base_predictions":
        raise Untranslatable("InterpolatedThresholder._pmf_predict: arguments of _validate_and_reformat_input changed")
    for k in ("expect_y", "enforce_binary_labels", "expect_sensitive_features"):
        if k in kw and kw[k] not in ("True", "False"):
            raise Untranslatable(f"InterpolatedThresholder._pmf_predict: {k} is not a literal")
    uv = _parse(repo, "fairlearn/utils/_input_validation.py")
    vf = _func(uv, "_validate_and_reformat_input")
    dflt = {}
    args = vf.args
    for a, d in zip(reversed(args.args), reversed(args.defaults)):
        dflt[a.arg] = ast.unparse(d)
    for a, d in zip(args.kwonlyargs, args.kw_defaults):
        if d is not None:
            dflt[a.arg] = ast.unparse(d)
    expect_sf = kw.get("expect_sensitive_features", dflt.get("expect_sensitive_features"))
    expect_y = kw.get("expect_y", dflt.get("expect_y"))
    enforce = kw.get("enforce_binary_labels", dflt.get("enforce_binary_labels"))
    if expect_sf not in ("True", "False") or expect_y not in ("True", "False") or enforce not in ("True", "False"):
        raise Untranslatable("_validate_and_reformat_input: defaults of expect_* / enforce_binary_labels are not literals")
    to = _parse(repo, "fairlearn/postprocessing/_threshold_optimizer.py")
    deleg = True
    for m in ("predict", "_pmf_predict"):
        body = [st for st in _method(to, "ThresholdOptimizer", m).body
                if not (isinstance(st, ast.Expr) and isinstance(st.value, ast.Constant))]
        if len(body) != 2 or ast.unparse(body[0]) != "check_is_fitted(self)" or not isinstance(body[1], ast.Return) \
                or not ast.unparse(body[1].value).startswith(f"self.interpolated_thresholder_.{m}(X, sensitive_features=sensitive_features"):
            deleg = False
    return expect_sf == "True", expect_y == "True", enforce == "True", deleg


@translate.lifter
def validation_tables(repo):
    to = _parse(repo, "fairlearn/postprocessing/_threshold_optimizer.py")
    tc = _parse(repo, "fairlearn/postprocessing/_tradeoff_curve_utilities.py")
    up = _parse(repo, "fairlearn/reductions/_moments/utility_parity.py")
    er = _parse(repo, "fairlearn/reductions/_moments/error_rate.py")
    gs = _parse(repo, "fairlearn/reductions/_grid_search/grid_search.py")

    simple = _strdict(_assign(to, "SIMPLE_CONSTRAINTS"), "SIMPLE_CONSTRAINTS")
    obj_s = _strset(_assign(to, "OBJECTIVES_FOR_SIMPLE_CONSTRAINTS"), "OBJECTIVES_FOR_SIMPLE_CONSTRAINTS")
    obj_e = _strset(_assign(to, "OBJECTIVES_FOR_EQUALIZED_ODDS"), "OBJECTIVES_FOR_EQUALIZED_ODDS")
    md = _assign(tc, "METRIC_DICT")
    if not (isinstance(md, ast.Dict) and all(isinstance(k, ast.Constant) and isinstance(k.value, str) for k in md.keys)):
        raise Untranslatable("METRIC_DICT is not a dict literal with string keys")
    md_keys = [k.value for k in md.keys]

    # ThresholdOptimizer.fit: statements before the call of _validate_and_reformat_input
    fit = _method(to, "ThresholdOptimizer", "fit")
    seen = {}

    def is_validate(s):
        if isinstance(s, ast.Assign) and isinstance(s.value, ast.Call) and ast.unparse(s.value.func) == "_validate_and_reformat_input":
            seen["kw"] = {k.arg: ast.unparse(k.value) for k in s.value.keywords}
            return True
        return False
    ctx = Ctx("ThresholdOptimizer.fit",
              optvars={"self.estimator": "estimator_given", "kwargs.get(_KW_CONTROL_FEATURES)": "control_features_given"},
              strvars={"self.constraints": "constraints", "self.objective": "objective"},
              tables={"SIMPLE_CONSTRAINTS": "(simpleConstraints.map Prod.fst)", "OBJECTIVES_FOR_SIMPLE_CONSTRAINTS": "objectivesSimple",
                      "OBJECTIVES_FOR_EQUALIZED_ODDS": "objectivesEO"})
    to_prefix = ctx.stmts(fit.body, is_validate)
    if "kw" not in seen:
        raise Untranslatable("ThresholdOptimizer.fit no longer calls _validate_and_reformat_input")
    enforce = seen["kw"].get("enforce_binary_labels", "False")
    if enforce not in ("True", "False"):
        raise Untranslatable("enforce_binary_labels is not a literal")

    # degenerate-label guard
    ctp = _func(tc, "_calculate_tradeoff_points")
    guard = [s for s in ctp.body if isinstance(s, ast.If) and "n_positive" in ast.unparse(s.test)]
    if len(guard) != 1 or not (len(guard[0].body) == 1 and isinstance(guard[0].body[0], ast.Raise) and not guard[0].orelse):
        raise Untranslatable("_calculate_tradeoff_points: degenerate-label guard not of the shape `if <cond>: raise`")
    dctx = Ctx("_calculate_tradeoff_points", numvars={"n_positive": "(n_positive : Rat)", "n_negative": "(n_negative : Rat)"})
    degenerate = dctx.cond(guard[0].test)

    # UtilityParity.__init__
    pctx = Ctx("UtilityParity.__init__",
               optvars={"difference_bound": "difference_bound_given", "ratio_bound": "ratio_bound_given"},
               numvars={"ratio_bound": "ratio_bound"})
    parity = pctx.stmts(_method(up, "UtilityParity", "__init__").body)

    # ErrorRate.__init__
    keyset, keytext = None, None
    for n in ast.walk(_method(er, "ErrorRate", "__init__")):
        if isinstance(n, ast.Compare) and ast.unparse(n.left) == "costs.keys()" and len(n.ops) == 1 and isinstance(n.ops[0], ast.Eq):
            keyset, keytext = _strset(n.comparators[0], "costs.keys() comparison"), ast.unparse(n)
    if keyset is None:
        raise Untranslatable("ErrorRate.__init__: no `costs.keys() == {...}` test")
    ectx = Ctx("ErrorRate.__init__", optvars={"costs": "costs_given"},
               numvars={"costs['fp']": "costs_fp", "costs['fn']": "costs_fn"},
               atoms={"isinstance(costs, dict)": "costs_is_dict", keytext: "costs_keys_ok"})
    costs = ectx.stmts(_method(er, "ErrorRate", "__init__").body)

    # GridSearch.__init__
    gctx = Ctx("GridSearch.__init__", numvars={"constraint_weight": "constraint_weight"},
               atoms={"isinstance(constraints, Moment)": "constraints_is_moment",
                      "selection_rule == TRADEOFF_OPTIMIZATION": "selection_rule_ok"})
    grid = gctx.stmts(_method(gs, "GridSearch", "__init__").body)

    guards = _predict_guards(repo)
    frame_prefix, frame_inner = _frame_function_checks(repo)
    tp_sf, tp_y, tp_bin, tp_deleg = _to_predict_checks(repo)

    def slist(xs):
        return "[" + ", ".join(lstr(x) for x in xs) + "]"
    src = f"""/- GENERATED by harness/lifters/validation_tables.py from the fairlearn working tree. Do not edit. -/
namespace Generated.ValidationTables

/-- `SIMPLE_CONSTRAINTS` (constraint name, metric it equalises), source order -/
def simpleConstraints : List (String × String) := [{", ".join(f"({lstr(a)}, {lstr(b)})" for a, b in simple)}]
/-- `OBJECTIVES_FOR_SIMPLE_CONSTRAINTS` (sorted) -/
def objectivesSimple : List String := {slist(obj_s)}
/-- `OBJECTIVES_FOR_EQUALIZED_ODDS` (sorted) -/
def objectivesEO : List String := {slist(obj_e)}
/-- keys of `METRIC_DICT` -/
def metricDictKeys : List String := {slist(md_keys)}

/-- `ThresholdOptimizer.fit`, the statements before `_validate_and_reformat_input`: true = no exception -/
def toFitPrefix (estimator_given : Bool) (constraints objective : String) (control_features_given : Bool) : Bool :=
  {to_prefix}
/-- `enforce_binary_labels=` passed by `ThresholdOptimizer.fit` -/
def toEnforcesBinary : Bool := {enforce.lower()}

/-- `_calculate_tradeoff_points`: true = the group is refused (ValueError) -/
def degenerateGroup (n_positive n_negative : Nat) : Bool :=
  {degenerate}

/-- `UtilityParity.__init__`: true = no exception -/
def parityCtor (difference_bound_given ratio_bound_given : Bool) (ratio_bound : Rat) : Bool :=
  {parity}

/-- the key set `ErrorRate.__init__` demands of `costs` -/
def costKeys : List String := {slist(keyset)}
/-- `ErrorRate.__init__`: true = no exception -/
def errorRateCtor (costs_given costs_is_dict costs_keys_ok : Bool) (costs_fp costs_fn : Rat) : Bool :=
  {costs}

/-- `GridSearch.__init__`: true = no exception -/
def gridSearchCtor (constraints_is_moment selection_rule_ok : Bool) (constraint_weight : Rat) : Bool :=
  {grid}

/-- every prediction entry point (class, method): does it start with `check_is_fitted(self, ..)` (directly, or through a
    same-class method called first)? -/
def predictGuards : List (String × String × Bool) :=
  [{", ".join(f"({lstr(c)}, {lstr(m)}, {'true' if g else 'false'})" for c, m, g in guards)}]

/-- `MetricFrame._get_annotated_metric_functions` before the loop over the metric dict: true = no exception -/
def frameFunctionsPrefix (sample_params_given sample_params_is_dict metric_is_dict keys_subset : Bool) : Bool :=
  {frame_prefix}
/-- `MetricFrame._construct_annotated_metric_function`: the leading type check of the (per-metric) sample_params -/
def frameInnerParamsOk (params_is_dict : Bool) : Bool :=
  {frame_inner}

/-- `InterpolatedThresholder._pmf_predict` -> `_validate_and_reformat_input(X, y=base_predictions, sensitive_features=..)`:
    the effective expect_sensitive_features / expect_y / enforce_binary_labels -/
def toPredictExpectsSf : Bool := {'true' if tp_sf else 'false'}
def toPredictExpectsY : Bool := {'true' if tp_y else 'false'}
def toPredictEnforcesBinary : Bool := {'true' if tp_bin else 'false'}
/-- `ThresholdOptimizer.predict` / `_pmf_predict` = `check_is_fitted(self)` then the same method of the fitted thresholder -/
def toPredictDelegates : Bool := {'true' if tp_deleg else 'false'}

end Generated.ValidationTables
"""
    meta = {"simple_constraints": len(simple), "objectives_simple": len(obj_s), "objectives_eo": len(obj_e),
            "metric_dict_keys": len(md_keys), "to_enforces_binary": enforce,
            "predict_guards": {f"{c}.{m}": g for c, m, g in guards}, "frame_functions_prefix": frame_prefix,
            "to_predict": {"expect_sf": tp_sf, "expect_y": tp_y, "enforce_binary": tp_bin, "delegates": tp_deleg}}
    return "ValidationTables.lean", src, meta
