"""Lifter for C20: the argument-checking decision logic that is written as tables / closed conditions in the source.

Generates lean/FairModel/Generated/ValidationTables.lean from
  fairlearn/postprocessing/_threshold_optimizer.py   SIMPLE_CONSTRAINTS, OBJECTIVES_FOR_*, the statements of
                                                     ThresholdOptimizer.fit before `_validate_and_reformat_input`
  fairlearn/postprocessing/_tradeoff_curve_utilities.py  METRIC_DICT keys, the degenerate-label guard
  fairlearn/reductions/_moments/utility_parity.py    UtilityParity.__init__ (bounds)
  fairlearn/reductions/_moments/error_rate.py        ErrorRate.__init__ (costs)
  fairlearn/reductions/_grid_search/grid_search.py   GridSearch.__init__ (constraint_weight, selection rule)

A function body is read as a tiny language: `if/elif/else`, `raise`, assignments, nothing else.  An assignment is
ignored unless it binds something a LATER condition reads (a name, attribute or subscript that occurs in one of the
context's atoms / variables, e.g. `self.estimator = ..`, `costs = dict(..)`, `kwargs = {}`, `ratio_bound = abs(ratio_bound)`
placed before the guard that reads it): then the condition no longer talks about the argument the model's descriptor
describes, and the function is REFUSED.  The pinned definitions of locals an atom reads (`Ctx.defs`) are followed.
It becomes a Lean `Bool` expression: `true` = the statements complete without raising.  Conditions may use
and/or/not, chained numeric comparisons, `x is (not) None`, membership in the lifted tables and a fixed list of
named atoms per function.  Anything else raises `Untranslatable`."""
import ast
import os
from fractions import Fraction

from .. import translate
from . import normalize
from ..translate import Untranslatable
from .threshold import parse_tcu


def lstr(s):
    return '"' + s.replace("\\", "\\\\").replace('"', '\\"') + '"'


# ---------------------------------------------------------------------------------------------------------------
# Bool terms: ("c", bool) | ("atom", lean text, key, negated) | ("not", t) | ("and", [t..]) | ("or", [t..]) | ("ite", c, a, b)
# `text` prints a term exactly the way this lifter always printed it; `ev` evaluates it under an assignment of the atom keys.
# Two comparison atoms that are the same comparison read from the other side (`a < b` / `b > a`, `a <= b` / `b >= a`,
# `a == b` / `b == a`, `a != b` = not `a == b`) share a key.
TRUE, FALSE = ("c", True), ("c", False)
PINNED_NUM_TERMS = ["(costs_fp + costs_fn)"]


def text(t):
    k = t[0]
    if k == "c":
        return "true" if t[1] else "false"
    if k == "atom":
        return t[1]
    if k == "not":
        return f"(!{text(t[1])})"
    if k in ("and", "or"):
        return "(" + (" && " if k == "and" else " || ").join(text(x) for x in t[1]) + ")"
    if k == "ite":
        return f"(if {text(t[1])} then {text(t[2])} else {text(t[3])})"
    raise AssertionError(k)


def ev(t, env):
    k = t[0]
    if k == "c":
        return t[1]
    if k == "atom":
        return env[t[2]] != t[3]
    if k == "not":
        return not ev(t[1], env)
    if k == "and":
        return all(ev(x, env) for x in t[1])
    if k == "or":
        return any(ev(x, env) for x in t[1])
    return ev(t[2], env) if ev(t[1], env) else ev(t[3], env)


def atom_keys(t, out=None):
    out = set() if out is None else out
    if t[0] == "atom":
        out.add(t[2])
    elif t[0] in ("and", "or"):
        for x in t[1]:
            atom_keys(x, out)
    elif t[0] != "c":
        for x in t[1:]:
            atom_keys(x, out)
    return out


def prefer(t, pinned):
    """the text of `t` -- or, when `t` denotes the same Bool function of the same atomic conditions as the term `pinned`
    (lifted from the source this lifter was written against), the text of `pinned`.  Equality on EVERY assignment of the
    atoms (whether or not they can occur together) implies equality of the two Lean definitions, so this only re-spells:
    swapped operands of and/or, De Morgan, `if c: A else: B` against `if not c: B else: A`, a guard moved past an
    unrelated one, a comparison read from the other side."""
    if pinned is None or t == pinned:
        return text(t)
    keys = sorted(atom_keys(t) | atom_keys(pinned), key=repr)
    if atom_keys(t) != atom_keys(pinned) or len(keys) > 12:
        return text(t)
    for bits in range(2 ** len(keys)):
        env = {k: bool(bits >> i & 1) for i, k in enumerate(keys)}
        if ev(t, env) != ev(pinned, env):
            return text(t)
    return text(pinned)


class Ctx:
    def __init__(self, name, optvars=None, numvars=None, strvars=None, tables=None, atoms=None):
        self.name = name
        self.optvars = optvars or {}    # python text -> Lean Bool variable meaning "is not None"
        self.numvars = numvars or {}    # python text -> Lean Rat/Nat variable
        self.strvars = strvars or {}    # python text -> Lean String variable
        self.tables = tables or {}      # python name -> Lean List String
        self.atoms = atoms or {}        # python text -> Lean Bool expression
        self.rebound = {}               # access path -> (statement that re-assigned it, is that statement in `followed`)
        self.defs = set()               # statement texts: the pinned definitions of locals the atoms read (followed)
        self.followed = set()           # statement texts: re-assignments a later DEFINITION (not a condition) may read through
        self.extra_reads = set()        # names read by something lifted from the same body outside `stmts` (e.g. the eps chain)

    # -- re-assignment of what the conditions read
    @staticmethod
    def paths(node_or_text):
        """the names / attribute chains / subscripts an expression reads, as text"""
        node = node_or_text
        if isinstance(node, str):
            try:
                node = ast.parse(node, mode="eval")
            except SyntaxError:
                return set()
        return {ast.unparse(n) for n in ast.walk(node) if isinstance(n, (ast.Name, ast.Attribute, ast.Subscript))}

    def read_paths(self):
        out = set(self.extra_reads)
        for d in (self.optvars, self.numvars, self.strvars, self.atoms, self.tables):
            for k in d:
                out |= self.paths(k)
        return out

    def use(self, key, node, from_def=False):
        """a condition (or a followed definition) reads `key`: nothing it mentions may have been re-assigned before"""
        for p in sorted(self.paths(key)):
            if p in self.rebound and not (from_def and self.rebound[p][1]):
                self.bad(node, f"reads `{p}` after it was re-assigned by `{self.rebound[p][0][:70]}` "
                               "(the condition no longer describes the caller's argument)")

    def note_assign(self, s):
        if isinstance(s, ast.AnnAssign) and s.value is None:
            return
        targets = s.targets if isinstance(s, ast.Assign) else [s.target]
        flat = []
        for t in targets:
            flat += [n for n in ast.walk(t) if isinstance(n, (ast.Name, ast.Attribute, ast.Subscript))
                     and isinstance(getattr(n, "ctx", None), ast.Store)]
        txt = ast.unparse(s)
        read = self.read_paths()
        for t in flat:
            p = ast.unparse(t)
            if p not in read:
                continue
            if txt in self.defs:
                self.use(s.value, s, from_def=True)
                continue
            self.rebound[p] = (txt, txt in self.followed)

    def bad(self, node, why):
        raise Untranslatable(f"{self.name}: {why}: `{ast.unparse(node)}`")

    # -- numeric expressions
    def num(self, e):
        t = ast.unparse(e)
        if t in self.numvars:
            self.use(t, e)
            return self.numvars[t]
        if isinstance(e, ast.Constant) and isinstance(e.value, (int, float)) and not isinstance(e.value, bool):
            q = Fraction(str(e.value))
            return f"({q.numerator} : Rat)" if q.denominator == 1 else f"(({q.numerator} : Rat) / {q.denominator})"
        if isinstance(e, ast.BinOp) and isinstance(e.op, (ast.Add, ast.Sub, ast.Mult)):
            op = {ast.Add: "+", ast.Sub: "-", ast.Mult: "*"}[type(e.op)]
            # numeric `+` / `*` are commutative: a commuted spelling of a pinned term is emitted in the pinned spelling
            return normalize.lean_prefer(f"({self.num(e.left)} {op} {self.num(e.right)})", PINNED_NUM_TERMS)
        if isinstance(e, ast.UnaryOp) and isinstance(e.op, ast.USub):
            return f"(-{self.num(e.operand)})"
        self.bad(e, "not a numeric expression I understand")

    # -- boolean expressions (Bool terms)
    def cond(self, e):
        t = ast.unparse(e)
        if t in self.atoms:
            self.use(t, e)
            return ("atom", self.atoms[t], self.atoms[t], False)
        if isinstance(e, ast.Compare) and len(e.ops) == 1 and isinstance(e.ops[0], (ast.Eq, ast.NotEq)):
            # a named `a == b` atom written `b == a`, `a != b` or `b != a`
            lt, rt = ast.unparse(e.left), ast.unparse(e.comparators[0])
            for cand in (f"{lt} == {rt}", f"{rt} == {lt}"):
                if cand in self.atoms:
                    self.use(cand, e)
                    a = ("atom", self.atoms[cand], self.atoms[cand], False)
                    return a if isinstance(e.ops[0], ast.Eq) else ("not", a)
        if isinstance(e, ast.BoolOp):
            return ("and" if isinstance(e.op, ast.And) else "or", [self.cond(v) for v in e.values])
        if isinstance(e, ast.UnaryOp) and isinstance(e.op, ast.Not):
            return ("not", self.cond(e.operand))
        if isinstance(e, ast.Compare):
            parts, left = [], e.left
            for op, right in zip(e.ops, e.comparators):
                parts.append(self.link(e, left, op, right))
                left = right
            return parts[0] if len(parts) == 1 else ("and", parts)
        self.bad(e, "not a condition I understand")

    def link(self, whole, left, op, right):
        lt, rt = ast.unparse(left), ast.unparse(right)
        if isinstance(op, (ast.Is, ast.IsNot)):
            if not (isinstance(right, ast.Constant) and right.value is None) or lt not in self.optvars:
                self.bad(whole, "`is` only against None on a known optional")
            self.use(lt, whole)
            a = ("atom", self.optvars[lt], self.optvars[lt], False)
            return a if isinstance(op, ast.IsNot) else ("not", a)
        if isinstance(op, (ast.In, ast.NotIn)):
            if lt not in self.strvars or rt not in self.tables:
                self.bad(whole, "membership only of a known string in a lifted table")
            self.use(lt, whole)
            self.use(rt, whole)
            r = f"({self.tables[rt]}.contains {self.strvars[lt]})"
            a = ("atom", r, r, False)
            return a if isinstance(op, ast.In) else ("not", a)
        if isinstance(op, (ast.Eq, ast.NotEq)) and rt in self.strvars and isinstance(left, ast.Constant) and isinstance(left.value, str):
            left, right, lt, rt = right, left, rt, lt       # `"lit" == s`
        if isinstance(op, (ast.Eq, ast.NotEq)) and lt in self.strvars and isinstance(right, ast.Constant) and isinstance(right.value, str):
            self.use(lt, whole)
            r = f"({self.strvars[lt]} == {lstr(right.value)})"
            a = ("atom", r, r, False)
            return a if isinstance(op, ast.Eq) else ("not", a)
        sym = {ast.Lt: "<", ast.LtE: "≤", ast.Gt: ">", ast.GtE: "≥", ast.Eq: "=", ast.NotEq: "≠"}.get(type(op))
        if sym is None:
            self.bad(whole, "comparison operator")
        ln, rn = self.num(left), self.num(right)
        key, neg = {"<": (("lt", ln, rn), False), ">": (("lt", rn, ln), False), "≤": (("le", ln, rn), False),
                    "≥": (("le", rn, ln), False), "=": (("eq",) + tuple(sorted((ln, rn))), False),
                    "≠": (("eq",) + tuple(sorted((ln, rn))), True)}[sym]
        return ("atom", f"decide ({ln} {sym} {rn})", key, neg)

    # -- statements: Bool term "completes without raising"
    allow_return = False     # `return` = the statements complete without raising

    def stmts(self, body, stop=None):
        if not body:
            return TRUE
        s, rest = body[0], body[1:]
        if stop is not None and stop(s):
            return TRUE
        if isinstance(s, ast.Raise):
            return FALSE
        if self.allow_return and isinstance(s, ast.Return):
            return TRUE
        if isinstance(s, ast.Expr) and isinstance(s.value, ast.Constant) and isinstance(s.value.value, str):
            return self.stmts(rest, stop)           # docstring
        if isinstance(s, ast.Expr) and isinstance(s.value, ast.Call) and ast.unparse(s.value).startswith(("super(", "logger.")):
            return self.stmts(rest, stop)
        if isinstance(s, (ast.Assign, ast.AnnAssign, ast.Pass)):
            if not isinstance(s, ast.Pass):
                self.note_assign(s)
            return self.stmts(rest, stop)
        if isinstance(s, ast.If):
            test = self.cond(s.test)          # evaluated first (execution order matters for `rebound`)
            a, b = self.stmts(s.body, stop), self.stmts(s.orelse, stop)
            r = self.stmts(rest, stop)

            def ends_in_return(blk):
                return self.allow_return and bool(blk) and isinstance(blk[-1], ast.Return)
            if not ends_in_return(s.body):
                a = r if a == TRUE else (FALSE if a == FALSE else ("and", [a, r]))
            if not ends_in_return(s.orelse):
                b = r if b == TRUE else (FALSE if b == FALSE else ("and", [b, r]))
            return ("ite", test, a, b)
        self.bad(s, "statement kind")


# the decision logic in the spelling this lifter was written against (function bodies, dedented; only `if` / `raise` /
# `return` / the stop statement matter).  `prefer` emits a lifted term in this spelling whenever it denotes the same function.
PINNED = {
    "toFit": """
if self.estimator is None:
    raise ValueError(BASE_ESTIMATOR_NONE_ERROR_MESSAGE)
if self.constraints in SIMPLE_CONSTRAINTS:
    if self.objective not in OBJECTIVES_FOR_SIMPLE_CONSTRAINTS:
        raise ValueError(NOT_SUPPORTED_OBJECTIVES_FOR_SIMPLE_CONSTRAINTS_ERROR_MESSAGE)
elif self.constraints == "equalized_odds":
    if self.objective not in OBJECTIVES_FOR_EQUALIZED_ODDS:
        raise ValueError(NOT_SUPPORTED_OBJECTIVES_FOR_EQUALIZED_ODDS_ERROR_MESSAGE)
else:
    raise ValueError(NOT_SUPPORTED_CONSTRAINTS_ERROR_MESSAGE)
self._predict_method = self.predict_method
if kwargs.get(_KW_CONTROL_FEATURES) is not None:
    raise ValueError(NO_CONTROL_FEATURES)
""",
    "degenerate": "n_positive == 0 or n_negative == 0",
    "parity": """
if (difference_bound is None) and (ratio_bound is None):
    self.eps = _DEFAULT_DIFFERENCE_BOUND
elif (difference_bound is not None) and (ratio_bound is None):
    self.eps = difference_bound
elif (difference_bound is None) and (ratio_bound is not None):
    self.eps = ratio_bound_slack
    if not (0 < ratio_bound <= 1):
        raise ValueError(_MESSAGE_RATIO_NOT_IN_RANGE)
    self.ratio = ratio_bound
else:
    raise ValueError(_MESSAGE_INVALID_BOUNDS)
""",
    "costs": """
if costs is None:
    self.fp_cost = 1.0
elif isinstance(costs, dict) and costs.keys() == {'fp', 'fn'} and costs["fp"] >= 0.0 and costs["fn"] >= 0.0 \
        and costs["fp"] + costs["fn"] > 0.0:
    self.fp_cost = costs["fp"]
else:
    raise ValueError(_MESSAGE_BAD_COSTS)
""",
    "grid": """
if not isinstance(constraints, Moment):
    raise RuntimeError("Unsupported disparity metric")
if selection_rule == TRADEOFF_OPTIMIZATION:
    if not (0.0 <= constraint_weight <= 1.0):
        raise RuntimeError("Must specify constraint_weight between 0.0 and 1.0")
else:
    raise RuntimeError("Unsupported selection rule")
""",
    "framePrefix": """
if sample_params is not None and not isinstance(sample_params, dict):
    raise ValueError(_SAMPLE_PARAMS_NOT_DICT)
if not isinstance(metric, dict):
    return annotated_functions
if not sample_params_keys.issubset(metric_functions_keys):
    raise ValueError(_SAMPLE_PARAM_KEYS_NOT_IN_FUNC_DICT)
""",
    "frameInner": """
if not isinstance(sample_params, dict):
    raise ValueError(_SAMPLE_PARAMS_NOT_DICT)
""",
}


# locals (order of first binding) of the functions whose statements are matched by name (normalize.canon_tree)
PINNED_LOCALS_MF = {
    "MetricFrame._get_annotated_metric_functions": ["annotated_functions", "annotated_metric_function", "sample_params_keys",
                                                    "metric_functions_keys", "name", "metric_function", "associated_sample_params"],
    "MetricFrame._construct_annotated_metric_function": ["kw_argument_mapping", "param_name", "param_value", "col_name"],
}
PINNED_LOCALS_IT = {
    "InterpolatedThresholder._pmf_predict": ["base_predictions", "_", "base_predictions_vector", "sensitive_feature_vector",
                                             "positive_probs", "a", "interpolation", "interpolated_predictions"],
}
PINNED_LOCALS_TO = {"ThresholdOptimizer.predict": [], "ThresholdOptimizer._pmf_predict": []}


def _pinned(ctx, key, expr=False, atoms=None):
    """the Bool term of the pinned spelling under the same context (None if the context no longer understands it)"""
    saved, saved_rebound = ctx.atoms, ctx.rebound
    ctx.rebound = {}
    try:
        if atoms is not None:
            ctx.atoms = atoms
        tree = normalize.parse(PINNED[key].strip())
        if expr:
            return ctx.cond(tree.body[0].value)
        return ctx.stmts(tree.body)
    except Untranslatable:
        return None
    finally:
        ctx.atoms, ctx.rebound = saved, saved_rebound


def _parse(repo, rel):
    with open(os.path.join(repo, rel)) as f:
        return normalize.parse(f.read())


def _assign(tree, name):
    for n in tree.body:
        if isinstance(n, ast.Assign) and len(n.targets) == 1 and isinstance(n.targets[0], ast.Name) and n.targets[0].id == name:
            return n.value
    raise Untranslatable(f"module-level assignment {name} not found")


def _method(tree, cls, name):
    for n in tree.body:
        if isinstance(n, ast.ClassDef) and n.name == cls:
            for m in n.body:
                if isinstance(m, ast.FunctionDef) and m.name == name:
                    return m
    raise Untranslatable(f"{cls}.{name} not found")


def _func(tree, name):
    for n in tree.body:
        if isinstance(n, ast.FunctionDef) and n.name == name:
            return n
    raise Untranslatable(f"function {name} not found")


def _strset(v, what):
    if isinstance(v, (ast.Set, ast.List, ast.Tuple)) and all(isinstance(e, ast.Constant) and isinstance(e.value, str) for e in v.elts):
        return sorted(e.value for e in v.elts)
    raise Untranslatable(f"{what} is not a literal collection of strings")


def _strdict(v, what):
    if isinstance(v, ast.Dict) and all(isinstance(k, ast.Constant) and isinstance(k.value, str) for k in v.keys) \
            and all(isinstance(x, ast.Constant) and isinstance(x.value, str) for x in v.values):
        return [(k.value, x.value) for k, x in zip(v.keys, v.values)]
    raise Untranslatable(f"{what} is not a literal dict of strings")


PREDICT_LIKE = ("predict", "predict_proba", "predict_log_proba", "decision_function", "_pmf_predict", "transform", "_raw_predict")
PREDICT_CLASSES = [
    ("ThresholdOptimizer", "fairlearn/postprocessing/_threshold_optimizer.py"),
    ("InterpolatedThresholder", "fairlearn/postprocessing/_interpolated_thresholder.py"),
    ("ExponentiatedGradient", "fairlearn/reductions/_exponentiated_gradient/exponentiated_gradient.py"),
    ("GridSearch", "fairlearn/reductions/_grid_search/grid_search.py"),
    ("CorrelationRemover", "fairlearn/preprocessing/_correlation_remover.py"),
    ("_AdversarialFairness", "fairlearn/adversarial/_adversarial_mitigation.py"),
]


def _predict_guards(repo):
    """(class, method, guarded): the first statement of every prediction entry point is `check_is_fitted(self, ..)`, or a
    statement whose first call is a same-class method that is guarded in this sense"""
    out = []
    for cls, rel in PREDICT_CLASSES:
        tree = _parse(repo, rel)
        methods = {}
        for n in tree.body:
            if isinstance(n, ast.ClassDef) and n.name == cls:
                methods = {m.name: m for m in n.body if isinstance(m, ast.FunctionDef)}
        if not methods:
            raise Untranslatable(f"{rel}: class {cls} not found")

        def first_stmt(fn):
            for st in fn.body:
                if isinstance(st, ast.Expr) and isinstance(st.value, ast.Constant) and isinstance(st.value.value, str):
                    continue
                return st
            return None

        def guarded(name, seen=()):
            if name in seen or name not in methods:
                return False
            st = first_stmt(methods[name])
            if st is None or isinstance(st, (ast.If, ast.For, ast.While, ast.Try, ast.With)):
                return False
            calls = [c for c in ast.walk(st) if isinstance(c, ast.Call)]
            if not calls:
                return False
            # the call evaluated first = the innermost-leftmost one; accept only the simple shapes
            if isinstance(st, ast.Expr) and isinstance(st.value, ast.Call) and ast.unparse(st.value.func) == "check_is_fitted" \
                    and st.value.args and ast.unparse(st.value.args[0]) == "self":
                return True
            val = st.value if isinstance(st, (ast.Assign, ast.Return, ast.Expr)) else None
            # `self.a(self.b(self.c(X)))`: the call executed first is the innermost one (`self.a` / `self.b` are attribute
            # reads; arguments are evaluated left to right, so the first argument that contains a call decides)
            while isinstance(val, ast.Call) and not any(isinstance(c, ast.Call) for c in ast.walk(val.func)):
                inner = [a for a in list(val.args) + [k.value for k in val.keywords]
                         if any(isinstance(c, ast.Call) for c in ast.walk(a))]
                if not inner:
                    if isinstance(val.func, ast.Attribute) and ast.unparse(val.func.value) == "self":
                        return guarded(val.func.attr, seen + (name,))
                    return False
                val = inner[0]
            return False
        found = [m for m in PREDICT_LIKE if m in methods]
        if not found:
            raise Untranslatable(f"{rel}: {cls} has no prediction entry point")
        for m in found:
            out.append((cls, m, guarded(m)))
    return out


def _frame_function_checks(repo):
    """MetricFrame._get_annotated_metric_functions (up to the loop over the metric dict) and the first guard of
    _construct_annotated_metric_function, as Bool expressions `true = no exception`"""
    mf = normalize.canon_tree(_parse(repo, "fairlearn/metrics/_metric_frame.py"), PINNED_LOCALS_MF)
    fn = _method(mf, "MetricFrame", "_get_annotated_metric_functions")
    txt = {ast.unparse(st) for st in ast.walk(fn) if isinstance(st, ast.Assign)}
    for need in ("sample_params = sample_params or {}", "sample_params_keys = set(sample_params.keys())",
                 "metric_functions_keys = set(metric.keys())"):
        if need not in txt:
            raise Untranslatable(f"_get_annotated_metric_functions: `{need}` not found")
    ctx = Ctx("MetricFrame._get_annotated_metric_functions",
              optvars={"sample_params": "sample_params_given"},
              atoms={"isinstance(sample_params, dict)": "sample_params_is_dict", "isinstance(metric, dict)": "metric_is_dict",
                     "sample_params_keys.issubset(metric_functions_keys)": "keys_subset"})
    ctx.allow_return = True
    ctx.defs = {"sample_params_keys = set(sample_params.keys())", "metric_functions_keys = set(metric.keys())"}
    ctx.followed = {"sample_params = sample_params or {}"}      # None -> {}: read by the definition of sample_params_keys only
    loops = [st for st in fn.body if isinstance(st, ast.For)]
    if len(loops) != 1 or ast.unparse(loops[0].iter) != "metric.items()":
        raise Untranslatable("_get_annotated_metric_functions: expected one loop over metric.items()")
    inner_calls = [c for c in ast.walk(loops[0]) if isinstance(c, ast.Call) and ast.unparse(c.func) == "self._construct_annotated_metric_function"]
    if len(inner_calls) != 1:
        raise Untranslatable("_get_annotated_metric_functions: the loop does not construct one annotated function per metric")
    kw = {k.arg: ast.unparse(k.value) for k in inner_calls[0].keywords}
    if kw.get("sample_params") != "associated_sample_params" or \
            "associated_sample_params = sample_params.get(name, {})" not in {ast.unparse(st) for st in loops[0].body}:
        raise Untranslatable("_get_annotated_metric_functions: per-metric sample_params are not sample_params.get(name, {})")
    prefix = prefer(ctx.stmts(fn.body, lambda st: isinstance(st, ast.For)), _pinned(ctx, "framePrefix"))
    inner = _method(mf, "MetricFrame", "_construct_annotated_metric_function")
    ictx = Ctx("MetricFrame._construct_annotated_metric_function", atoms={"isinstance(sample_params, dict)": "params_is_dict"})
    first_if = [st for st in inner.body if not (isinstance(st, ast.Expr) and isinstance(st.value, ast.Constant))][:1]
    if not first_if or not isinstance(first_if[0], ast.If):
        raise Untranslatable("_construct_annotated_metric_function: no leading type check of sample_params")
    inner_ok = prefer(ictx.stmts(first_if), _pinned(ictx, "frameInner"))
    return prefix, inner_ok


def _to_predict_checks(repo):
    """InterpolatedThresholder._pmf_predict: check_is_fitted first, then _validate_and_reformat_input(X, y=<base
    predictions>, sensitive_features=sensitive_features, expect_y=.., enforce_binary_labels=..); ThresholdOptimizer.predict /
    _pmf_predict delegate to it after their own check_is_fitted"""
    it = normalize.canon_tree(_parse(repo, "fairlearn/postprocessing/_interpolated_thresholder.py"), PINNED_LOCALS_IT,
                              extra_funcs=("_get_soft_predictions",))
    fn = _method(it, "InterpolatedThresholder", "_pmf_predict")
    calls = [c for c in ast.walk(fn) if isinstance(c, ast.Call) and ast.unparse(c.func) == "_validate_and_reformat_input"]
    if len(calls) != 1:
        raise Untranslatable("InterpolatedThresholder._pmf_predict: expected one _validate_and_reformat_input call")
    c = calls[0]
    kw = {k.arg: ast.unparse(k.value) for k in c.keywords}
    # y = the base predictions: `_get_soft_predictions(..)` (wrapped or not), directly or through the one local bound to it
    yv = next((k.value for k in c.keywords if k.arg == "y"), None)
    if isinstance(yv, ast.Name):
        defs = [st for st in ast.walk(fn) if isinstance(st, ast.Assign) and len(st.targets) == 1 and isinstance(st.targets[0], ast.Name)
                and st.targets[0].id == yv.id]
        stores = [n for n in ast.walk(fn) if isinstance(n, ast.Name) and n.id == yv.id and isinstance(n.ctx, ast.Store)]
        yv = defs[0].value if len(defs) == 1 and len(stores) == 1 else None
    y_ok = yv is not None and any(isinstance(n, ast.Call) and ast.unparse(n.func) == "_get_soft_predictions" for n in ast.walk(yv))
    if [ast.unparse(a) for a in c.args] != ["X"] or kw.get("sensitive_features") != "sensitive_features" or not y_ok:
        raise Untranslatable("InterpolatedThresholder._pmf_predict: arguments of _validate_and_reformat_input changed")
    for k in ("expect_y", "enforce_binary_labels", "expect_sensitive_features"):
        if k in kw and kw[k] not in ("True", "False"):
            raise Untranslatable(f"InterpolatedThresholder._pmf_predict: {k} is not a literal")
    uv = _parse(repo, "fairlearn/utils/_input_validation.py")
    vf = _func(uv, "_validate_and_reformat_input")
    dflt = {}
    args = vf.args
    for a, d in zip(reversed(args.args), reversed(args.defaults)):
        dflt[a.arg] = ast.unparse(d)
    for a, d in zip(args.kwonlyargs, args.kw_defaults):
        if d is not None:
            dflt[a.arg] = ast.unparse(d)
    expect_sf = kw.get("expect_sensitive_features", dflt.get("expect_sensitive_features"))
    expect_y = kw.get("expect_y", dflt.get("expect_y"))
    enforce = kw.get("enforce_binary_labels", dflt.get("enforce_binary_labels"))
    if expect_sf not in ("True", "False") or expect_y not in ("True", "False") or enforce not in ("True", "False"):
        raise Untranslatable("_validate_and_reformat_input: defaults of expect_* / enforce_binary_labels are not literals")
    to = normalize.canon_tree(_parse(repo, "fairlearn/postprocessing/_threshold_optimizer.py"), PINNED_LOCALS_TO)
    deleg = True
    for m in ("predict", "_pmf_predict"):
        body = [st for st in _method(to, "ThresholdOptimizer", m).body
                if not (isinstance(st, ast.Expr) and isinstance(st.value, ast.Constant))]
        if len(body) != 2 or ast.unparse(body[0]) != "check_is_fitted(self)" or not isinstance(body[1], ast.Return):
            deleg = False
            continue
        call = body[1].value
        if not (isinstance(call, ast.Call) and ast.unparse(call.func) == f"self.interpolated_thresholder_.{m}"):
            deleg = False
            continue
        kws = {k.arg: ast.unparse(k.value) for k in call.keywords}
        first = ast.unparse(call.args[0]) if call.args else kws.get("X")      # X positionally or by keyword
        if len(call.args) > 1 or first != "X" or kws.get("sensitive_features") != "sensitive_features":
            deleg = False
    return expect_sf == "True", expect_y == "True", enforce == "True", deleg


@translate.lifter
def validation_tables(repo):
    to = _parse(repo, "fairlearn/postprocessing/_threshold_optimizer.py")
    tc = parse_tcu(repo)
    up = _parse(repo, "fairlearn/reductions/_moments/utility_parity.py")
    er = _parse(repo, "fairlearn/reductions/_moments/error_rate.py")
    gs = _parse(repo, "fairlearn/reductions/_grid_search/grid_search.py")

    from .threshold import pinned_dict_order      # entry order of the dict is not observable: same mapping, pinned order
    simple = pinned_dict_order(_strdict(_assign(to, "SIMPLE_CONSTRAINTS"), "SIMPLE_CONSTRAINTS"))
    obj_s = _strset(_assign(to, "OBJECTIVES_FOR_SIMPLE_CONSTRAINTS"), "OBJECTIVES_FOR_SIMPLE_CONSTRAINTS")
    obj_e = _strset(_assign(to, "OBJECTIVES_FOR_EQUALIZED_ODDS"), "OBJECTIVES_FOR_EQUALIZED_ODDS")
    md = _assign(tc, "METRIC_DICT")
    if not (isinstance(md, ast.Dict) and all(isinstance(k, ast.Constant) and isinstance(k.value, str) for k in md.keys)):
        raise Untranslatable("METRIC_DICT is not a dict literal with string keys")
    md_keys = [k.value for k in md.keys]

    # ThresholdOptimizer.fit: statements before the call of _validate_and_reformat_input
    fit = _method(to, "ThresholdOptimizer", "fit")
    seen = {}

    def is_validate(s):
        if isinstance(s, ast.Assign) and isinstance(s.value, ast.Call) and ast.unparse(s.value.func) == "_validate_and_reformat_input":
            seen["kw"] = {k.arg: ast.unparse(k.value) for k in s.value.keywords}
            return True
        return False
    ctx = Ctx("ThresholdOptimizer.fit",
              optvars={"self.estimator": "estimator_given", "kwargs.get(_KW_CONTROL_FEATURES)": "control_features_given"},
              strvars={"self.constraints": "constraints", "self.objective": "objective"},
              tables={"SIMPLE_CONSTRAINTS": "(simpleConstraints.map Prod.fst)", "OBJECTIVES_FOR_SIMPLE_CONSTRAINTS": "objectivesSimple",
                      "OBJECTIVES_FOR_EQUALIZED_ODDS": "objectivesEO"})
    to_prefix = prefer(ctx.stmts(fit.body, is_validate), _pinned(ctx, "toFit"))
    if "kw" not in seen:
        raise Untranslatable("ThresholdOptimizer.fit no longer calls _validate_and_reformat_input")
    enforce = seen["kw"].get("enforce_binary_labels", "False")
    if enforce not in ("True", "False"):
        raise Untranslatable("enforce_binary_labels is not a literal")

    # degenerate-label guard
    ctp = _func(tc, "_calculate_tradeoff_points")
    guard = [s for s in ctp.body if isinstance(s, ast.If) and "n_positive" in ast.unparse(s.test)]
    if len(guard) != 1 or guard[0].orelse or not isinstance(guard[0].body[-1], ast.Raise) or any(
            not (isinstance(x, ast.Assign) and all(isinstance(t, ast.Name) for t in x.targets)) for x in guard[0].body[:-1]):
        raise Untranslatable("_calculate_tradeoff_points: degenerate-label guard not of the shape `if <cond>: raise`")
    # the counts the guard reads are bound exactly once before it, by unpacking `_get_scores_labels_and_counts(data)`
    guard_names = {n.id for n in ast.walk(guard[0].test) if isinstance(n, ast.Name)}
    for st in ctp.body[:ctp.body.index(guard[0])]:
        for n in ast.walk(st):
            if isinstance(n, ast.Name) and isinstance(n.ctx, (ast.Store, ast.Del)) and n.id in guard_names:
                if not (isinstance(st, ast.Assign) and isinstance(st.value, ast.Call)
                        and ast.unparse(st.value.func) == "_get_scores_labels_and_counts" and len(st.targets) == 1
                        and isinstance(st.targets[0], ast.Tuple) and any(t is n for t in st.targets[0].elts)):
                    raise Untranslatable(f"_calculate_tradeoff_points: `{n.id}` is (re-)assigned before the degenerate-label guard by "
                                         f"`{ast.unparse(st)[:80]}`")
    if sum(1 for st in ctp.body[:ctp.body.index(guard[0])] for n in ast.walk(st)
           if isinstance(n, ast.Call) and ast.unparse(n.func) == "_get_scores_labels_and_counts") != 1:
        raise Untranslatable("_calculate_tradeoff_points: the counts are not read once from _get_scores_labels_and_counts before the guard")
    dctx = Ctx("_calculate_tradeoff_points", numvars={"n_positive": "(n_positive : Rat)", "n_negative": "(n_negative : Rat)"})
    degenerate = prefer(dctx.cond(guard[0].test), _pinned(dctx, "degenerate", expr=True))

    # UtilityParity.__init__
    pctx = Ctx("UtilityParity.__init__",
               optvars={"difference_bound": "difference_bound_given", "ratio_bound": "ratio_bound_given"},
               numvars={"ratio_bound": "ratio_bound"})
    pctx.extra_reads = {"difference_bound", "ratio_bound_slack", "_DEFAULT_DIFFERENCE_BOUND"}     # read by the eps chain below
    pbody = list(_method(up, "UtilityParity", "__init__").body)
    # optional trailing slack guard: exactly `if self.eps < 0: raise ValueError(..)` after the if/elif chain
    slack_guard = False
    last = pbody[-1] if pbody else None
    if isinstance(last, ast.If) and "self.eps" in ast.unparse(last.test):
        if ast.unparse(last.test) != "self.eps < 0" or last.orelse or len(last.body) != 1 or not isinstance(last.body[0], ast.Raise) \
                or not ast.unparse(last.body[0]).startswith("raise ValueError("):
            raise Untranslatable(f"UtilityParity.__init__: trailing guard on self.eps is not `if self.eps < 0: raise ValueError(..)`: "
                                 f"`{ast.unparse(last)[:80]}`")
        slack_guard = True
        pbody = pbody[:-1]
    for st in pbody:
        for n in ast.walk(st):
            if isinstance(n, (ast.If, ast.While, ast.Assert, ast.IfExp)) and "self.eps" in ast.unparse(n.test):
                raise Untranslatable("UtilityParity.__init__: a condition on self.eps in a place I do not understand")
    parity = prefer(pctx.stmts(pbody), _pinned(pctx, "parity"))
    # the value `self.eps` gets in every branch of the chain (the slack the guard looks at)
    dflt = _assign(up, "_DEFAULT_DIFFERENCE_BOUND")
    ectx0 = Ctx("UtilityParity.__init__/eps",
                optvars={"difference_bound": "difference_bound_given", "ratio_bound": "ratio_bound_given"},
                numvars={"difference_bound": "difference_bound", "ratio_bound_slack": "ratio_bound_slack",
                         "_DEFAULT_DIFFERENCE_BOUND": None})
    ectx0.numvars["_DEFAULT_DIFFERENCE_BOUND"] = ectx0.num(dflt)
    ectx0.rebound = pctx.rebound        # a bound re-assigned anywhere in the body is not the caller's bound any more
    ectx_tests = Ctx("UtilityParity.__init__/eps", optvars=ectx0.optvars)    # the chain's tests were checked by pctx.stmts above
    chains = [st for st in pbody if isinstance(st, ast.If)]
    if len(chains) != 1:
        raise Untranslatable("UtilityParity.__init__: expected exactly one if/elif chain")

    def eps_of(node):
        """nested if-expression for the value assigned to self.eps along the chain; a raising branch gives 0 (unreachable)"""
        assigns = [x for x in node.body if isinstance(x, ast.Assign) and ast.unparse(x.targets[0]) == "self.eps"]
        if any(isinstance(x, ast.Raise) for x in node.body) and not assigns:
            here = "(0 : Rat)"
        elif len(assigns) == 1:
            here = ectx0.num(assigns[0].value)
        else:
            raise Untranslatable("UtilityParity.__init__: a branch does not assign self.eps exactly once")
        if not node.orelse:
            rest = "(0 : Rat)"
        elif len(node.orelse) == 1 and isinstance(node.orelse[0], ast.If):
            rest = eps_of(node.orelse[0])
        else:
            oa = [x for x in node.orelse if isinstance(x, ast.Assign) and ast.unparse(x.targets[0]) == "self.eps"]
            if oa:
                if len(oa) != 1:
                    raise Untranslatable("UtilityParity.__init__: else branch assigns self.eps more than once")
                rest = ectx0.num(oa[0].value)
            elif any(isinstance(x, ast.Raise) for x in node.orelse):
                rest = "(0 : Rat)"
            else:
                raise Untranslatable("UtilityParity.__init__: else branch neither assigns self.eps nor raises")
        return f"(if {text(ectx_tests.cond(node.test))} then {here} else {rest})"
    parity_eps = eps_of(chains[0])

    # ErrorRate.__init__
    keyset, keytext = None, None
    for n in ast.walk(_method(er, "ErrorRate", "__init__")):
        if isinstance(n, ast.Compare) and ast.unparse(n.left) == "costs.keys()" and len(n.ops) == 1 and isinstance(n.ops[0], ast.Eq):
            keyset, keytext = _strset(n.comparators[0], "costs.keys() comparison"), ast.unparse(n)
    if keyset is None:
        raise Untranslatable("ErrorRate.__init__: no `costs.keys() == {...}` test")
    ectx = Ctx("ErrorRate.__init__", optvars={"costs": "costs_given"},
               numvars={"costs['fp']": "costs_fp", "costs['fn']": "costs_fn"},
               atoms={"isinstance(costs, dict)": "costs_is_dict", keytext: "costs_keys_ok"})
    costs = prefer(ectx.stmts(_method(er, "ErrorRate", "__init__").body),
                   _pinned(ectx, "costs", atoms={"isinstance(costs, dict)": "costs_is_dict", "costs.keys() == {'fp', 'fn'}": "costs_keys_ok"}))

    # GridSearch.__init__
    gctx = Ctx("GridSearch.__init__", numvars={"constraint_weight": "constraint_weight"},
               atoms={"isinstance(constraints, Moment)": "constraints_is_moment",
                      "selection_rule == TRADEOFF_OPTIMIZATION": "selection_rule_ok"})
    grid = prefer(gctx.stmts(_method(gs, "GridSearch", "__init__").body), _pinned(gctx, "grid"))

    guards = _predict_guards(repo)
    frame_prefix, frame_inner = _frame_function_checks(repo)
    tp_sf, tp_y, tp_bin, tp_deleg = _to_predict_checks(repo)

    def slist(xs):
        return "[" + ", ".join(lstr(x) for x in xs) + "]"
    src = f"""/- GENERATED by harness/lifters/validation_tables.py from the fairlearn working tree. Do not edit. -/
namespace Generated.ValidationTables

/-- `SIMPLE_CONSTRAINTS` (constraint name, metric it equalises), source order -/
def simpleConstraints : List (String × String) := [{", ".join(f"({lstr(a)}, {lstr(b)})" for a, b in simple)}]
/-- `OBJECTIVES_FOR_SIMPLE_CONSTRAINTS` (sorted) -/
def objectivesSimple : List String := {slist(obj_s)}
/-- `OBJECTIVES_FOR_EQUALIZED_ODDS` (sorted) -/
def objectivesEO : List String := {slist(obj_e)}
/-- keys of `METRIC_DICT` -/
def metricDictKeys : List String := {slist(md_keys)}

/-- `ThresholdOptimizer.fit`, the statements before `_validate_and_reformat_input`: true = no exception -/
def toFitPrefix (estimator_given : Bool) (constraints objective : String) (control_features_given : Bool) : Bool :=
  {to_prefix}
/-- `enforce_binary_labels=` passed by `ThresholdOptimizer.fit` -/
def toEnforcesBinary : Bool := {enforce.lower()}

/-- `_calculate_tradeoff_points`: true = the group is refused (ValueError) -/
def degenerateGroup (n_positive n_negative : Nat) : Bool :=
  {degenerate}

/-- `UtilityParity.__init__`: true = no exception -/
def parityCtor (difference_bound_given ratio_bound_given : Bool) (ratio_bound : Rat) : Bool :=
  {parity}

/-- the value `UtilityParity.__init__` stores in `self.eps` (the slack of the constraints) on the non-raising branches -/
def parityEps (difference_bound_given ratio_bound_given : Bool) (difference_bound ratio_bound_slack : Rat) : Rat :=
  {parity_eps}
/-- `UtilityParity.__init__` ends with `if self.eps < 0: raise ValueError(..)` -/
def slackMustBeNonneg : Bool := {'true' if slack_guard else 'false'}

/-- the key set `ErrorRate.__init__` demands of `costs` -/
def costKeys : List String := {slist(keyset)}
/-- `ErrorRate.__init__`: true = no exception -/
def errorRateCtor (costs_given costs_is_dict costs_keys_ok : Bool) (costs_fp costs_fn : Rat) : Bool :=
  {costs}

/-- `GridSearch.__init__`: true = no exception -/
def gridSearchCtor (constraints_is_moment selection_rule_ok : Bool) (constraint_weight : Rat) : Bool :=
  {grid}

/-- every prediction entry point (class, method): does it start with `check_is_fitted(self, ..)` (directly, or through a
    same-class method called first)? -/
def predictGuards : List (String × String × Bool) :=
  [{", ".join(f"({lstr(c)}, {lstr(m)}, {'true' if g else 'false'})" for c, m, g in guards)}]

/-- `MetricFrame._get_annotated_metric_functions` before the loop over the metric dict: true = no exception -/
def frameFunctionsPrefix (sample_params_given sample_params_is_dict metric_is_dict keys_subset : Bool) : Bool :=
  {frame_prefix}
/-- `MetricFrame._construct_annotated_metric_function`: the leading type check of the (per-metric) sample_params -/
def frameInnerParamsOk (params_is_dict : Bool) : Bool :=
  {frame_inner}

/-- `InterpolatedThresholder._pmf_predict` -> `_validate_and_reformat_input(X, y=base_predictions, sensitive_features=..)`:
    the effective expect_sensitive_features / expect_y / enforce_binary_labels -/
def toPredictExpectsSf : Bool := {'true' if tp_sf else 'false'}
def toPredictExpectsY : Bool := {'true' if tp_y else 'false'}
def toPredictEnforcesBinary : Bool := {'true' if tp_bin else 'false'}
/-- `ThresholdOptimizer.predict` / `_pmf_predict` = `check_is_fitted(self)` then the same method of the fitted thresholder -/
def toPredictDelegates : Bool := {'true' if tp_deleg else 'false'}

end Generated.ValidationTables
"""
    meta = {"simple_constraints": len(simple), "objectives_simple": len(obj_s), "objectives_eo": len(obj_e),
            "metric_dict_keys": len(md_keys), "to_enforces_binary": enforce, "slack_guard": slack_guard,
            "predict_guards": {f"{c}.{m}": g for c, m, g in guards}, "frame_functions_prefix": frame_prefix,
            "to_predict": {"expect_sf": tp_sf, "expect_y": tp_y, "enforce_binary": tp_bin, "delegates": tp_deleg}}
    return "ValidationTables.lean", src, meta
