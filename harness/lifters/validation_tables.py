"""Lifter for C20: the argument-checking decision logic that is written as tables / closed conditions in the source.

Generates lean/FairModel/Generated/ValidationTables.lean from
  fairlearn/postprocessing/_threshold_optimizer.py   SIMPLE_CONSTRAINTS, OBJECTIVES_FOR_*, the statements of
                                                     ThresholdOptimizer.fit before `_validate_and_reformat_input`
  fairlearn/postprocessing/_tradeoff_curve_utilities.py  METRIC_DICT keys, the degenerate-label guard
  fairlearn/reductions/_moments/utility_parity.py    UtilityParity.__init__ (bounds)
  fairlearn/reductions/_moments/error_rate.py        ErrorRate.__init__ (costs)
  fairlearn/reductions/_grid_search/grid_search.py   GridSearch.__init__ (constraint_weight, selection rule)

A function body is read as a tiny language: `if/elif/else`, `raise`, assignments (ignored), nothing else.
It becomes a Lean `Bool` expression: `true` = the statements complete without raising.  Conditions may use
and/or/not, chained numeric comparisons, `x is (not) None`, membership in the lifted tables and a fixed list of
named atoms per function.  Anything else raises `Untranslatable`."""
import ast
import os
from fractions import Fraction

from .. import translate
from ..translate import Untranslatable


def lstr(s):
    return '"' + s.replace("\\", "\\\\").replace('"', '\\"') + '"'


class Ctx:
    def __init__(self, name, optvars=None, numvars=None, strvars=None, tables=None, atoms=None):
        self.name = name
        self.optvars = optvars or {}    # python text -> Lean Bool variable meaning "is not None"
        self.numvars = numvars or {}    # python text -> Lean Rat/Nat variable
        self.strvars = strvars or {}    # python text -> Lean String variable
        self.tables = tables or {}      # python name -> Lean List String
        self.atoms = atoms or {}        # python text -> Lean Bool expression

    def bad(self, node, why):
        raise Untranslatable(f"{self.name}: {why}: `{ast.unparse(node)}`")

    # -- numeric expressions
    def num(self, e):
        t = ast.unparse(e)
        if t in self.numvars:
            return self.numvars[t]
        if isinstance(e, ast.Constant) and isinstance(e.value, (int, float)) and not isinstance(e.value, bool):
            q = Fraction(str(e.value))
            return f"({q.numerator} : Rat)" if q.denominator == 1 else f"(({q.numerator} : Rat) / {q.denominator})"
        if isinstance(e, ast.BinOp) and isinstance(e.op, (ast.Add, ast.Sub, ast.Mult)):
            op = {ast.Add: "+", ast.Sub: "-", ast.Mult: "*"}[type(e.op)]
            return f"({self.num(e.left)} {op} {self.num(e.right)})"
        if isinstance(e, ast.UnaryOp) and isinstance(e.op, ast.USub):
            return f"(-{self.num(e.operand)})"
        self.bad(e, "not a numeric expression I understand")

    # -- boolean expressions
    def cond(self, e):
        t = ast.unparse(e)
        if t in self.atoms:
            return self.atoms[t]
        if isinstance(e, ast.BoolOp):
            op = " && " if isinstance(e.op, ast.And) else " || "
            return "(" + op.join(self.cond(v) for v in e.values) + ")"
        if isinstance(e, ast.UnaryOp) and isinstance(e.op, ast.Not):
            return f"(!{self.cond(e.operand)})"
        if isinstance(e, ast.Compare):
            parts, left = [], e.left
            for op, right in zip(e.ops, e.comparators):
                parts.append(self.link(e, left, op, right))
                left = right
            return parts[0] if len(parts) == 1 else "(" + " && ".join(parts) + ")"
        self.bad(e, "not a condition I understand")

    def link(self, whole, left, op, right):
        lt, rt = ast.unparse(left), ast.unparse(right)
        if isinstance(op, (ast.Is, ast.IsNot)):
            if not (isinstance(right, ast.Constant) and right.value is None) or lt not in self.optvars:
                self.bad(whole, "`is` only against None on a known optional")
            return self.optvars[lt] if isinstance(op, ast.IsNot) else f"(!{self.optvars[lt]})"
        if isinstance(op, (ast.In, ast.NotIn)):
            if lt not in self.strvars or rt not in self.tables:
                self.bad(whole, "membership only of a known string in a lifted table")
            r = f"({self.tables[rt]}.contains {self.strvars[lt]})"
            return r if isinstance(op, ast.In) else f"(!{r})"
        if isinstance(op, (ast.Eq, ast.NotEq)) and lt in self.strvars and isinstance(right, ast.Constant) and isinstance(right.value, str):
            r = f"({self.strvars[lt]} == {lstr(right.value)})"
            return r if isinstance(op, ast.Eq) else f"(!{r})"
        sym = {ast.Lt: "<", ast.LtE: "≤", ast.Gt: ">", ast.GtE: "≥", ast.Eq: "=", ast.NotEq: "≠"}.get(type(op))
        if sym is None:
            self.bad(whole, "comparison operator")
        return f"decide ({self.num(left)} {sym} {self.num(right)})"

    # -- statements: Bool expression "completes without raising"
    def stmts(self, body, stop=None):
        if not body:
            return "true"
        s, rest = body[0], body[1:]
        if stop is not None and stop(s):
            return "true"
        if isinstance(s, ast.Raise):
            return "false"
        if isinstance(s, ast.Expr) and isinstance(s.value, ast.Constant) and isinstance(s.value.value, str):
            return self.stmts(rest, stop)           # docstring
        if isinstance(s, ast.Expr) and isinstance(s.value, ast.Call) and ast.unparse(s.value).startswith(("super(", "logger.")):
            return self.stmts(rest, stop)
        if isinstance(s, (ast.Assign, ast.AnnAssign)):
            return self.stmts(rest, stop)
        if isinstance(s, ast.If):
            a, b = self.stmts(s.body, stop), self.stmts(s.orelse, stop)
            r = self.stmts(rest, stop)
            a = r if a == "true" else ("false" if a == "false" else f"({a} && {r})")
            b = r if b == "true" else ("false" if b == "false" else f"({b} && {r})")
            return f"(if {self.cond(s.test)} then {a} else {b})"
        self.bad(s, "statement kind")


def _parse(repo, rel):
    with open(os.path.join(repo, rel)) as f:
        return ast.parse(f.read())


def _assign(tree, name):
    for n in tree.body:
        if isinstance(n, ast.Assign) and len(n.targets) == 1 and isinstance(n.targets[0], ast.Name) and n.targets[0].id == name:
            return n.value
    raise Untranslatable(f"module-level assignment {name} not found")


def _method(tree, cls, name):
    for n in tree.body:
        if isinstance(n, ast.ClassDef) and n.name == cls:
            for m in n.body:
                if isinstance(m, ast.FunctionDef) and m.name == name:
                    return m
    raise Untranslatable(f"{cls}.{name} not found")


def _func(tree, name):
    for n in tree.body:
        if isinstance(n, ast.FunctionDef) and n.name == name:
            return n
    raise Untranslatable(f"function {name} not found")


def _strset(v, what):
    if isinstance(v, (ast.Set, ast.List, ast.Tuple)) and all(isinstance(e, ast.Constant) and isinstance(e.value, str) for e in v.elts):
        return sorted(e.value for e in v.elts)
    raise Untranslatable(f"{what} is not a literal collection of strings")


def _strdict(v, what):
    if isinstance(v, ast.Dict) and all(isinstance(k, ast.Constant) and isinstance(k.value, str) for k in v.keys) \
            and all(isinstance(x, ast.Constant) and isinstance(x.value, str) for x in v.values):
        return [(k.value, x.value) for k, x in zip(v.keys, v.values)]
    raise Untranslatable(f"{what} is not a literal dict of strings")


@translate.lifter
def validation_tables(repo):
    to = _parse(repo, "fairlearn/postprocessing/_threshold_optimizer.py")
    tc = _parse(repo, "fairlearn/postprocessing/_tradeoff_curve_utilities.py")
    up = _parse(repo, "fairlearn/reductions/_moments/utility_parity.py")
    er = _parse(repo, "fairlearn/reductions/_moments/error_rate.py")
    gs = _parse(repo, "fairlearn/reductions/_grid_search/grid_search.py")

    simple = _strdict(_assign(to, "SIMPLE_CONSTRAINTS"), "SIMPLE_CONSTRAINTS")
    obj_s = _strset(_assign(to, "OBJECTIVES_FOR_SIMPLE_CONSTRAINTS"), "OBJECTIVES_FOR_SIMPLE_CONSTRAINTS")
    obj_e = _strset(_assign(to, "OBJECTIVES_FOR_EQUALIZED_ODDS"), "OBJECTIVES_FOR_EQUALIZED_ODDS")
    md = _assign(tc, "METRIC_DICT")
    if not (isinstance(md, ast.Dict) and all(isinstance(k, ast.Constant) and isinstance(k.value, str) for k in md.keys)):
        raise Untranslatable("METRIC_DICT is not a dict literal with string keys")
    md_keys = [k.value for k in md.keys]

    # ThresholdOptimizer.fit: statements before the call of _validate_and_reformat_input
    fit = _method(to, "ThresholdOptimizer", "fit")
    seen = {}

    def is_validate(s):
        if isinstance(s, ast.Assign) and isinstance(s.value, ast.Call) and ast.unparse(s.value.func) == "_validate_and_reformat_input":
            seen["kw"] = {k.arg: ast.unparse(k.value) for k in s.value.keywords}
            return True
        return False
    ctx = Ctx("ThresholdOptimizer.fit",
              optvars={"self.estimator": "estimator_given", "kwargs.get(_KW_CONTROL_FEATURES)": "control_features_given"},
              strvars={"self.constraints": "constraints", "self.objective": "objective"},
              tables={"SIMPLE_CONSTRAINTS": "(simpleConstraints.map Prod.fst)", "OBJECTIVES_FOR_SIMPLE_CONSTRAINTS": "objectivesSimple",
                      "OBJECTIVES_FOR_EQUALIZED_ODDS": "objectivesEO"})
    to_prefix = ctx.stmts(fit.body, is_validate)
    if "kw" not in seen:
        raise Untranslatable("ThresholdOptimizer.fit no longer calls _validate_and_reformat_input")
    enforce = seen["kw"].get("enforce_binary_labels", "False")
    if enforce not in ("True", "False"):
        raise Untranslatable("enforce_binary_labels is not a literal")

    # degenerate-label guard
    ctp = _func(tc, "_calculate_tradeoff_points")
    guard = [s for s in ctp.body if isinstance(s, ast.If) and "n_positive" in ast.unparse(s.test)]
    if len(guard) != 1 or not (len(guard[0].body) == 1 and isinstance(guard[0].body[0], ast.Raise) and not guard[0].orelse):
        raise Untranslatable("_calculate_tradeoff_points: degenerate-label guard not of the shape `if <cond>: raise`")
    dctx = Ctx("_calculate_tradeoff_points", numvars={"n_positive": "(n_positive : Rat)", "n_negative": "(n_negative : Rat)"})
    degenerate = dctx.cond(guard[0].test)

    # UtilityParity.__init__
    pctx = Ctx("UtilityParity.__init__",
               optvars={"difference_bound": "difference_bound_given", "ratio_bound": "ratio_bound_given"},
               numvars={"ratio_bound": "ratio_bound"})
    parity = pctx.stmts(_method(up, "UtilityParity", "__init__").body)

    # ErrorRate.__init__
    keyset, keytext = None, None
    for n in ast.walk(_method(er, "ErrorRate", "__init__")):
        if isinstance(n, ast.Compare) and ast.unparse(n.left) == "costs.keys()" and len(n.ops) == 1 and isinstance(n.ops[0], ast.Eq):
            keyset, keytext = _strset(n.comparators[0], "costs.keys() comparison"), ast.unparse(n)
    if keyset is None:
        raise Untranslatable("ErrorRate.__init__: no `costs.keys() == {...}` test")
    ectx = Ctx("ErrorRate.__init__", optvars={"costs": "costs_given"},
               numvars={"costs['fp']": "costs_fp", "costs['fn']": "costs_fn"},
               atoms={"isinstance(costs, dict)": "costs_is_dict", keytext: "costs_keys_ok"})
    costs = ectx.stmts(_method(er, "ErrorRate", "__init__").body)

    # GridSearch.__init__
    gctx = Ctx("GridSearch.__init__", numvars={"constraint_weight": "constraint_weight"},
               atoms={"isinstance(constraints, Moment)": "constraints_is_moment",
                      "selection_rule == TRADEOFF_OPTIMIZATION": "selection_rule_ok"})
    grid = gctx.stmts(_method(gs, "GridSearch", "__init__").body)

    def slist(xs):
        return "[" + ", ".join(lstr(x) for x in xs) + "]"
    src = f"""/- GENERATED by harness/lifters/validation_tables.py from the fairlearn working tree. Do not edit. -/
namespace Generated.ValidationTables

/-- `SIMPLE_CONSTRAINTS` (constraint name, metric it equalises), source order -/
def simpleConstraints : List (String × String) := [{", ".join(f"({lstr(a)}, {lstr(b)})" for a, b in simple)}]
/-- `OBJECTIVES_FOR_SIMPLE_CONSTRAINTS` (sorted) -/
def objectivesSimple : List String := {slist(obj_s)}
/-- `OBJECTIVES_FOR_EQUALIZED_ODDS` (sorted) -/
def objectivesEO : List String := {slist(obj_e)}
/-- keys of `METRIC_DICT` -/
def metricDictKeys : List String := {slist(md_keys)}

/-- `ThresholdOptimizer.fit`, the statements before `_validate_and_reformat_input`: true = no exception -/
def toFitPrefix (estimator_given : Bool) (constraints objective : String) (control_features_given : Bool) : Bool :=
  {to_prefix}
/-- `enforce_binary_labels=` passed by `ThresholdOptimizer.fit` -/
def toEnforcesBinary : Bool := {enforce.lower()}

/-- `_calculate_tradeoff_points`: true = the group is refused (ValueError) -/
def degenerateGroup (n_positive n_negative : Nat) : Bool :=
  {degenerate}

/-- `UtilityParity.__init__`: true = no exception -/
def parityCtor (difference_bound_given ratio_bound_given : Bool) (ratio_bound : Rat) : Bool :=
  {parity}

/-- the key set `ErrorRate.__init__` demands of `costs` -/
def costKeys : List String := {slist(keyset)}
/-- `ErrorRate.__init__`: true = no exception -/
def errorRateCtor (costs_given costs_is_dict costs_keys_ok : Bool) (costs_fp costs_fn : Rat) : Bool :=
  {costs}

/-- `GridSearch.__init__`: true = no exception -/
def gridSearchCtor (constraints_is_moment selection_rule_ok : Bool) (constraint_weight : Rat) : Bool :=
  {grid}

end Generated.ValidationTables
"""
    meta = {"simple_constraints": len(simple), "objectives_simple": len(obj_s), "objectives_eo": len(obj_e),
            "metric_dict_keys": len(md_keys), "to_enforces_binary": enforce}
    return "ValidationTables.lean", src, meta
