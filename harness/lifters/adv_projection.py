"""Lifter for C16: the three-line normalise / project / combine loop body of `train_step` in
fairlearn/adversarial/_pytorch_engine.py and _tensorflow_engine.py.

For each engine it regenerates, in lean/FairModel/Generated/AdvProjection.lean,
  * `<eng>Inner : InnerKind`   which inner product the `proj = ...` line computes
        torch.sum(U * G), torch.sum(torch.mul(U, G)), (U * G).sum(), reduce_sum(multiply(U, G)),
        dot/vdot of the two flattenings                                     -> frobenius
        torch.sum(torch.inner(U, G))  (sum of ALL row-pair inner products)  -> sumInner
  * `<eng>Tiny : TinyKind`     which `tiny` regulariser is added to the float32 norm
        finfo(float).tiny / finfo(float64).tiny  (underflows to 0 in float32) -> float64
        finfo(float32).tiny / finfo(<tensor>.dtype).tiny                      -> float32
  * `<eng>Norm : NormKind`     which norm normalises dW_LA[i] (see `classify_norm`)
        torch.norm(g) / g.norm() / torch.linalg.norm(g) / torch.linalg.vector_norm(g) / tensorflow.norm(g) (no order, or
        order 2 / 'fro' / 'euclidean' WITHOUT dim/axis), sqrt(sum(g*g))            -> frobenius (2-norm of the flattening)
        the same functions with order 1 (no dim/axis), sum(abs(g))                 -> l1Flat
        the same functions with order inf (no dim/axis), max(abs(g))               -> maxAbs
        torch.linalg.norm(g, 2) / matrix_norm / 'nuc' / dim= / axis= / keepdim= / any other order: REFUSED, the kind is
        named in the message (spectral, nuclear, per-axis, rank-dependent): the model (exact rationals) cannot express them
  * `<eng>Unit`, `<eng>Grad`   the per-coordinate arithmetic of the normalise and combine lines.
Any other shape is refused (Untranslatable)."""
import ast
import os

from .. import translate
from . import normalize

ENGINES = (
    ("torch", "fairlearn/adversarial/_pytorch_engine.py", "PytorchEngine"),
    ("tf", "fairlearn/adversarial/_tensorflow_engine.py", "TensorflowEngine"),
)
TENSORS = {"dW_LP": "dW_LP", "dW_LA": "dW_LA"}


# locals of the pinned `train_step` functions in order of first binding (normalize.canon_function)
PINNED_LOCALS = {
    "PytorchEngine": ["Y_hat", "LP", "p", "dW_LP", "A_hat", "LA", "dW_LA", "i", "unit_dW_LA", "proj"],
    "TensorflowEngine": ["tape", "Y_hat", "LP", "A_hat", "LA", "dW_LP", "dU_LA", "dW_LA", "i", "unit_dW_LA", "proj"],
}
PURE_TENSOR = ("norm", "sum", "mul", "multiply", "inner", "clone", "detach", "finfo", "dot", "vdot", "flatten", "ravel",
               "reduce_sum", "cat", "concat", "vector_norm", "matrix_norm", "abs", "max", "amax", "sqrt", "square", "pow",
               "reduce_max")
# generated definition -> (emitted term, source line quoted in the doc comment) for the pinned source; a definition whose
# lifted term is the pinned one (modulo operand order of `+` / `*`) is emitted with the pinned term and quotation
PINNED_DEFS = {
    "torchNorm": (".frobenius", "unit_dW_LA = dW_LA[i] / (torch.norm(dW_LA[i]) + torch.finfo(torch.float32).tiny)"),
    "tfNorm": (".frobenius", "unit_dW_LA = dW_LA[i] / (tensorflow.norm(dW_LA[i]) + finfo(float32).tiny)"),
    "torchInner": (".frobenius", "proj = torch.sum(unit_dW_LA * dW_LP[i])"),
    "torchTiny": (".float32", "unit_dW_LA = dW_LA[i] / (torch.norm(dW_LA[i]) + torch.finfo(torch.float32).tiny)"),
    "torchUnit": ("(dW_LA / (norm + tiny))", None),
    "torchGrad": ("((dW_LP - (proj * unit_dW_LA)) - (alpha * dW_LA))", "p.grad = dW_LP[i] - proj * unit_dW_LA - self.base.alpha * dW_LA[i]"),
    "tfInner": (".frobenius", "proj = tensorflow.reduce_sum(tensorflow.multiply(dW_LP[i], unit_dW_LA))"),
    "tfTiny": (".float32", "unit_dW_LA = dW_LA[i] / (tensorflow.norm(dW_LA[i]) + finfo(float32).tiny)"),
    "tfUnit": ("(dW_LA / (norm + tiny))", None),
    "tfGrad": ("((dW_LP - (proj * unit_dW_LA)) - (alpha * dW_LA))", "dW_LP[i] = dW_LP[i] - proj * unit_dW_LA - self.base.alpha * dW_LA[i]"),
}


def _pin(name, expr, src):
    pin = PINNED_DEFS[name]
    if normalize.lean_prefer(expr, [pin[0]]) == pin[0]:
        return pin[0], (pin[1] if pin[1] is not None else src)
    return expr, src


class _U(translate.Untranslatable):
    pass


def _src(node):
    return ast.unparse(node)


def _is_sub(node, name):
    """`name[i]`"""
    return (isinstance(node, ast.Subscript) and isinstance(node.value, ast.Name) and node.value.id == name
            and isinstance(node.slice, ast.Name))


def _call_name(node):
    """dotted name of a call's function, e.g. torch.sum -> 'torch.sum'; method call on an expression -> '.sum'"""
    f = node.func
    parts = []
    while isinstance(f, ast.Attribute):
        parts.append(f.attr)
        f = f.value
    if isinstance(f, ast.Name):
        parts.append(f.id)
        return ".".join(reversed(parts))
    return "." + ".".join(reversed(parts))


def _operand(node):
    """one of the two tensors entering the projection: 'U' (unit_dW_LA) or 'G' (dW_LP[i])"""
    if isinstance(node, ast.Name) and node.id == "unit_dW_LA":
        return "U"
    if _is_sub(node, "dW_LP"):
        return "G"
    return None


def _flat_operand(node):
    """U.flatten() / U.reshape(-1) / torch.flatten(U) / tensorflow.reshape(U, [-1])"""
    if isinstance(node, ast.Call):
        nm = _call_name(node)
        if isinstance(node.func, ast.Attribute) and node.func.attr in ("flatten", "ravel") and not node.args:
            return _operand(node.func.value)
        if isinstance(node.func, ast.Attribute) and node.func.attr in ("reshape", "view") and len(node.args) == 1 \
                and _src(node.args[0]) in ("-1", "(-1,)", "[-1]") and _operand(node.func.value):
            return _operand(node.func.value)
        if nm in ("torch.flatten", "torch.ravel") and len(node.args) == 1:
            return _operand(node.args[0])
    return None


def _is_pair(x, y):
    return {x, y} == {"U", "G"}


def classify_inner(node):
    """InnerKind of the right-hand side of `proj = ...`"""
    if isinstance(node, ast.Call) and not node.keywords:
        nm = _call_name(node)
        # sum(<elementwise product>)
        if nm in ("torch.sum", "tensorflow.reduce_sum", "tf.reduce_sum", "tensorflow.math.reduce_sum") and len(node.args) == 1:
            inner = node.args[0]
            if isinstance(inner, ast.BinOp) and isinstance(inner.op, ast.Mult) and _is_pair(_operand(inner.left), _operand(inner.right)):
                return "frobenius"
            if isinstance(inner, ast.Call) and not inner.keywords and len(inner.args) == 2:
                inm = _call_name(inner)
                pair = _is_pair(_operand(inner.args[0]), _operand(inner.args[1]))
                if pair and inm in ("torch.mul", "torch.multiply", "tensorflow.multiply", "tf.multiply", "tensorflow.math.multiply"):
                    return "frobenius"
                if pair and inm == "torch.inner":
                    return "sumInner"
        # (U * G).sum()
        if isinstance(node.func, ast.Attribute) and node.func.attr == "sum" and not node.args:
            inner = node.func.value
            if isinstance(inner, ast.BinOp) and isinstance(inner.op, ast.Mult) and _is_pair(_operand(inner.left), _operand(inner.right)):
                return "frobenius"
        # dot of the flattenings
        if nm in ("torch.dot", "torch.vdot") and len(node.args) == 2 and \
                _is_pair(_flat_operand(node.args[0]), _flat_operand(node.args[1])):
            return "frobenius"
    raise _U(f"C16 lifter: projection expression of unknown shape: {_src(node)}")


def classify_tiny(node):
    """TinyKind of the regulariser added to the norm"""
    if isinstance(node, ast.Attribute) and node.attr == "tiny" and isinstance(node.value, ast.Call) \
            and len(node.value.args) == 1 and not node.value.keywords:
        fn = _call_name(node.value)
        arg = _src(node.value.args[0])
        if fn in ("torch.finfo", "finfo", "numpy.finfo", "np.finfo"):
            if arg in ("float", "torch.float64", "torch.double", "float64", "numpy.float64", "np.float64"):
                return "float64"
            if arg in ("torch.float32", "torch.float", "float32", "numpy.float32", "np.float32",
                       "dW_LA[i].dtype", "dW_LP[i].dtype", "p.dtype"):
                return "float32"
    raise _U(f"C16 lifter: regulariser of unknown shape: {_src(node)}")


NORM_FUNCS = ("torch.norm", "tensorflow.norm", "tf.norm", "torch.linalg.norm", "torch.linalg.vector_norm", "tensorflow.linalg.norm",
              "tf.linalg.norm")
MATRIX_NORM_FUNCS = ("torch.linalg.matrix_norm",)
SQRT_FUNCS = ("torch.sqrt", "tensorflow.sqrt", "tf.sqrt", "tensorflow.math.sqrt", "tf.math.sqrt")
SUM_FUNCS = ("torch.sum", "tensorflow.reduce_sum", "tf.reduce_sum", "tensorflow.math.reduce_sum", "tf.math.reduce_sum")
MAX_FUNCS = ("torch.max", "torch.amax", "tensorflow.reduce_max", "tf.reduce_max", "tensorflow.math.reduce_max", "tf.math.reduce_max")
ABS_FUNCS = ("torch.abs", "torch.absolute", "tensorflow.abs", "tf.abs", "tensorflow.math.abs", "tf.math.abs")
SQUARE_FUNCS = ("torch.square", "tensorflow.square", "tf.square", "tensorflow.math.square", "tf.math.square")
INF_SRCS = ("float('inf')", "math.inf", "torch.inf", "numpy.inf", "np.inf", "inf")


def _is_g(node):
    return _is_sub(node, "dW_LA")


def _order_kind(node, fn, where):
    """the order argument (`p` / `ord`) of a norm call WITHOUT dim/axis -> NormKind, or refuse naming the kind"""
    s_ = _src(node)
    if isinstance(node, ast.Constant) and node.value is None:
        return "frobenius"
    if isinstance(node, ast.Constant) and not isinstance(node.value, bool) and isinstance(node.value, (int, float)):
        if node.value == 2:
            if fn in ("torch.linalg.norm",):
                raise _U(f"C16 lifter: {where}: `{fn}(.., 2)` is the SPECTRAL norm (largest singular value) of a 2-d tensor and "
                         "the 2-norm of a 1-d one: norm kind `spectral` is not expressible in the exact rational model")
            return "frobenius"
        if node.value == 1:
            if fn in ("torch.linalg.norm",):
                raise _U(f"C16 lifter: {where}: `{fn}(.., 1)` is the matrix 1-norm (largest column sum) of a 2-d tensor and the "
                         "vector 1-norm of a 1-d one: norm kind `matrix-1 (rank-dependent)` is not modelled")
            return "l1Flat"
        raise _U(f"C16 lifter: {where}: norm of order {s_} (kind `p-norm, p = {s_}`) is not modelled (irrational in general)")
    if isinstance(node, ast.Constant) and isinstance(node.value, str):
        if node.value in ("fro", "euclidean") and fn != "torch.linalg.norm":
            return "frobenius"          # torch.norm(g, 'fro') / tf.norm(g, 'euclidean') without dim: the flattened 2-norm
        if node.value == "nuc":
            raise _U(f"C16 lifter: {where}: norm kind `nuclear` (sum of the singular values) is not expressible in the exact rational model")
        raise _U(f"C16 lifter: {where}: `{fn}` with order {s_}: norm kind `{node.value}` (matrix norm, undefined for 1-d bias tensors) is not modelled")
    if s_ in INF_SRCS:
        if fn in ("torch.linalg.norm",):
            raise _U(f"C16 lifter: {where}: `{fn}(.., inf)` is the largest ROW sum of a 2-d tensor: norm kind `matrix-inf (rank-dependent)` is not modelled")
        return "maxAbs"
    raise _U(f"C16 lifter: {where}: norm order `{s_}` is not a literal the lifter knows")


def _square_of_g(node):
    """g * g, g ** 2, g.pow(2), g.square(), torch.square(g), torch.pow(g, 2)"""
    if isinstance(node, ast.BinOp) and isinstance(node.op, ast.Mult) and _is_g(node.left) and _is_g(node.right):
        return True
    if isinstance(node, ast.BinOp) and isinstance(node.op, ast.Pow) and _is_g(node.left) and _src(node.right) == "2":
        return True
    if isinstance(node, ast.Call) and not node.keywords:
        nm = _call_name(node)
        if isinstance(node.func, ast.Attribute) and _is_g(node.func.value):
            return (node.func.attr == "square" and not node.args) or \
                (node.func.attr == "pow" and len(node.args) == 1 and _src(node.args[0]) == "2")
        if nm in SQUARE_FUNCS and len(node.args) == 1 and _is_g(node.args[0]):
            return True
        if nm in ("torch.pow", "tensorflow.pow", "tf.pow") and len(node.args) == 2 and _is_g(node.args[0]) and _src(node.args[1]) == "2":
            return True
        if nm in ("torch.mul", "torch.multiply", "tensorflow.multiply", "tf.multiply") and len(node.args) == 2 \
                and _is_g(node.args[0]) and _is_g(node.args[1]):
            return True
    return False


def _abs_of_g(node):
    """g.abs() / torch.abs(g) / abs(g)"""
    if isinstance(node, ast.Call) and not node.keywords:
        if isinstance(node.func, ast.Attribute) and node.func.attr in ("abs", "absolute") and not node.args and _is_g(node.func.value):
            return True
        if (_call_name(node) in ABS_FUNCS or _call_name(node) == "abs") and len(node.args) == 1 and _is_g(node.args[0]):
            return True
    return False


def _reduce_all(node, funcs, method):
    """`f(X)` for f in funcs, or `X.method()`, with NO axis argument -> X, else None"""
    if isinstance(node, ast.Call) and not node.keywords:
        if _call_name(node) in funcs and len(node.args) == 1:
            return node.args[0]
        if isinstance(node.func, ast.Attribute) and node.func.attr in method and not node.args \
                and not isinstance(node.func.value, ast.Name):
            return node.func.value
    return None


def classify_norm(node, where):
    """NormKind of the expression whose value is added to `tiny` in the normalise line.  Only norms of the WHOLE tensor
    `dW_LA[i]` that the exact rational model can express are lifted:
        frobenius   sqrt of the sum of the squares of all entries (2-norm of the flattening; squared: rational)
        l1Flat      sum of the absolute values of all entries
        maxAbs      largest absolute value of an entry
    Everything else is refused with the kind named."""
    if not isinstance(node, ast.Call):
        raise _U(f"C16 lifter: {where}: the normaliser `{_src(node)}` is not a norm call")
    nm = _call_name(node)
    kw = {k.arg: k.value for k in node.keywords}
    if None in kw:
        raise _U(f"C16 lifter: {where}: `**` arguments in the norm call `{_src(node)}`")
    # ---- method form g.norm(..) is torch.norm(g, ..)
    args = list(node.args)
    if isinstance(node.func, ast.Attribute) and node.func.attr == "norm" and _is_g(node.func.value):
        nm, args = "torch.norm", [node.func.value] + args
    if nm in MATRIX_NORM_FUNCS:
        raise _U(f"C16 lifter: {where}: `{nm}` is a MATRIX norm (default 'fro'; 2 = spectral, 'nuc' = nuclear) and is undefined "
                 "for the 1-d bias tensors: norm kind `matrix_norm` is not modelled")
    if nm in NORM_FUNCS:
        if not args or not _is_g(args[0]):
            raise _U(f"C16 lifter: {where}: the norm is not taken of dW_LA[i]: {_src(node)}")
        for bad in ("dim", "axis", "keepdim", "keepdims", "dtype", "out"):
            if bad in kw:
                what = "per-axis norm (one norm per row/column, not one number per tensor)" if bad in ("dim", "axis", "keepdim", "keepdims") \
                    else f"`{bad}=` changes the arithmetic"
                raise _U(f"C16 lifter: {where}: `{_src(node)}`: norm kind `{bad}=...`: {what}; not modelled")
        if len(args) > 2:
            raise _U(f"C16 lifter: {where}: `{_src(node)}`: positional dim/axis argument: norm kind `per-axis` is not modelled")
        okw = "p" if nm == "torch.norm" else "ord"
        extra = set(kw) - {okw}
        if extra:
            raise _U(f"C16 lifter: {where}: `{_src(node)}`: unknown keyword(s) {sorted(extra)} of the norm call")
        if len(args) == 2 and okw in kw:
            raise _U(f"C16 lifter: {where}: `{_src(node)}`: the order is given twice")
        order = args[1] if len(args) == 2 else kw.get(okw)
        if order is None:
            return "frobenius"      # every one of these functions defaults to the 2-norm of the flattened tensor
        return _order_kind(order, nm, where)
    # ---- hand-written reductions over the whole tensor
    inner = _reduce_all(node, SQRT_FUNCS, ("sqrt",))
    if inner is not None:
        sq = _reduce_all(inner, SUM_FUNCS, ("sum",))
        if sq is not None and _square_of_g(sq):
            return "frobenius"
    ab = _reduce_all(node, SUM_FUNCS, ("sum",))
    if ab is not None and _abs_of_g(ab):
        return "l1Flat"
    ab = _reduce_all(node, MAX_FUNCS, ("max", "amax"))
    if ab is not None and _abs_of_g(ab):
        return "maxAbs"
    raise _U(f"C16 lifter: {where}: the normaliser `{_src(node)}` is not a norm of dW_LA[i] of a kind the lifter knows "
             "(frobenius / l1Flat / maxAbs)")


def _arith(node, env):
    """closed arithmetic over the named scalars/tensor coordinates -> Lean source"""
    if isinstance(node, ast.BinOp) and type(node.op) in (ast.Add, ast.Sub, ast.Mult, ast.Div):
        op = {ast.Add: "+", ast.Sub: "-", ast.Mult: "*", ast.Div: "/"}[type(node.op)]
        return f"({_arith(node.left, env)} {op} {_arith(node.right, env)})"
    if isinstance(node, ast.UnaryOp) and isinstance(node.op, ast.USub):
        return f"(-{_arith(node.operand, env)})"
    if isinstance(node, ast.Constant) and isinstance(node.value, int) and not isinstance(node.value, bool):
        return f"({node.value} : Rat)"
    key = _src(node)
    if key in env:
        return env[key]
    raise _U(f"C16 lifter: cannot translate `{key}` in the update expression")


def _find_loop(repo, rel, cls):
    with open(os.path.join(repo, rel)) as f:
        tree = normalize.parse(f.read())
    for c in tree.body:
        if isinstance(c, ast.ClassDef) and c.name == cls:
            for fn in c.body:
                if isinstance(fn, ast.FunctionDef) and fn.name == "train_step":
                    fn = normalize.canon_function(fn, PINNED_LOCALS.get(cls, []), extra_methods=PURE_TENSOR)
                    loops = [s for s in fn.body if isinstance(s, ast.For)]
                    if len(loops) != 1:
                        raise _U(f"C16 lifter: {rel}: expected exactly one for-loop in train_step, found {len(loops)}")
                    return loops[0], fn
    raise _U(f"C16 lifter: {rel}: {cls}.train_step not found")


def lift_engine(repo, rel, cls):
    loop, fn = _find_loop(repo, rel, cls)
    body = loop.body
    if len(body) != 3 or not all(isinstance(s, ast.Assign) and len(s.targets) == 1 for s in body):
        raise _U(f"C16 lifter: {rel}: loop body is not the three assignments normalise/project/combine")
    s_unit, s_proj, s_grad = body
    if _src(s_unit.targets[0]) != "unit_dW_LA" or _src(s_proj.targets[0]) != "proj":
        raise _U(f"C16 lifter: {rel}: unexpected assignment targets {_src(s_unit.targets[0])}, {_src(s_proj.targets[0])}")
    tgt = _src(s_grad.targets[0])
    if tgt not in ("p.grad", "dW_LP[i]"):
        raise _U(f"C16 lifter: {rel}: combined gradient is stored in `{tgt}`")
    # normalise line:  dW_LA[i] / (norm(dW_LA[i]) + <tiny>)
    v = s_unit.value
    if isinstance(v, ast.BinOp) and isinstance(v.op, ast.Div) and isinstance(v.right, ast.BinOp) \
            and isinstance(v.right.op, ast.Add) and not isinstance(v.right.left, ast.Call) and isinstance(v.right.right, ast.Call):
        # `tiny + norm(..)`: addition of two floats commutes bit for bit; matched (and emitted) as `norm(..) + tiny`
        v = ast.BinOp(left=v.left, op=v.op, right=ast.BinOp(left=v.right.right, op=ast.Add(), right=v.right.left))
    ok = (isinstance(v, ast.BinOp) and isinstance(v.op, ast.Div) and isinstance(v.right, ast.BinOp)
          and isinstance(v.right.op, ast.Add) and isinstance(v.right.left, ast.Call) and _is_sub(v.left, "dW_LA"))
    if not ok:
        raise _U(f"C16 lifter: {rel}: normalise line of unknown shape: {_src(v)}")
    norm_kind = classify_norm(v.right.left, rel)
    tiny_kind = classify_tiny(v.right.right)
    env_unit = {"dW_LA[i]": "dW_LA", _src(v.right.left): "norm", _src(v.right.right): "tiny"}
    unit_expr = _arith(v, env_unit)
    inner_kind = classify_inner(s_proj.value)
    env_grad = {"dW_LP[i]": "dW_LP", "dW_LA[i]": "dW_LA", "unit_dW_LA": "unit_dW_LA", "proj": "proj",
                "self.base.alpha": "alpha"}
    grad_expr = _arith(s_grad.value, env_grad)
    # the tensors the loop reads must be the two gradient lists of the predictor's parameters
    return dict(inner=inner_kind, tiny=tiny_kind, norm=norm_kind, unit=unit_expr, grad=grad_expr,
                src_unit=_src(s_unit), src_proj=_src(s_proj), src_grad=_src(s_grad))


def lift_tf_sources(repo, rel, cls):
    """TensorFlow only (cannot be executed here): which loss each gradient list differentiates, w.r.t. whose
    variables, and which list each optimiser applies to whose variables."""
    _, fn = _find_loop(repo, rel, cls)
    players = {"self.predictor_model.trainable_variables": "predictor", "self.adversary_model.trainable_variables": "adversary"}
    grads, applied = {}, {}
    for st in fn.body:
        if isinstance(st, ast.Assign) and len(st.targets) == 1 and isinstance(st.targets[0], ast.Name) \
                and isinstance(st.value, ast.Call) and _call_name(st.value) == "tape.gradient":
            a = st.value.args
            if len(a) != 2 or st.value.keywords or not isinstance(a[0], ast.Name) or a[0].id not in ("LP", "LA") \
                    or _src(a[1]) not in players:
                raise _U(f"C16 lifter: {rel}: tape.gradient call of unknown shape: {_src(st)}")
            grads[st.targets[0].id] = (a[0].id, players[_src(a[1])])
        if isinstance(st, ast.Expr) and isinstance(st.value, ast.Call) and _call_name(st.value).endswith("apply_gradients"):
            who = _call_name(st.value)
            arg = st.value.args[0] if len(st.value.args) == 1 else None
            ok = (who in ("self.predictor_optimizer.apply_gradients", "self.adversary_optimizer.apply_gradients")
                  and isinstance(arg, ast.Call) and _call_name(arg) == "zip" and len(arg.args) == 2
                  and isinstance(arg.args[0], ast.Name) and _src(arg.args[1]) in players)
            if not ok:
                raise _U(f"C16 lifter: {rel}: apply_gradients call of unknown shape: {_src(st)}")
            applied[who.split(".")[1].split("_")[0]] = (arg.args[0].id, players[_src(arg.args[1])])
    if set(grads) != {"dW_LP", "dU_LA", "dW_LA"} or set(applied) != {"predictor", "adversary"}:
        raise _U(f"C16 lifter: {rel}: expected gradient lists dW_LP/dU_LA/dW_LA and two apply_gradients calls, "
                 f"found {sorted(grads)} / {sorted(applied)}")
    # the names the loop combines must be the ones the predictor optimiser applies
    return grads, applied


@translate.lifter
def adv_projection(repo):
    out = ["/-", "GENERATED by harness/lifters/adv_projection.py from fairlearn/adversarial/_pytorch_engine.py and",
           "_tensorflow_engine.py (`train_step`, loop over the predictor's parameter tensors). Do not edit.", "-/", "",
           "namespace AdvProjection", "",
           "/-- which bilinear form the `proj = ...` line evaluates on two equally shaped tensors:",
           "    `frobenius` = sum of the elementwise products; `sumInner` = `torch.sum(torch.inner(U, G))`,",
           "    the sum of the inner products of ALL pairs of rows. -/",
           "inductive InnerKind where", "  | frobenius", "  | sumInner", "deriving DecidableEq, Repr", "",
           "/-- which `tiny` is added to the float32 norm: the float64 one (2.2e-308) underflows to 0 in float32",
           "    arithmetic, so a zero gradient tensor is normalised as 0/0. -/",
           "inductive TinyKind where", "  | float64", "  | float32", "deriving DecidableEq, Repr", "",
           "/-- which norm of the WHOLE tensor `dW_LA[i]` the normalise line divides by:",
           "    `frobenius` = sqrt of the sum of the squares of all entries (2-norm of the flattening: `torch.norm(g)`, `g.norm()`,",
           "    `torch.linalg.norm(g)`, `torch.linalg.vector_norm(g)`, `tensorflow.norm(g)`, `sqrt(sum(g*g))`);",
           "    `l1Flat` = sum of the absolute values (`torch.norm(g, p=1)`, `g.abs().sum()`);",
           "    `maxAbs` = largest absolute value (`torch.norm(g, p=float('inf'))`, `g.abs().max()`).",
           "    Spectral / nuclear / per-axis (`dim=`) / rank-dependent `torch.linalg.norm(g, ord)` norms are REFUSED by the lifter. -/",
           "inductive NormKind where", "  | frobenius", "  | l1Flat", "  | maxAbs", "deriving DecidableEq, Repr", ""]
    meta = {}
    for eng, rel, cls in ENGINES:
        r = lift_engine(repo, rel, cls)
        meta[eng] = {"inner": r["inner"], "tiny": r["tiny"], "norm": r["norm"]}
        actual_unit_src = r["src_unit"]
        norm, src_norm = _pin(eng + "Norm", "." + r["norm"], r["src_unit"])
        inner, r["src_proj"] = _pin(eng + "Inner", "." + r["inner"], r["src_proj"])
        tiny, r["src_unit"] = _pin(eng + "Tiny", "." + r["tiny"], r["src_unit"])
        r["inner"], r["tiny"] = inner[1:], tiny[1:]
        r["unit"], _ = _pin(eng + "Unit", r["unit"], None)
        if r["unit"] != PINNED_DEFS[eng + "Unit"][0]:
            r["src_unit"] = actual_unit_src         # the quoted normalise line also documents `<eng>Unit`
        r["grad"], r["src_grad"] = _pin(eng + "Grad", r["grad"], r["src_grad"])
        out += [f"/-- {rel}: `{r['src_proj']}` -/",
                f"def {eng}Inner : InnerKind := .{r['inner']}", "",
                f"/-- {rel}: `{r['src_unit']}` -/",
                f"def {eng}Tiny : TinyKind := .{r['tiny']}", "",
                f"/-- {rel}: `{src_norm}` -/",
                f"def {eng}Norm : NormKind := {norm}", "",
                f"def {eng}Unit (dW_LA norm tiny : Rat) : Rat := {r['unit']}", "",
                f"/-- {rel}: `{r['src_grad']}` (per coordinate) -/",
                f"def {eng}Grad (dW_LP unit_dW_LA dW_LA proj alpha : Rat) : Rat := {r['grad']}", ""]
    grads, applied = lift_tf_sources(repo, ENGINES[1][1], ENGINES[1][2])
    meta["tf"]["gradients"] = {k: list(v) for k, v in sorted(grads.items())}
    meta["tf"]["applied"] = {k: list(v) for k, v in sorted(applied.items())}
    out += ["inductive Loss where", "  | LP", "  | LA", "deriving DecidableEq, Repr", "",
            "inductive Player where", "  | predictor", "  | adversary", "deriving DecidableEq, Repr", "",
            "/-- (loss differentiated, whose trainable variables) of a `tape.gradient` call -/",
            "structure GradSrc where", "  loss : Loss", "  wrt : Player", "deriving DecidableEq, Repr", ""]
    for name in ("dW_LP", "dW_LA", "dU_LA"):
        loss, wrt = grads[name]
        out += [f"/-- _tensorflow_engine.py: `{name} = tape.gradient({loss}, self.{wrt}_model.trainable_variables)` -/",
                f"def tf_{name} : GradSrc := ⟨.{loss}, .{wrt}⟩", ""]
    for who in ("predictor", "adversary"):
        lst, vars_ = applied[who]
        out += [f"/-- _tensorflow_engine.py: `self.{who}_optimizer.apply_gradients(zip({lst}, self.{vars_}_model.trainable_variables))`;",
                f"    the gradient list applied (after the loop rewrote `dW_LP[i]` in place) and whose variables it updates -/",
                f"def tf_{who}_applies : GradSrc × Player := (tf_{lst}, .{vars_})", ""]
    out += ["end AdvProjection", ""]
    return "AdvProjection.lean", "\n".join(out), meta
