"""Lifter for the PREDICT path of ThresholdOptimizer:

  fairlearn/postprocessing/_threshold_operation.py      ThresholdOperation.__call__: which comparison each operator string
                                                         stands for, and which side the threshold is on
  fairlearn/postprocessing/_interpolated_thresholder.py InterpolatedThresholder._pmf_predict: the start value of
                                                         positive_probs, the interpolation expression, the p_ignore mixing
                                                         expression and its guard, the row mask, the two returned columns;
                                                         InterpolatedThresholder.predict: the pmf column used, the
                                                         comparison with the uniform draws and their number
  fairlearn/postprocessing/_threshold_optimizer.py       ThresholdOptimizer.predict / _pmf_predict delegate to the
                                                         fitted InterpolatedThresholder with the same arguments

and writes lean/FairModel/Generated/ThresholderSrc.lean.  `Model/Threshold.lean` (ruleProb, Op.apply) and `Model/Pmf.lean`
(ThrOp.apply, Rule.interp, Rule.positive, thrPositive, pmfRow, bernoulli) are defined over it.  Unknown shapes are refused.
"""
import ast

from .. import translate
from . import normalize
from ..translate import Untranslatable
from .threshold import _expr, _str_const, parse_top
from .tradeoff import CMP, _body, _int, _name, _single_assigns, only_statements

OPF = "fairlearn/postprocessing/_threshold_operation.py"
ITF = "fairlearn/postprocessing/_interpolated_thresholder.py"
TOF = "fairlearn/postprocessing/_threshold_optimizer.py"
PINNED_OPF = {"ThresholdOperation.__init__": [], "ThresholdOperation.__call__": []}
# the arithmetic terms this lifter emits for the pinned source (see tradeoff.PINNED_TERMS)
PINNED_TERMS = ["((0 : Rat) * s)", "((p0 * o0) + (p1 * o1))", "((pi * c) + (((1 : Rat) - pi) * v))"]
FLIP = {ast.LtE: ast.GtE, ast.Lt: ast.Gt, ast.GtE: ast.LtE, ast.Gt: ast.Lt}


def _pin(term):
    return normalize.lean_prefer(term, PINNED_TERMS)


PINNED_ITF = {
    "InterpolatedThresholder._pmf_predict": ["base_predictions", "_", "base_predictions_vector", "sensitive_feature_vector",
                                             "positive_probs", "a", "interpolation", "interpolated_predictions"],
    "InterpolatedThresholder.predict": ["positive_probs"],
}


def U(msg):
    return Untranslatable("thresholder lifter: " + msg)


def _method(tree, cls, name):
    for n in ast.walk(tree):
        if isinstance(n, ast.ClassDef) and n.name == cls:
            for f in n.body:
                if isinstance(f, ast.FunctionDef) and f.name == name:
                    return f
    raise U(f"{cls}.{name} not found")


def _self_attr(n, attr=None):
    return (isinstance(n, ast.Attribute) and isinstance(n.value, ast.Name) and n.value.id == "self"
            and (attr is None or n.attr == attr))


def _operation(tree):
    """operator string -> Lean comparison `s <op> t` (s = the score, t = the threshold)"""
    init = _method(tree, "ThresholdOperation", "__init__")
    params = [a.arg for a in init.args.args]
    if params != ["self", "operator", "threshold"]:
        raise U("ThresholdOperation.__init__ signature changed")
    stored = {}
    for s in init.body:
        if isinstance(s, ast.Assign) and len(s.targets) == 1 and _self_attr(s.targets[0]) and isinstance(s.value, ast.Name):
            stored[s.targets[0].attr] = s.value.id
    op_attr = [k for k, v in stored.items() if v == "operator"]
    th_attr = [k for k, v in stored.items() if v == "threshold"]
    if len(op_attr) != 1 or len(th_attr) != 1:
        raise U("ThresholdOperation.__init__ does not store operator / threshold once each")
    call = _method(tree, "ThresholdOperation", "__call__")
    call_body = normalize.fold_early_exits(_body(call))       # `if ..: return` sequences as the if / elif / else chain
    only_statements("ThresholdOperation.__call__", call_body, If=2, Return=2, Raise=1)
    if [a.arg for a in call.args.args][0] != "self" or len(call.args.args) != 2:
        raise U("ThresholdOperation.__call__ signature changed")
    y = call.args.args[1].arg
    out = {}
    node = call_body
    if len(node) != 1 or not isinstance(node[0], ast.If):
        raise U("ThresholdOperation.__call__ is not a single if / elif chain")
    cur = node[0]
    while True:
        t = cur.test
        if not (isinstance(t, ast.Compare) and len(t.ops) == 1 and isinstance(t.ops[0], ast.Eq) and _self_attr(t.left, op_attr[0])):
            raise U("ThresholdOperation.__call__: branch condition is not `self._operator == <str>`")
        sym = _str_const(t.comparators[0], "operator string")
        if len(cur.body) != 1 or not isinstance(cur.body[0], ast.Return):
            raise U("ThresholdOperation.__call__: branch body is not a single return")
        c = cur.body[0].value
        if not (isinstance(c, ast.Compare) and len(c.ops) == 1 and type(c.ops[0]) in CMP):
            raise U("ThresholdOperation.__call__: branch does not return a single comparison")
        l, r = c.left, c.comparators[0]
        if isinstance(l, ast.Name) and l.id == y and _self_attr(r, th_attr[0]):
            expr = f"decide (s {CMP[type(c.ops[0])]} t)"
        elif isinstance(r, ast.Name) and r.id == y and _self_attr(l, th_attr[0]):
            expr = f"decide (s {CMP[FLIP[type(c.ops[0])]]} t)"        # `t < s` is `s > t`: the score goes on the left
        else:
            raise U("ThresholdOperation.__call__: comparison is not between y_hat and self._threshold")
        if sym in out:
            raise U(f"ThresholdOperation.__call__: operator {sym} handled twice")
        out[sym] = (expr, ast.unparse(c))
        if len(cur.orelse) == 1 and isinstance(cur.orelse[0], ast.If):
            cur = cur.orelse[0]
            continue
        if not (len(cur.orelse) == 1 and isinstance(cur.orelse[0], ast.Raise)):
            raise U("ThresholdOperation.__call__: chain does not end in `else: raise`")
        break
    if sorted(out) != ["<", ">"]:
        raise U(f"ThresholdOperation.__call__ handles {sorted(out)}")
    return out


def _pmf(tree):
    fn = _method(tree, "InterpolatedThresholder", "_pmf_predict")
    body = _body(fn)
    only_statements("_pmf_predict", body, allowed_expr_calls=("check_is_fitted",), Assign=6, For=1, If=1, Return=1)
    kwonly = [a.arg for a in fn.args.kwonlyargs]
    if [a.arg for a in fn.args.args] != ["self", "X"] or kwonly != ["sensitive_features"]:
        raise U("_pmf_predict signature changed")
    assigns, _ = _single_assigns(body)
    # (_, scores, sf, _) = _validate_and_reformat_input(X, y=<soft predictions>, sensitive_features=sensitive_features, ...)
    tup = [s for s in body if isinstance(s, ast.Assign) and isinstance(s.targets[0], ast.Tuple)]
    if len(tup) != 1 or len(tup[0].targets[0].elts) != 4:
        raise U("_pmf_predict: 4-tuple from _validate_and_reformat_input not found")
    elts = [_name(e, "tuple element") for e in tup[0].targets[0].elts]
    scores, sf = elts[1], elts[2]
    v = tup[0].value
    if not (isinstance(v, ast.Call) and isinstance(v.func, ast.Name) and v.func.id == "_validate_and_reformat_input"):
        raise U("_pmf_predict: tuple does not come from _validate_and_reformat_input")
    kw = {k.arg: k.value for k in v.keywords}
    if not (isinstance(kw.get("sensitive_features"), ast.Name) and kw["sensitive_features"].id == "sensitive_features"):
        raise U("_pmf_predict: sensitive_features is not forwarded")
    yv = kw.get("y")
    if isinstance(yv, ast.Name) and yv.id in assigns:
        src = assigns[yv.id]
    elif isinstance(yv, ast.Call):
        src = yv                # the local inlined into the call
    else:
        raise U("_pmf_predict: y= is not the local array of base predictions")
    if "_get_soft_predictions" not in ast.unparse(src):
        raise U("_pmf_predict: base predictions do not come from _get_soft_predictions")
    # positive_probs = C * scores
    loops = [s for s in body if isinstance(s, ast.For)]
    rets = [s for s in body if isinstance(s, ast.Return)]
    if len(loops) != 1 or len(rets) != 1 or body[-1] is not rets[0]:
        raise U("_pmf_predict: expected one for loop and a final return")
    loop = loops[0]
    if not (isinstance(loop.iter, ast.Call) and isinstance(loop.iter.func, ast.Attribute) and loop.iter.func.attr == "items"
            and _self_attr(loop.iter.func.value, "interpolation_dict") and isinstance(loop.target, ast.Tuple)
            and len(loop.target.elts) == 2 and not loop.orelse):
        raise U("_pmf_predict: loop is not `for a, interpolation in self.interpolation_dict.items()`")
    key, ip = [_name(e, "loop target") for e in loop.target.elts]
    if len(loop.body) != 3:
        raise U("_pmf_predict: loop body is not interpolation, p_ignore guard, masked assignment")
    s_int, s_if, s_mask = loop.body
    if not (isinstance(s_int, ast.Assign) and len(s_int.targets) == 1):
        raise U("_pmf_predict: interpolation assignment changed")
    var = _name(s_int.targets[0], "interpolated predictions")

    def atom_interp(node):
        if isinstance(node, ast.Attribute) and isinstance(node.value, ast.Name) and node.value.id == ip:
            if node.attr in ("p0", "p1"):
                return node.attr
            raise U(f"_pmf_predict: field {node.attr} in the interpolation expression")
        if isinstance(node, ast.Call) and isinstance(node.func, ast.Attribute) and isinstance(node.func.value, ast.Name) \
                and node.func.value.id == ip and node.func.attr in ("operation0", "operation1"):
            if not (len(node.args) == 1 and not node.keywords and isinstance(node.args[0], ast.Name) and node.args[0].id == scores):
                raise U("_pmf_predict: an operation is not applied to the base prediction vector")
            return "o" + node.func.attr[-1]
        if isinstance(node, (ast.Name, ast.Call)):
            raise U(f"_pmf_predict: unknown term {ast.unparse(node)[:50]} in the interpolation expression")
        return None
    interp = _pin(_expr(s_int.value, atom_interp))
    # if "p_ignore" in interpolation:
    t = s_if.test if isinstance(s_if, ast.If) else None
    if not (t is not None and isinstance(t, ast.Compare) and len(t.ops) == 1 and isinstance(t.ops[0], ast.In)
            and isinstance(t.left, ast.Constant) and t.left.value == "p_ignore" and isinstance(t.comparators[0], ast.Name)
            and t.comparators[0].id == ip and not s_if.orelse and len(s_if.body) == 1):
        raise U('_pmf_predict: guard is not `if "p_ignore" in interpolation:` with a single statement')
    s_ign = s_if.body[0]
    if not (isinstance(s_ign, ast.Assign) and len(s_ign.targets) == 1 and isinstance(s_ign.targets[0], ast.Name)
            and s_ign.targets[0].id == var):
        raise U("_pmf_predict: the p_ignore branch does not reassign the interpolated predictions")

    def atom_ign(node):
        if isinstance(node, ast.Attribute) and isinstance(node.value, ast.Name) and node.value.id == ip:
            if node.attr == "p_ignore":
                return "pi"
            if node.attr == "prediction_constant":
                return "c"
            raise U(f"_pmf_predict: field {node.attr} in the p_ignore expression")
        if isinstance(node, ast.Name):
            if node.id == var:
                return "v"
            raise U(f"_pmf_predict: unknown name {node.id} in the p_ignore expression")
        if isinstance(node, ast.Call):
            raise U("_pmf_predict: call in the p_ignore expression")
        return None
    ign = _pin(_expr(s_ign.value, atom_ign))
    # positive_probs[sf == a] = interpolated_predictions[sf == a]
    def mask(node, base):
        if isinstance(node, ast.Subscript) and isinstance(node.value, ast.Name) and node.value.id == base:
            m = node.slice
            if isinstance(m, ast.Compare) and len(m.ops) == 1 and isinstance(m.ops[0], ast.Eq):
                names = sorted(x.id for x in (m.left, m.comparators[0]) if isinstance(x, ast.Name))
                if names == sorted([sf, key]):
                    return True
        return False
    if not (isinstance(s_mask, ast.Assign) and len(s_mask.targets) == 1 and isinstance(s_mask.targets[0], ast.Subscript)
            and isinstance(s_mask.targets[0].value, ast.Name)):
        raise U("_pmf_predict: masked assignment changed")
    probs = s_mask.targets[0].value.id
    if not (mask(s_mask.targets[0], probs) and mask(s_mask.value, var)):
        raise U("_pmf_predict: rows are not selected by `sensitive_feature_vector == a` on both sides")
    init = assigns.get(probs)

    def atom_init(node):
        if isinstance(node, ast.Name):
            if node.id == scores:
                return "s"
            raise U(f"_pmf_predict: unknown name {node.id} in the start value")
        return None
    if init is None:
        raise U("_pmf_predict: start value of positive_probs not found")
    init_e = _pin(_expr(init, atom_init))
    # return np.array([1.0 - positive_probs, positive_probs]).transpose()
    rv = rets[0].value
    if not (isinstance(rv, ast.Call) and isinstance(rv.func, ast.Attribute) and rv.func.attr == "transpose" and not rv.args
            and isinstance(rv.func.value, ast.Call) and len(rv.func.value.args) == 1
            and isinstance(rv.func.value.args[0], ast.List) and len(rv.func.value.args[0].elts) == 2):
        raise U("_pmf_predict: return value is not np.array([<col0>, <col1>]).transpose()")

    def atom_ret(node):
        if isinstance(node, ast.Name):
            if node.id == probs:
                return "p"
            raise U(f"_pmf_predict: unknown name {node.id} in the returned columns")
        return None
    cols = [_expr(e, atom_ret) for e in rv.func.value.args[0].elts]
    return {"interp": interp, "ign": ign, "init": init_e, "col0": cols[0], "col1": cols[1]}


def _predict(tree):
    fn = _method(tree, "InterpolatedThresholder", "predict")
    body = _body(fn)
    only_statements("InterpolatedThresholder.predict", body, allowed_expr_calls=("check_is_fitted",), Assign=2, Return=1)
    assigns, _ = _single_assigns(body)
    rets = [s for s in body if isinstance(s, ast.Return)]
    if len(rets) != 1:
        raise U("predict: not exactly one return")
    rv = rets[0].value
    # (positive_probs >= random_state.rand(len(positive_probs))) * 1
    if isinstance(rv, ast.BinOp) and isinstance(rv.op, ast.Mult) and isinstance(rv.left, ast.Constant) \
            and isinstance(rv.right, ast.Compare):
        rv = ast.BinOp(left=rv.right, op=rv.op, right=rv.left)        # `1 * (...)` is `(...) * 1`
    if not (isinstance(rv, ast.BinOp) and isinstance(rv.op, ast.Mult) and isinstance(rv.right, ast.Constant)
            and rv.right.value == 1 and not isinstance(rv.right.value, bool)
            and isinstance(rv.left, ast.Compare) and len(rv.left.ops) == 1 and type(rv.left.ops[0]) in CMP):
        raise U("predict: return value is not `(<probs> <cmp> <draws>) * 1`")
    c = rv.left

    def is_rand(n):
        return (isinstance(n, ast.Call) and isinstance(n.func, ast.Attribute) and n.func.attr == "rand"
                and isinstance(n.func.value, ast.Name) and n.func.value.id == "random_state" and len(n.args) == 1)
    l, r = c.left, c.comparators[0]
    if isinstance(l, ast.Name) and is_rand(r):
        probs, rnd, expr = l.id, r, f"decide (p {CMP[type(c.ops[0])]} u)"
    elif isinstance(r, ast.Name) and is_rand(l):
        probs, rnd, expr = r.id, l, f"decide (p {CMP[FLIP[type(c.ops[0])]]} u)"       # `u <= p` is `p >= u`
    else:
        raise U("predict: comparison is not between the probabilities and random_state.rand(...)")
    a = rnd.args[0]
    if not (isinstance(a, ast.Call) and isinstance(a.func, ast.Name) and a.func.id == "len" and len(a.args) == 1
            and isinstance(a.args[0], ast.Name) and a.args[0].id == probs):
        raise U("predict: the number of draws is not len(<probs>)")
    src = assigns.get(probs)
    if not (isinstance(src, ast.Subscript) and isinstance(src.slice, ast.Tuple) and len(src.slice.elts) == 2
            and isinstance(src.slice.elts[0], ast.Slice) and src.slice.elts[0].lower is None and src.slice.elts[0].upper is None
            and isinstance(src.value, ast.Call) and isinstance(src.value.func, ast.Attribute)
            and src.value.func.attr == "_pmf_predict" and _self_attr(src.value.func)):
        raise U("predict: probabilities are not `self._pmf_predict(...)[:, k]`")
    col = _int(src.slice.elts[1], "pmf column")
    call = src.value
    kw = {k.arg: k.value for k in call.keywords}
    if not (len(call.args) == 1 and isinstance(call.args[0], ast.Name) and call.args[0].id == "X"
            and isinstance(kw.get("sensitive_features"), ast.Name) and kw["sensitive_features"].id == "sensitive_features"):
        raise U("predict: X / sensitive_features are not forwarded to _pmf_predict")
    rs = assigns.get("random_state")
    if not (isinstance(rs, ast.Call) and isinstance(rs.func, ast.Name) and rs.func.id == "check_random_state"
            and len(rs.args) == 1 and isinstance(rs.args[0], ast.Name) and rs.args[0].id == "random_state"):
        raise U("predict: random_state is not passed through check_random_state")
    return {"draw": expr, "col": col}


def _delegation(tree):
    for name in ("predict", "_pmf_predict"):
        fn = _method(tree, "ThresholdOptimizer", name)
        only_statements("ThresholdOptimizer." + name, _body(fn), allowed_expr_calls=("check_is_fitted",), Return=1)
        rets = [s for s in _body(fn) if isinstance(s, ast.Return)]
        if len(rets) != 1:
            raise U(f"ThresholdOptimizer.{name}: not exactly one return")
        c = rets[0].value
        if not (isinstance(c, ast.Call) and isinstance(c.func, ast.Attribute) and c.func.attr == name
                and _self_attr(c.func.value, "interpolated_thresholder_") and len(c.args) == 1
                and isinstance(c.args[0], ast.Name) and c.args[0].id == "X"):
            raise U(f"ThresholdOptimizer.{name} does not delegate to interpolated_thresholder_.{name}(X, ...)")
        for kw in c.keywords:
            if not (isinstance(kw.value, ast.Name) and kw.value.id == kw.arg):
                raise U(f"ThresholdOptimizer.{name}: keyword {kw.arg} is not forwarded unchanged")
        want = ["random_state", "sensitive_features"] if name == "predict" else ["sensitive_features"]
        if sorted(k.arg for k in c.keywords) != want:
            raise U(f"ThresholdOptimizer.{name}: forwarded keywords {sorted(k.arg for k in c.keywords)}")


@translate.lifter
def lift_thresholder(repo):
    ops = _operation(normalize.canon_tree(normalize.parse(translate._read(repo, OPF)), PINNED_OPF))
    it = normalize.canon_tree(normalize.parse(translate._read(repo, ITF)), PINNED_ITF,
                              extra_funcs=("_get_soft_predictions", "check_random_state"),
                              extra_methods=("operation0", "operation1"))
    pm = _pmf(it)
    pr = _predict(it)
    _delegation(parse_top(repo))
    L = ["/-\nGENERATED by harness/lifters/thresholder.py from\n  " + "\n  ".join([OPF, ITF, TOF]) +
         "\nDo not edit: rewritten on every run from the tree under check.\n-/\nset_option linter.unusedVariables false\n",
         "namespace ThresholderSrc\n"]
    L.append("/-! ### `ThresholdOperation.__call__` (s = the score, t = a FINITE threshold) -/")
    L.append(f"/-- operator \">\" -/\ndef opGt (s t : Rat) : Bool := {ops['>'][0]}")
    L.append(f"/-- operator \"<\" -/\ndef opLt (s t : Rat) : Bool := {ops['<'][0]}\n")
    L.append("/-! ### `InterpolatedThresholder._pmf_predict` (o0 / o1 = operation0 / operation1 applied to the score, as 0/1) -/")
    L.append(f"/-- start value of `positive_probs` (s = the score) -/\ndef initialProb (s : Rat) : Rat := {pm['init']}")
    L.append(f"def interp (p0 o0 p1 o1 : Rat) : Rat := {pm['interp']}")
    L.append(f"/-- applied iff the Bunch has the key \"p_ignore\" (pi = p_ignore, c = prediction_constant, v = the interpolation) -/")
    L.append(f"def withIgnore (pi c v : Rat) : Rat := {pm['ign']}")
    L.append(f"/-- the two returned columns -/\ndef col0 (p : Rat) : Rat := {pm['col0']}\ndef col1 (p : Rat) : Rat := {pm['col1']}\n")
    L.append("/-! ### `InterpolatedThresholder.predict` -/")
    L.append(f"/-- column of `_pmf_predict` that is compared with the draws -/\ndef probColumn : Nat := {pr['col']}")
    L.append(f"/-- label 1 iff (p = reported probability, u = the uniform draw of the row); one draw per row: `rand(len(p))` -/")
    L.append(f"def drawsOne (p u : Rat) : Bool := {pr['draw']}")
    L.append("\nend ThresholderSrc\n")
    return "ThresholderSrc.lean", "\n".join(L), {"gt": ops[">"][1], "lt": ops["<"][1], "draw": pr["draw"]}
