"""Lifter for the argument plumbing of fairlearn/metrics/_make_derived_metric.py -> Generated/DerivedSpec.lean

From `_DerivedMetric.__init__`:
  * the validation steps in source order, each `raise ValueError(...)`:
        if not callable(metric)                                   -> "callable"
        sig = inspect.signature(metric)                            -> "signature"  (TypeError for a non-callable)
        for p in parameters_for_transforms: if p in sig.parameters -> "reserved_in_signature"
        if transform not in transform_options                      -> "transform_option"
  * `sample_param_names=None` means "no sample parameters" (the `[]` default that is overwritten only if not None).
From `_DerivedMetric.__call__`:
  * the if/elif/else chain that splits `**other_params` into three dicts, as an ordered list of
    (membership test, destination): destination = role of the dict the branch writes to, where the ROLE is
    determined by how the dict is used afterwards (`functools.partial(self._metric_fn, **X)` = bound,
    `MetricFrame(..., sample_params=X)` = sample, `all_metrics.<m>(**X)` = transform) — not by its name;
  * that `sensitive_features` is keyword-only and required;
  * how the metric's `__name__` is obtained: a plain attribute read (a callable without `__name__` raises
    AttributeError at call time) or `getattr(..., "__name__", <fallback>)`; any other shape is refused.
Anything of another shape is refused."""
import ast
import os

from .. import translate
from . import normalize

MDM = "fairlearn/metrics/_make_derived_metric.py"


def U(msg):
    return translate.Untranslatable(f"{MDM}: {msg}")


def lstr(s):
    return '"' + s + '"'


def raises_value_error(body):
    return (len(body) == 1 and isinstance(body[0], ast.Raise) and isinstance(body[0].exc, ast.Call)
            and isinstance(body[0].exc.func, ast.Name) and body[0].exc.func.id == "ValueError")


def lift_init(init):
    args = [a.arg for a in init.args.kwonlyargs]
    if [a.arg for a in init.args.args] != ["self"] or args != ["metric", "transform", "sample_param_names"]:
        raise U(f"__init__ signature {[a.arg for a in init.args.args]} * {args}")
    checks = []
    none_means_empty = spn_stored = False
    sig_var = None
    for s in init.body:
        if isinstance(s, ast.Expr) and isinstance(s.value, ast.Constant):
            continue
        src = ast.unparse(s)
        if isinstance(s, ast.If) and src.startswith("if not callable(metric):"):
            if not raises_value_error(s.body) or s.orelse:
                raise U("callable check does not raise ValueError")
            checks.append("callable")
        elif isinstance(s, ast.Assign) and ast.unparse(s.value) == "inspect.signature(metric)" and isinstance(s.targets[0], ast.Name):
            sig_var = s.targets[0].id
            checks.append("signature")        # inspect.signature(<non-callable>) raises TypeError: its position matters
        elif isinstance(s, ast.For):
            if not (ast.unparse(s.iter) == "parameters_for_transforms" and isinstance(s.target, ast.Name) and len(s.body) == 1
                    and isinstance(s.body[0], ast.If) and sig_var is not None
                    and ast.unparse(s.body[0].test) == f"{s.target.id} in {sig_var}.parameters"
                    and raises_value_error(s.body[0].body) and not s.body[0].orelse and not s.orelse):
                raise U(f"reserved-parameter loop has an unknown shape: {src[:80]}")
            checks.append("reserved_in_signature")
        elif isinstance(s, ast.If) and ast.unparse(s.test) == "transform not in transform_options":
            if not raises_value_error(s.body) or s.orelse:
                raise U("transform check does not raise ValueError")
            checks.append("transform_option")
        elif src in ("self._metric_fn = metric", "self._transform = transform"):
            continue
        elif src == "self._sample_param_names = []":
            none_means_empty = True
        elif src == "self._sample_param_names = sample_param_names if sample_param_names is not None else []" \
                or src == "self._sample_param_names = [] if sample_param_names is None else sample_param_names":
            none_means_empty = spn_stored = True          # the same default handling in one statement
        elif isinstance(s, ast.If) and ast.unparse(s.test) == "sample_param_names is None" \
                and [ast.unparse(x) for x in s.body] == ["self._sample_param_names = []"] \
                and [ast.unparse(x) for x in s.orelse] == ["self._sample_param_names = sample_param_names"]:
            none_means_empty = spn_stored = True          # ... or as if/else
        elif isinstance(s, ast.If) and ast.unparse(s.test) == "sample_param_names is not None" and s.orelse:
            if [ast.unparse(x) for x in s.body] != ["self._sample_param_names = sample_param_names"] \
                    or [ast.unparse(x) for x in s.orelse] != ["self._sample_param_names = []"]:
                raise U("sample_param_names default handling")
            none_means_empty = spn_stored = True
        elif isinstance(s, ast.If) and ast.unparse(s.test) == "sample_param_names is not None":
            if [ast.unparse(x) for x in s.body] != ["self._sample_param_names = sample_param_names"] or s.orelse \
                    or not none_means_empty:
                raise U("sample_param_names default handling")
            spn_stored = True
        else:
            raise U(f"__init__: unknown statement `{src[:80]}`")
    if sorted(checks) != ["callable", "reserved_in_signature", "signature", "transform_option"]:
        raise U(f"__init__ validation steps {checks}")
    if not none_means_empty or not spn_stored:
        raise U("__init__: sample_param_names=None is not mapped to [] / the given names are not stored")
    return checks


def lift_call(call, partial_imported=False):
    a = call.args
    if [x.arg for x in a.args] != ["self", "y_true", "y_pred"] or [x.arg for x in a.kwonlyargs] != ["sensitive_features"] \
            or a.kw_defaults != [None] or a.vararg is not None or a.kwarg is None:
        raise U("__call__ signature is not (self, y_true, y_pred, *, sensitive_features, **other_params)")
    other = a.kwarg.arg
    # the three dicts
    dicts = [s.targets[0].id for s in call.body if isinstance(s, ast.Assign) and isinstance(s.targets[0], ast.Name)
             and ast.unparse(s.value) in ("dict()", "{}")]
    loop = next((s for s in call.body if isinstance(s, ast.For) and ast.unparse(s.iter) == f"{other}.items()"), None)
    if loop is None or not (isinstance(loop.target, ast.Tuple) and len(loop.target.elts) == 2) or len(loop.body) != 1 \
            or not isinstance(loop.body[0], ast.If):
        raise U("__call__: routing loop over other_params.items() not found")
    k, v = (e.id for e in loop.target.elts)
    # roles of the dicts, by use
    role = {}
    frames = [s.targets[0].id for s in ast.walk(call) if isinstance(s, ast.Assign) and len(s.targets) == 1
              and isinstance(s.targets[0], ast.Name) and isinstance(s.value, ast.Call) and ast.unparse(s.value.func) == "MetricFrame"]
    if len(frames) != 1 or sum(1 for n in ast.walk(call) if isinstance(n, ast.Name) and n.id == frames[0]
                               and not isinstance(n.ctx, ast.Load)) != 1:
        raise U(f"__call__: expected one local bound (once) to MetricFrame(...), found {frames}")
    frame = frames[0]
    for n in ast.walk(call):
        if isinstance(n, ast.Call):
            f = ast.unparse(n.func)
            stars = [ast.unparse(kw.value) for kw in n.keywords if kw.arg is None]
            if f == "functools.partial" or (f == "partial" and partial_imported):
                if [ast.unparse(x) for x in n.args] != ["self._metric_fn"] or len(stars) != 1 or len(n.keywords) != 1:
                    raise U("functools.partial is not partial(self._metric_fn, **<dict>)")
                role[stars[0]] = "bound"
            elif f == "MetricFrame":
                for kw in n.keywords:
                    if kw.arg == "sample_params":
                        role[ast.unparse(kw.value)] = "sample"
            elif f.startswith(frame + ".") and stars:
                for st in stars:
                    if role.setdefault(st, "transform") != "transform":
                        raise U(f"dict {st} is used in two roles")
    if sorted(role.get(d, "?") for d in dicts) != ["bound", "sample", "transform"]:
        raise U(f"__call__: dict roles {role} for dicts {dicts}")
    chain = []
    node = loop.body[0]
    while True:
        t = node.test
        if not (isinstance(t, ast.Compare) and len(t.ops) == 1 and isinstance(t.ops[0], ast.In) and ast.unparse(t.left) == k):
            raise U(f"routing test `{ast.unparse(t)}`")
        coll = ast.unparse(t.comparators[0])
        test = {"self._sample_param_names": "sample_param_names", "parameters_for_transforms": "parameters_for_transforms"}.get(coll)
        if test is None:
            raise U(f"routing test against `{coll}`")

        def dest(body):
            if not (len(body) == 1 and isinstance(body[0], ast.Assign) and isinstance(body[0].targets[0], ast.Subscript)
                    and ast.unparse(body[0].targets[0].slice) == k and ast.unparse(body[0].value) == v):
                raise U(f"routing branch `{ast.unparse(body[0])[:60]}`")
            d = ast.unparse(body[0].targets[0].value)
            if d not in role:
                raise U(f"routing writes to unknown dict {d}")
            return role[d]
        chain.append((test, dest(node.body)))
        if len(node.orelse) == 1 and isinstance(node.orelse[0], ast.If):
            node = node.orelse[0]
            continue
        default = dest(node.orelse)
        break
    # how the metric's name is obtained: a plain `self._metric_fn.__name__` read (a callable without __name__ then
    # raises AttributeError) or `getattr(self._metric_fn, "__name__", <fallback>)` (nameless callables accepted)
    strict = [n for n in ast.walk(call) if isinstance(n, ast.Attribute) and isinstance(n.ctx, ast.Load) and n.attr == "__name__"
              and ast.unparse(n.value) == "self._metric_fn"]
    soft = [n for n in ast.walk(call) if isinstance(n, ast.Call) and isinstance(n.func, ast.Name) and n.func.id == "getattr"
            and len(n.args) == 3 and ast.unparse(n.args[0]) == "self._metric_fn"
            and isinstance(n.args[1], ast.Constant) and n.args[1].value == "__name__"]
    if strict and not soft:
        name_read = True
    elif soft and not strict:
        name_read = False
    else:
        raise U(f"__call__: the metric's __name__ is obtained in an unknown way (plain reads {len(strict)}, getattr with fallback {len(soft)})")
    return chain, default, name_read


@translate.lifter
def lift(repo):
    tree = normalize.parse(open(os.path.join(repo, MDM)).read())
    cls = next((n for n in tree.body if isinstance(n, ast.ClassDef) and n.name == "_DerivedMetric"), None)
    if cls is None:
        raise U("_DerivedMetric not found")
    fns = {n.name: n for n in cls.body if isinstance(n, ast.FunctionDef)}
    if "__init__" not in fns or "__call__" not in fns:
        raise U("__init__/__call__ not found")
    checks = lift_init(fns["__init__"])
    partial_imported = any(isinstance(n, ast.ImportFrom) and n.module == "functools" and n.level == 0
                           and any(a.name == "partial" and a.asname in (None, "partial") for a in n.names) for n in tree.body) \
        and not any(isinstance(n, ast.Name) and n.id == "partial" and not isinstance(n.ctx, ast.Load) for n in ast.walk(tree))
    chain, default, name_read = lift_call(fns["__call__"], partial_imported)
    mk = next((n for n in tree.body if isinstance(n, ast.FunctionDef) and n.name == "make_derived_metric"), None)
    if mk is None:
        raise U("make_derived_metric not found")
    dflt = {a.arg: d for a, d in zip(mk.args.kwonlyargs, mk.args.kw_defaults)}
    spn = dflt.get("sample_param_names")
    if not (isinstance(spn, ast.List) and all(isinstance(x, ast.Constant) and isinstance(x.value, str) for x in spn.elts)):
        raise U("make_derived_metric: default of sample_param_names is not a list of strings")
    if "_DerivedMetric(metric=metric, transform=transform, sample_param_names=sample_param_names)" not in ast.unparse(mk):
        raise U("make_derived_metric does not forward its three arguments to _DerivedMetric")
    lean = f"""-- GENERATED by harness/lifters/derived.py from {MDM}; do not edit.

namespace DerivedSpec

/-- `_DerivedMetric.__init__`: the validation steps (each raises ValueError), in source order -/
def initChecks : List String := [{", ".join(lstr(c) for c in checks)}]

/-- `make_derived_metric(..., sample_param_names=<default>)` -/
def defaultSampleParamNames : List String := [{", ".join(lstr(x.value) for x in spn.elts)}]

/-- `_DerivedMetric.__call__`: the if/elif chain that routes each `**other_params` entry:
    (the collection its name is looked up in, the dict it goes to), first match wins -/
def routeChain : List (String × String) := [{", ".join(f"({lstr(t)}, {lstr(d)})" for t, d in chain)}]
/-- ... and where every other name goes -/
def routeDefault : String := {lstr(default)}

/-- the metric's name is a plain `self._metric_fn.__name__` read (true: a callable without `__name__` raises
    AttributeError at call time) or `getattr(self._metric_fn, "__name__", <fallback>)` (false) -/
def readsName : Bool := {"true" if name_read else "false"}

end DerivedSpec
"""
    meta = {"source": MDM, "init_checks": checks, "route": chain + [("*", default)], "reads_name": name_read}
    return "DerivedSpec.lean", lean, meta
