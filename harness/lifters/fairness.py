"""Lifter for the named / generated fairness metrics -> Generated/FairnessSpec.lean

From fairlearn/metrics/_generated_metrics.py : METRICS_SPEC (base metric name, variants), the name pattern and
  the sample parameter names passed to make_derived_metric;
from fairlearn/metrics/_make_derived_metric.py : transform_options, parameters_for_transforms and the dispatch
  `transform -> MetricFrame method (with / without **transform_parameters)` of _DerivedMetric.__call__;
from fairlearn/metrics/_fairness_metrics.py : for each public function which base metric(s) the MetricFrame is
  built from, which MetricFrame method produces the result, and how equalized odds combines TPR and FPR.
Anything of an unknown shape raises Untranslatable."""
import ast
import os

from .. import translate
from . import normalize

GEN = "fairlearn/metrics/_generated_metrics.py"
MDM = "fairlearn/metrics/_make_derived_metric.py"
FM = "fairlearn/metrics/_fairness_metrics.py"


def U(rel, msg):
    return translate.Untranslatable(f"{rel}: {msg}")


def lstr(s):
    return '"' + s.replace("\\", "\\\\").replace('"', '\\"') + '"'


def llist(items):
    return "[" + ", ".join(items) + "]"


def metric_name(e, rel):
    if isinstance(e, ast.Name):
        return e.id
    if isinstance(e, ast.Attribute):
        return e.attr
    raise U(rel, f"base metric is not a name: {ast.dump(e)}")


def const_str_list(e, rel):
    if not (isinstance(e, ast.List) and all(isinstance(x, ast.Constant) and isinstance(x.value, str) for x in e.elts)):
        raise U(rel, f"not a list of string constants: {ast.dump(e)[:80]}")
    return [x.value for x in e.elts]


def find_assign(tree, name):
    for n in tree.body:
        if isinstance(n, ast.Assign) and len(n.targets) == 1 and isinstance(n.targets[0], ast.Name) and n.targets[0].id == name:
            return n.value
    return None


def lift_generated(repo):
    tree = normalize.parse(open(os.path.join(repo, GEN)).read())
    spec = find_assign(tree, "METRICS_SPEC")
    if not isinstance(spec, ast.List):
        raise U(GEN, "METRICS_SPEC is not a list literal")
    out = []
    for t in spec.elts:
        if not (isinstance(t, ast.Tuple) and len(t.elts) == 2):
            raise U(GEN, "METRICS_SPEC entry is not a pair")
        out.append((metric_name(t.elts[0], GEN), const_str_list(t.elts[1], GEN)))
    # the generating loop
    loop = next((n for n in tree.body if isinstance(n, ast.For)), None)
    if loop is None:
        raise U(GEN, "generating loop not found")
    src = ast.unparse(loop)
    if "'{0}_{1}'.format(base_metric.__name__, variant)" not in src:
        raise U(GEN, "name pattern is not '{0}_{1}'.format(base_metric.__name__, variant)")
    call = next((n for n in ast.walk(loop) if isinstance(n, ast.Call) and isinstance(n.func, ast.Name)
                 and n.func.id == "make_derived_metric"), None)
    if call is None:
        raise U(GEN, "make_derived_metric call not found")
    kw = {k.arg: k.value for k in call.keywords}
    if not (isinstance(kw.get("metric"), ast.Name) and kw["metric"].id == "base_metric"
            and isinstance(kw.get("transform"), ast.Name) and kw["transform"].id == "variant"):
        raise U(GEN, "make_derived_metric is not called with metric=base_metric, transform=variant")
    spn = const_str_list(kw.get("sample_param_names"), GEN)
    return out, spn


def lift_dispatch(repo):
    tree = normalize.parse(open(os.path.join(repo, MDM)).read())
    topts = const_str_list(find_assign(tree, "transform_options"), MDM)
    tparams = const_str_list(find_assign(tree, "parameters_for_transforms"), MDM)
    cls = next((n for n in tree.body if isinstance(n, ast.ClassDef) and n.name == "_DerivedMetric"), None)
    call = next((n for n in cls.body if isinstance(n, ast.FunctionDef) and n.name == "__call__"), None) if cls else None
    if call is None:
        raise U(MDM, "_DerivedMetric.__call__ not found")
    # the MetricFrame construction
    mfc = next((n for n in ast.walk(call) if isinstance(n, ast.Call) and isinstance(n.func, ast.Name) and n.func.id == "MetricFrame"), None)
    if mfc is None:
        raise U(MDM, "MetricFrame(...) not found in __call__")
    kws = {k.arg: ast.unparse(k.value) for k in mfc.keywords}
    want = {"metrics": "dispatch_fn", "y_true": "y_true", "y_pred": "y_pred", "sensitive_features": "sensitive_features",
            "sample_params": "sample_params"}
    if kws != want:
        raise U(MDM, f"MetricFrame called with {kws}")
    disp = []
    node = next((s for s in call.body if isinstance(s, ast.If) and "self._transform ==" in ast.unparse(s.test)), None)
    while isinstance(node, ast.If):
        t = node.test
        if not (isinstance(t, ast.Compare) and ast.unparse(t.left) == "self._transform" and isinstance(t.ops[0], ast.Eq)
                and isinstance(t.comparators[0], ast.Constant)):
            raise U(MDM, "dispatch test shape")
        if not (len(node.body) == 1 and isinstance(node.body[0], ast.Assign) and isinstance(node.body[0].value, ast.Call)):
            raise U(MDM, "dispatch branch shape")
        c = node.body[0].value
        if not (isinstance(c.func, ast.Attribute) and ast.unparse(c.func.value) == "all_metrics"):
            raise U(MDM, "dispatch does not call all_metrics.<method>")
        if c.args:
            raise U(MDM, "dispatch passes positional arguments")
        if len(c.keywords) == 0:
            withp = False
        elif len(c.keywords) == 1 and c.keywords[0].arg is None and ast.unparse(c.keywords[0].value) == "transform_parameters":
            withp = True
        else:
            raise U(MDM, "dispatch keyword shape")
        disp.append((t.comparators[0].value, c.func.attr, withp))
        node = node.orelse[0] if (len(node.orelse) == 1 and isinstance(node.orelse[0], ast.If)) else None
    if not disp:
        raise U(MDM, "transform dispatch not found")
    return topts, tparams, disp


def lift_named(repo):
    tree = normalize.parse(open(os.path.join(repo, FM)).read())
    fns = {n.name: n for n in tree.body if isinstance(n, ast.FunctionDef)}
    named, eodds = [], []
    # _get_eo_frame
    eo = fns.get("_get_eo_frame")
    if eo is None:
        raise U(FM, "_get_eo_frame not found")
    d = next((n.value for n in ast.walk(eo) if isinstance(n, ast.Assign) and isinstance(n.value, ast.Dict)
              and all(isinstance(v, ast.Name) for v in n.value.values)), None)
    if d is None:
        raise U(FM, "_get_eo_frame: metric dict not found")
    eo_frame = [(k.value, v.id) for k, v in zip(d.keys, d.values)]
    src_eo = ast.unparse(eo)
    if "sw_dict = {'sample_weight': sample_weight}" not in src_eo or not all(f"'{k}': sw_dict" in src_eo for k, _ in eo_frame):
        raise U(FM, "_get_eo_frame: sample_params shape")
    for name, fn in fns.items():
        if name.startswith("_"):
            continue
        args = [a.arg for a in fn.args.args] + [a.arg for a in fn.args.kwonlyargs]
        body = [s for s in fn.body if not (isinstance(s, ast.Expr) and isinstance(s.value, ast.Constant))]
        if "agg" in args:
            # if agg not in [...]: raise ; eo = _get_eo_frame(...) ; if agg == "worst_case": return max(eo.X(method=method)) else: return eo.X(method=method).mean()
            tail = body[-1]
            if not (isinstance(tail, ast.If) and ast.unparse(tail.test) == "agg == 'worst_case'"):
                raise U(FM, f"{name}: agg dispatch shape")
            r1, r2 = tail.body[0], tail.orelse[0]
            if not (isinstance(r1, ast.Return) and isinstance(r1.value, ast.Call) and isinstance(r1.value.func, ast.Name)
                    and r1.value.func.id in ("max", "min") and len(r1.value.args) == 1):
                raise U(FM, f"{name}: worst_case is not max(...)/min(...)")
            inner = r1.value.args[0]
            if not (isinstance(inner, ast.Call) and isinstance(inner.func, ast.Attribute) and ast.unparse(inner.func.value) == "eo"
                    and ast.unparse(inner.keywords[0]) == "method=method" and len(inner.keywords) == 1 and not inner.args):
                raise U(FM, f"{name}: worst_case argument shape")
            meth = inner.func.attr
            if ast.unparse(r2.value) != f"eo.{meth}(method=method).mean()":
                raise U(FM, f"{name}: mean branch is {ast.unparse(r2.value)}")
            if "eo = _get_eo_frame(y_true, y_pred, sensitive_features, sample_weight)" not in ast.unparse(fn):
                raise U(FM, f"{name}: eo frame construction")
            eodds.append((name, meth, r1.value.func.id))
        else:
            # X = MetricFrame(metrics=<base>, ..., sample_params={"sample_weight": sample_weight}); result = X.<meth>(method=method); return result
            if len(body) != 3:
                raise U(FM, f"{name}: body shape")
            a, b, c = body
            if not (isinstance(a, ast.Assign) and isinstance(a.value, ast.Call) and ast.unparse(a.value.func) == "MetricFrame"):
                raise U(FM, f"{name}: first statement is not a MetricFrame construction")
            kws = {k.arg: ast.unparse(k.value) for k in a.value.keywords}
            base = kws.pop("metrics", None)
            if kws != {"y_true": "y_true", "y_pred": "y_pred", "sensitive_features": "sensitive_features",
                       "sample_params": "{'sample_weight': sample_weight}"}:
                raise U(FM, f"{name}: MetricFrame called with {kws}")
            var = a.targets[0].id
            if not (isinstance(b, ast.Assign) and isinstance(b.value, ast.Call) and isinstance(b.value.func, ast.Attribute)
                    and ast.unparse(b.value.func.value) == var and len(b.value.keywords) == 1
                    and ast.unparse(b.value.keywords[0]) == "method=method" and not b.value.args):
                raise U(FM, f"{name}: aggregate call shape")
            if not (isinstance(c, ast.Return) and ast.unparse(c.value) == b.targets[0].id):
                raise U(FM, f"{name}: return shape")
            named.append((name, base, b.value.func.attr))
    return named, eo_frame, eodds


@translate.lifter
def lift(repo):
    spec, spn = lift_generated(repo)
    topts, tparams, disp = lift_dispatch(repo)
    named, eo_frame, eodds = lift_named(repo)
    lean = f"""-- GENERATED by harness/lifters/fairness.py from {GEN}, {MDM}, {FM}; do not edit.

namespace FairnessSpec

/-- `METRICS_SPEC`: (base metric `__name__`, variants) -/
def metricsSpec : List (String × List String) :=
  {llist([f"({lstr(b)}, {llist([lstr(v) for v in vs])})" for b, vs in spec])}

/-- `sample_param_names` given to `make_derived_metric` for every generated function -/
def sampleParamNames : List String := {llist([lstr(x) for x in spn])}

/-- `transform_options` / `parameters_for_transforms` of `_make_derived_metric.py` -/
def transformOptions : List String := {llist([lstr(x) for x in topts])}
def parametersForTransforms : List String := {llist([lstr(x) for x in tparams])}

/-- `_DerivedMetric.__call__`: transform ↦ (MetricFrame method, are the transform parameters (method=) passed on) -/
def dispatch : List (String × String × Bool) :=
  {llist([f"({lstr(t)}, {lstr(m)}, {'true' if w else 'false'})" for t, m, w in disp])}

/-- `_fairness_metrics.py`: public function ↦ (base metric, MetricFrame method called with `method=method`) -/
def named : List (String × String × String) :=
  {llist([f"({lstr(n)}, {lstr(b)}, {lstr(m)})" for n, b, m in named])}

/-- `_get_eo_frame`: the metric dict, in insertion (= column) order -/
def eoFrame : List (String × String) := {llist([f"({lstr(k)}, {lstr(v)})" for k, v in eo_frame])}

/-- equalized odds: function ↦ (MetricFrame method, builtin used for agg="worst_case"); agg="mean" is `.mean()` -/
def eodds : List (String × String × String) :=
  {llist([f"({lstr(n)}, {lstr(m)}, {lstr(w)})" for n, m, w in eodds])}

end FairnessSpec
"""
    meta = {"sources": [GEN, MDM, FM], "generated_functions": sum(len(v) for _, v in spec), "named": [n for n, _, _ in named],
            "eodds": eodds, "dispatch": disp}
    return "FairnessSpec.lean", lean, meta
