"""Lifter for the named / generated fairness metrics -> Generated/FairnessSpec.lean

From fairlearn/metrics/_generated_metrics.py : METRICS_SPEC (base metric name, variants), the name pattern and
  the sample parameter names passed to make_derived_metric;
from fairlearn/metrics/_make_derived_metric.py : transform_options, parameters_for_transforms and the dispatch
  `transform -> MetricFrame method (with / without **transform_parameters)` of _DerivedMetric.__call__;
from fairlearn/metrics/_fairness_metrics.py : for each public function which base metric(s) the MetricFrame is
  built from, which MetricFrame method produces the result, and how equalized odds combines TPR and FPR.
Anything of an unknown shape raises Untranslatable."""
import ast
import os

from .. import translate
from . import normalize

GEN = "fairlearn/metrics/_generated_metrics.py"
MDM = "fairlearn/metrics/_make_derived_metric.py"
FM = "fairlearn/metrics/_fairness_metrics.py"


def U(rel, msg):
    return translate.Untranslatable(f"{rel}: {msg}")


def lstr(s):
    return '"' + s.replace("\\", "\\\\").replace('"', '\\"') + '"'


def llist(items):
    return "[" + ", ".join(items) + "]"


def metric_name(e, rel):
    if isinstance(e, ast.Name):
        return e.id
    if isinstance(e, ast.Attribute):
        return e.attr
    raise U(rel, f"base metric is not a name: {ast.dump(e)}")


def const_str_list(e, rel):
    if not (isinstance(e, ast.List) and all(isinstance(x, ast.Constant) and isinstance(x.value, str) for x in e.elts)):
        raise U(rel, f"not a list of string constants: {ast.dump(e)[:80]}")
    return [x.value for x in e.elts]


def find_assign(tree, name):
    for n in tree.body:
        if isinstance(n, ast.Assign) and len(n.targets) == 1 and isinstance(n.targets[0], ast.Name) and n.targets[0].id == name:
            return n.value
    return None


def lift_generated(repo):
    tree = normalize.parse(open(os.path.join(repo, GEN)).read())
    spec = find_assign(tree, "METRICS_SPEC")
    if not isinstance(spec, ast.List):
        raise U(GEN, "METRICS_SPEC is not a list literal")
    out = []
    for t in spec.elts:
        if not (isinstance(t, ast.Tuple) and len(t.elts) == 2):
            raise U(GEN, "METRICS_SPEC entry is not a pair")
        out.append((metric_name(t.elts[0], GEN), const_str_list(t.elts[1], GEN)))
    # the generating loop:  for <base>, <variants> in METRICS_SPEC: for <variant> in <variants>: ...
    loops = [n for n in tree.body if isinstance(n, ast.For)]
    if len(loops) != 1:
        raise U(GEN, "generating loop not found (or not the only module-level loop)")
    loop = loops[0]
    inner = [n for n in loop.body if isinstance(n, ast.For)]
    if not (ast.unparse(loop.iter) == "METRICS_SPEC" and isinstance(loop.target, ast.Tuple) and len(loop.target.elts) == 2
            and all(isinstance(e, ast.Name) for e in loop.target.elts) and len(inner) == 1 and isinstance(inner[0].target, ast.Name)
            and ast.unparse(inner[0].iter) == loop.target.elts[1].id and not loop.orelse and not inner[0].orelse):
        raise U(GEN, "generating loop is not `for <base>, <variants> in METRICS_SPEC: for <variant> in <variants>:`")
    base, variant = loop.target.elts[0].id, inner[0].target.id
    if len({base, variant, loop.target.elts[1].id}) != 3:
        raise U(GEN, "generating loop variables are not distinct")
    src = ast.unparse(inner[0])
    patterns = (f"'{{0}}_{{1}}'.format({base}.__name__, {variant})", f"'{{}}_{{}}'.format({base}.__name__, {variant})",
                f"f'{{{base}.__name__}}_{{{variant}}}'", f"{base}.__name__ + '_' + {variant}")
    if sum(src.count(p_) for p_ in patterns) != 1:
        raise U(GEN, "name pattern is not '{0}_{1}'.format(<base>.__name__, <variant>)")
    call = next((n for n in ast.walk(inner[0]) if isinstance(n, ast.Call) and isinstance(n.func, ast.Name)
                 and n.func.id == "make_derived_metric"), None)
    if call is None:
        raise U(GEN, "make_derived_metric call not found")
    kw = {k.arg: k.value for k in call.keywords}
    if call.args or set(kw) != {"metric", "transform", "sample_param_names"} or len(call.keywords) != 3:
        raise U(GEN, "make_derived_metric is not called with exactly metric=, transform=, sample_param_names=")
    if not (isinstance(kw.get("metric"), ast.Name) and kw["metric"].id == base
            and isinstance(kw.get("transform"), ast.Name) and kw["transform"].id == variant):
        raise U(GEN, "make_derived_metric is not called with metric=<base>, transform=<variant>")
    spn = const_str_list(kw.get("sample_param_names"), GEN)
    return out, spn


def lift_dispatch(repo):
    tree = normalize.parse(open(os.path.join(repo, MDM)).read())
    topts = const_str_list(find_assign(tree, "transform_options"), MDM)
    tparams = const_str_list(find_assign(tree, "parameters_for_transforms"), MDM)
    cls = next((n for n in tree.body if isinstance(n, ast.ClassDef) and n.name == "_DerivedMetric"), None)
    call = next((n for n in cls.body if isinstance(n, ast.FunctionDef) and n.name == "__call__"), None) if cls else None
    if call is None:
        raise U(MDM, "_DerivedMetric.__call__ not found")
    # the MetricFrame construction
    mfc = next((n for n in ast.walk(call) if isinstance(n, ast.Call) and isinstance(n.func, ast.Name) and n.func.id == "MetricFrame"), None)
    if mfc is None:
        raise U(MDM, "MetricFrame(...) not found in __call__")
    kws = {k.arg: ast.unparse(k.value) for k in mfc.keywords}
    want = {"metrics": "dispatch_fn", "y_true": "y_true", "y_pred": "y_pred", "sensitive_features": "sensitive_features",
            "sample_params": "sample_params"}

    def bound_once(name):
        return sum(1 for n in ast.walk(call) if isinstance(n, ast.Name) and n.id == name and not isinstance(n.ctx, ast.Load)) == 1
    # the locals may have any name: `metrics` is the (once bound) functools.partial of the metric, `sample_params` a dict
    # local (lifters/derived.py determines which one, by use), the three data arguments are the parameters themselves
    partials = [s.targets[0].id for s in call.body if isinstance(s, ast.Assign) and len(s.targets) == 1
                and isinstance(s.targets[0], ast.Name) and isinstance(s.value, ast.Call)
                and ast.unparse(s.value.func) in ("functools.partial", "partial") and bound_once(s.targets[0].id)]
    dicts = [s.targets[0].id for s in call.body if isinstance(s, ast.Assign) and len(s.targets) == 1
             and isinstance(s.targets[0], ast.Name) and ast.unparse(s.value) in ("dict()", "{}") and bound_once(s.targets[0].id)]
    if mfc.args or None in kws or set(kws) != set(want) or any(kws[k] != want[k] for k in ("y_true", "y_pred", "sensitive_features")) \
            or kws["metrics"] not in partials or kws["sample_params"] not in dicts:
        raise U(MDM, f"MetricFrame called with {kws}")
    frames = [s.targets[0].id for s in call.body if isinstance(s, ast.Assign) and len(s.targets) == 1
              and isinstance(s.targets[0], ast.Name) and s.value is mfc and bound_once(s.targets[0].id)]
    if len(frames) != 1:
        raise U(MDM, "the MetricFrame is not bound (once) to a local")
    frame = frames[0]
    disp = []
    node = next((s for s in call.body if isinstance(s, ast.If) and "self._transform ==" in ast.unparse(s.test)), None)
    while isinstance(node, ast.If):
        t = node.test
        if not (isinstance(t, ast.Compare) and ast.unparse(t.left) == "self._transform" and isinstance(t.ops[0], ast.Eq)
                and isinstance(t.comparators[0], ast.Constant)):
            raise U(MDM, "dispatch test shape")
        if not (len(node.body) == 1 and isinstance(node.body[0], ast.Assign) and isinstance(node.body[0].value, ast.Call)):
            raise U(MDM, "dispatch branch shape")
        c = node.body[0].value
        if not (isinstance(c.func, ast.Attribute) and ast.unparse(c.func.value) == frame):
            raise U(MDM, "dispatch does not call all_metrics.<method>")
        if c.args:
            raise U(MDM, "dispatch passes positional arguments")
        if len(c.keywords) == 0:
            withp = False
        elif len(c.keywords) == 1 and c.keywords[0].arg is None and ast.unparse(c.keywords[0].value) in dicts \
                and ast.unparse(c.keywords[0].value) != kws["sample_params"]:
            withp = True
        else:
            raise U(MDM, "dispatch keyword shape")
        disp.append((t.comparators[0].value, c.func.attr, withp))
        node = node.orelse[0] if (len(node.orelse) == 1 and isinstance(node.orelse[0], ast.If)) else None
    if not disp:
        raise U(MDM, "transform dispatch not found")
    return topts, tparams, disp


SW = "{'sample_weight': sample_weight}"
FRAME_KWS = {"y_true": "y_true", "y_pred": "y_pred", "sensitive_features": "sensitive_features"}


def _frame_kws(call, name):
    """keyword arguments of a MetricFrame(...) construction -> {name: source}; the three data arguments must be forwarded"""
    if not (isinstance(call, ast.Call) and ast.unparse(call.func) == "MetricFrame") or call.args or any(k.arg is None for k in call.keywords):
        raise U(FM, f"{name}: not a MetricFrame(<keywords>) construction")
    kws = {k.arg: k.value for k in call.keywords}
    if len(kws) != len(call.keywords) or set(kws) != set(FRAME_KWS) | {"metrics", "sample_params"} \
            or any(ast.unparse(kws[k]) != v for k, v in FRAME_KWS.items()):
        raise U(FM, f"{name}: MetricFrame called with { {k: ast.unparse(v) for k, v in kws.items()} }")
    return kws


def _agg_call(e, name):
    """<receiver>.<meth>(method=method) -> (receiver, meth)"""
    if not (isinstance(e, ast.Call) and isinstance(e.func, ast.Attribute) and len(e.keywords) == 1
            and ast.unparse(e.keywords[0]) == "method=method" and not e.args):
        raise U(FM, f"{name}: aggregate call shape")
    return e.func.value, e.func.attr


def lift_named(repo):
    from . import fairness_named
    tree = normalize.parse(open(os.path.join(repo, FM)).read())
    fns = {n.name: n for n in tree.body if isinstance(n, ast.FunctionDef)}
    if len(fns) != sum(1 for n in tree.body if isinstance(n, ast.FunctionDef)):
        raise U(FM, "a function is defined twice")
    named, eodds = [], []
    # _get_eo_frame (locals inlined): return MetricFrame(metrics={...}, ..., sample_params={<key>: {'sample_weight': sample_weight}, ...})
    eo = fns.get("_get_eo_frame")
    if eo is None:
        raise U(FM, "_get_eo_frame not found")
    if [a.arg for a in eo.args.args] != ["y_true", "y_pred", "sensitive_features", "sample_weight"]:
        raise U(FM, "_get_eo_frame: parameters")
    body = fairness_named.inline_locals(eo, FM).body
    if not (len(body) == 1 and isinstance(body[0], ast.Return)):
        raise U(FM, "_get_eo_frame: body shape")
    kws = _frame_kws(body[0].value, "_get_eo_frame")
    d, sp = kws["metrics"], kws["sample_params"]
    if not (isinstance(d, ast.Dict) and all(isinstance(k, ast.Constant) and isinstance(k.value, str) for k in d.keys)
            and all(isinstance(v, ast.Name) for v in d.values)):
        raise U(FM, "_get_eo_frame: metric dict not found")
    eo_frame = [(k.value, v.id) for k, v in zip(d.keys, d.values)]
    if not (isinstance(sp, ast.Dict) and all(isinstance(k, ast.Constant) for k in sp.keys)
            and sorted(k.value for k in sp.keys) == sorted(k for k, _ in eo_frame) and len(sp.keys) == len(eo_frame)
            and all(ast.unparse(v) == SW for v in sp.values)):
        raise U(FM, "_get_eo_frame: sample_params shape")
    for name, fn in fns.items():
        if name.startswith("_"):
            continue
        args = [a.arg for a in fn.args.args] + [a.arg for a in fn.args.kwonlyargs]
        body = fairness_named.if_else_returns(fairness_named.inline_locals(fn, FM).body)
        if "agg" in args:
            # [if agg not in [...]: raise] ; if agg == "worst_case": return max(EO.X(method=method)) else: return EO.X(method=method).mean()
            # with EO = _get_eo_frame(y_true, y_pred, sensitive_features, sample_weight)
            tail = body[-1] if body else None
            for st in body[:-1]:
                if not (isinstance(st, ast.If) and not st.orelse and len(st.body) == 1 and isinstance(st.body[0], ast.Raise)):
                    raise U(FM, f"{name}: statement before the agg dispatch")
            if not (isinstance(tail, ast.If) and ast.unparse(tail.test) in ("agg == 'worst_case'", "'worst_case' == agg")
                    and len(tail.body) == 1 and len(tail.orelse) == 1 and isinstance(tail.body[0], ast.Return)
                    and isinstance(tail.orelse[0], ast.Return)):
                raise U(FM, f"{name}: agg dispatch shape")
            r1, r2 = tail.body[0], tail.orelse[0]
            if not (isinstance(r1.value, ast.Call) and isinstance(r1.value.func, ast.Name)
                    and r1.value.func.id in ("max", "min") and len(r1.value.args) == 1 and not r1.value.keywords):
                raise U(FM, f"{name}: worst_case is not max(...)/min(...)")
            recv, meth = _agg_call(r1.value.args[0], name)
            eo_src = "_get_eo_frame(y_true, y_pred, sensitive_features, sample_weight)"
            if ast.unparse(recv) != eo_src:
                raise U(FM, f"{name}: eo frame construction")
            if ast.unparse(r2.value) != f"{eo_src}.{meth}(method=method).mean()":
                raise U(FM, f"{name}: mean branch is {ast.unparse(r2.value)}")
            eodds.append((name, meth, r1.value.func.id))
        else:
            # (locals inlined)  return MetricFrame(metrics=<base>, ..., sample_params={"sample_weight": sample_weight}).<meth>(method=method)
            if not (len(body) == 1 and isinstance(body[0], ast.Return)):
                raise U(FM, f"{name}: body shape")
            recv, meth = _agg_call(body[0].value, name)
            kws = _frame_kws(recv, name)
            if ast.unparse(kws["sample_params"]) != SW:
                raise U(FM, f"{name}: MetricFrame called with sample_params={ast.unparse(kws['sample_params'])}")
            named.append((name, ast.unparse(kws["metrics"]), meth))
    return named, eo_frame, eodds


@translate.lifter
def lift(repo):
    spec, spn = lift_generated(repo)
    topts, tparams, disp = lift_dispatch(repo)
    named, eo_frame, eodds = lift_named(repo)
    lean = f"""-- GENERATED by harness/lifters/fairness.py from {GEN}, {MDM}, {FM}; do not edit.

namespace FairnessSpec

/-- `METRICS_SPEC`: (base metric `__name__`, variants) -/
def metricsSpec : List (String × List String) :=
  {llist([f"({lstr(b)}, {llist([lstr(v) for v in vs])})" for b, vs in spec])}

/-- `sample_param_names` given to `make_derived_metric` for every generated function -/
def sampleParamNames : List String := {llist([lstr(x) for x in spn])}

/-- `transform_options` / `parameters_for_transforms` of `_make_derived_metric.py` -/
def transformOptions : List String := {llist([lstr(x) for x in topts])}
def parametersForTransforms : List String := {llist([lstr(x) for x in tparams])}

/-- `_DerivedMetric.__call__`: transform ↦ (MetricFrame method, are the transform parameters (method=) passed on) -/
def dispatch : List (String × String × Bool) :=
  {llist([f"({lstr(t)}, {lstr(m)}, {'true' if w else 'false'})" for t, m, w in disp])}

/-- `_fairness_metrics.py`: public function ↦ (base metric, MetricFrame method called with `method=method`) -/
def named : List (String × String × String) :=
  {llist([f"({lstr(n)}, {lstr(b)}, {lstr(m)})" for n, b, m in named])}

/-- `_get_eo_frame`: the metric dict, in insertion (= column) order -/
def eoFrame : List (String × String) := {llist([f"({lstr(k)}, {lstr(v)})" for k, v in eo_frame])}

/-- equalized odds: function ↦ (MetricFrame method, builtin used for agg="worst_case"); agg="mean" is `.mean()` -/
def eodds : List (String × String × String) :=
  {llist([f"({lstr(n)}, {lstr(m)}, {lstr(w)})" for n, m, w in eodds])}

end FairnessSpec
"""
    meta = {"sources": [GEN, MDM, FM], "generated_functions": sum(len(v) for _, v in spec), "named": [n for n, _, _ in named],
            "eodds": eodds, "dispatch": disp}
    return "FairnessSpec.lean", lean, meta
