"""Lifter for C16: the STATEMENT STRUCTURE of `PytorchEngine.train_step` (fairlearn/adversarial/_pytorch_engine.py):
which `.grad` buffers are cleared when, which loss is back-propagated when, when the two gradient lists of the
predictor are copied, where the combine loop stands, and which optimiser steps on what.

Regenerates lean/FairModel/Generated/AdvTrainStepSrc.lean:
  events      the bookkeeping statements in source order
                zeroGrad <player> | backward <loss> | snapshot <dW_LP|dW_LA> | combine | step <player>
  dependsOn   which players' parameters each loss reaches through autograd, from the data flow
                LP = predictor_loss(predictor_model(X), Y)                       -> predictor
                LA = adversary_loss(adversary_model(Y_hat [cat Y]), A)           -> predictor (through Y_hat) and adversary
              (a `.detach()` on the way cuts the dependency)
  retainsGraph  which `backward` calls keep the autograd graph (`retain_graph=True`); `TrainStepL.graphOk` checks that no
              backward pass walks a sub-graph an earlier one has freed

ARGUMENTS of the bookkeeping calls are PINNED (`_call_args`): exactly the empty argument list plus
  zero_grad(set_to_none=<bool literal>) / zero_grad(<bool literal>)
        harmless: afterwards every buffer is `None` or a zero tensor; the next write is a `backward`, which stores the
        gradient into a `None` buffer and ADDS it to a zero one (0 + x == x exactly in floating point), so the copies and
        what the optimisers read have the same values.  (A parameter no later backward reaches has `.grad is None` under
        the torch >= 2.0 default `set_to_none=True`: the copy `p.grad.detach()` then raises -- a crash, never a wrong value.)
        Normalised away: the generated file is byte-identical.
  <model>.train() / .train(<bool literal>) / .train(mode=<bool literal>) / .eval()
        harmless for the bookkeeping: the mode changes what the forward pass computes (dropout, batch-norm), never which
        `.grad` buffer is written; the gradients of the forward pass AS RUN are the inputs of the model.
  <loss>.backward(retain_graph=<bool literal>)
        LIFTED into `retainsGraph` (the flag of a backward pass after which no other backward pass follows is immaterial --
        nothing walks the graph again -- and is emitted as `false`, so `LA.backward(retain_graph=True)` is byte-identical).
  <optimizer>.step()     no argument at all (`step(closure)` re-evaluates the model: refused).
Refused, each NAMED in the message: `backward(inputs=[..])` (restricts which `.grad` buffers are written),
`backward(gradient=..)` / a positional argument (rescales every gradient), `backward(create_graph=..)`, non-literal flags,
`**kwargs`, and any keyword not listed above.
`Model/TrainStepLifted.lean` interprets the list on symbolic `.grad` buffers; `C16.lifted_train_step_gradients` proves
that, whatever the buffers held before the step, the predictor's optimiser applies combine(dLP/dW, dLA/dW) and the
adversary's optimiser applies exactly dLA/dU.  (The three-line body of the loop itself is lifted by adv_projection.py.)
Anything of another shape is refused."""
import ast
import os

from .. import translate
from . import normalize

REL = "fairlearn/adversarial/_pytorch_engine.py"
PLAYERS = {"self.predictor_model": "predictor", "self.adversary_model": "adversary"}
OPTS = {"self.predictor_optimizer": "predictor", "self.adversary_optimizer": "adversary"}


# locals of the pinned `PytorchEngine.train_step` in order of first binding (normalize.canon_function: new single-use
# temporaries are inlined again, renamed locals get the pinned names back -- the same canonical form adv_projection.py uses)
PINNED_LOCALS = ["Y_hat", "LP", "p", "dW_LP", "A_hat", "LA", "dW_LA", "i", "unit_dW_LA", "proj"]
PURE_TORCH = ("norm", "sum", "mul", "multiply", "inner", "clone", "detach", "finfo", "dot", "vdot", "flatten", "ravel", "cat", "concat", "item")
PINNED_WIDTH = ("(n_Y_features * (if pass_y then 2 else 1))", "n_Y_features * (2 if base.pass_y_ else 1)")
# the statement list quoted in the doc comment of `events` when the lifted events ARE the pinned ones (so that another
# spelling of the same bookkeeping -- `p.grad.detach().clone()`, swapped `zero_grad()` pair -- is byte-identical)
PINNED_EVENTS = [".zeroGrad .predictor", ".zeroGrad .adversary", ".backward .LP", ".snapshot .dW_LP", ".zeroGrad .predictor",
                 ".zeroGrad .adversary", ".backward .LA", ".snapshot .dW_LA", ".combine", ".step .predictor", ".step .adversary"]
PINNED_SRCS = ["self.predictor_optimizer.zero_grad()", "self.adversary_optimizer.zero_grad()", "LP.backward(retain_graph=True)",
               "dW_LP = [torch.clone(p.grad.detach()) for p in self.predictor_model.parameters()]",
               "self.predictor_optimizer.zero_grad()", "self.adversary_optimizer.zero_grad()", "LA.backward()",
               "dW_LA = [torch.clone(p.grad.detach()) for p in self.predictor_model.parameters()]",
               "for i, p in enumerate(self.predictor_model.parameters()): ... p.grad = ...",
               "self.predictor_optimizer.step()", "self.adversary_optimizer.step()"]
PINNED_CAT = (["yhat", "y"], "Y_hat", "Y_hat = torch.cat((Y_hat, Y), dim=1)")


class _U(translate.Untranslatable):
    pass


def _canonical_runs(events, srcs):
    """`zero_grad()` calls of the two optimisers commute with each other, and so do their `step()` calls (disjoint parameter
    sets): within a run of adjacent events of one of these two kinds the players are listed predictor first."""
    order = {"predictor": 0, "adversary": 1}
    pairs = list(zip(events, srcs))
    i = 0
    while i < len(pairs):
        kind = pairs[i][0].split()[0]
        j = i
        while j < len(pairs) and pairs[j][0].split()[0] == kind:
            j += 1
        if kind in (".zeroGrad", ".step") and j - i > 1:
            run = pairs[i:j]
            if len({e for e, _ in run}) == len(run):           # (a repeated call is left where it stands)
                pairs[i:j] = sorted(run, key=lambda es: order[es[0].split(".")[-1]])
        i = j
    return [e for e, _ in pairs], [s_ for _, s_ in pairs]


def _src(n):
    return ast.unparse(n)


def _bad(msg):
    raise _U("C16 train_step lifter: " + msg)


def _bool_lit(n):
    return isinstance(n, ast.Constant) and isinstance(n.value, bool)


BACKWARD_REFUSALS = {
    "inputs": "`inputs=` restricts the parameters whose `.grad` is written: the other buffers keep what they held",
    "gradient": "`gradient=` multiplies every gradient of this pass by the given tensor (vector-Jacobian product)",
    "grad_tensors": "`grad_tensors=` multiplies every gradient of this pass by the given tensor",
    "create_graph": "`create_graph=` makes the `.grad` buffers part of a differentiable graph (and implies retain_graph)",
}


def _call_args(call, meth, s):
    """the argument list of one bookkeeping call -> dict of LIFTED flags; everything not whitelisted is refused (see the
    module doc comment for why each accepted spelling is harmless)"""
    kws = {k.arg: k.value for k in call.keywords}
    if None in kws or any(isinstance(a, ast.Starred) for a in call.args):
        _bad(f"`*args` / `**kwargs` in a bookkeeping call: {s[:80]}")
    if meth == "zero_grad":
        flags = list(call.args) + [v for k, v in kws.items() if k == "set_to_none"]
        if len(call.args) > 1 or set(kws) - {"set_to_none"} or len(flags) > 1 or not all(_bool_lit(f) for f in flags):
            _bad(f"zero_grad() takes at most `set_to_none=<bool literal>` here: {s[:80]}")
        return {}
    if meth in ("train", "eval"):
        flags = list(call.args) + [v for k, v in kws.items() if k == "mode"]
        if meth == "eval" and (call.args or kws):
            _bad(f"eval() takes no argument: {s[:80]}")
        if len(call.args) > 1 or set(kws) - {"mode"} or len(flags) > 1 or not all(_bool_lit(f) for f in flags):
            _bad(f"train() takes at most `mode=<bool literal>` here: {s[:80]}")
        return {}
    if meth == "step":
        if call.args or kws:
            _bad(f"optimiser step with arguments (a closure re-evaluates the model): {s[:80]}")
        return {}
    if meth == "backward":
        if call.args:
            _bad(f"backward() with a positional argument: {BACKWARD_REFUSALS['gradient']}: {s[:80]}")
        for k in kws:
            if k in BACKWARD_REFUSALS:
                _bad(f"backward({k}=..): {BACKWARD_REFUSALS[k]}: {s[:80]}")
            if k != "retain_graph":
                _bad(f"backward() with unknown keyword `{k}`: {s[:80]}")
        if "retain_graph" in kws and not _bool_lit(kws["retain_graph"]):
            _bad(f"backward(retain_graph=<not a bool literal>): {s[:80]}")
        return {"retain": bool(kws["retain_graph"].value) if "retain_graph" in kws else False}
    _bad(f"call statement of unknown shape: {s[:80]}")


def _deps_of(node, deps):
    """players whose parameters an expression depends on through autograd"""
    if isinstance(node, ast.Call) and isinstance(node.func, ast.Attribute) and node.func.attr in ("detach", "item", "numpy") \
            and not node.args:
        return set()
    if isinstance(node, ast.Name):
        return set(deps.get(node.id, set()))
    out = set()
    if isinstance(node, ast.Call) and _src(node.func) in PLAYERS:
        out.add(PLAYERS[_src(node.func)])          # forward pass nested in another expression
    for c in ast.iter_child_nodes(node):
        out |= _deps_of(c, deps)
    return out


def lift(repo):
    with open(os.path.join(repo, REL)) as f:
        tree = normalize.parse(f.read())
    fn = None
    for c in tree.body:
        if isinstance(c, ast.ClassDef) and c.name == "PytorchEngine":
            for f_ in c.body:
                if isinstance(f_, ast.FunctionDef) and f_.name == "train_step":
                    fn = f_
    if fn is None:
        _bad("PytorchEngine.train_step not found")
    if [a.arg for a in fn.args.args] != ["self", "X", "Y", "A"]:
        _bad(f"train_step parameters {[a.arg for a in fn.args.args]}")
    fn = normalize.canon_function(fn, PINNED_LOCALS, extra_methods=PURE_TORCH)
    body = [s for s in fn.body if not (isinstance(s, ast.Expr) and isinstance(s.value, ast.Constant))]
    deps = {"X": set(), "Y": set(), "A": set()}
    loss = {}            # local name -> "LP" | "LA"
    snaps = {}           # snapshot list name -> player
    events = []
    srcs = []
    extra = {}
    retain = {}          # loss -> `retain_graph` flag of its backward call
    returned = False
    for st in body:
        if returned:
            _bad("statement after return")
        s = _src(st)
        if isinstance(st, ast.Return):
            returned = True
            continue
        if isinstance(st, ast.Expr) and isinstance(st.value, ast.Call) and isinstance(st.value.func, ast.Attribute):
            call, base, meth = st.value, _src(st.value.func.value), st.value.func.attr
            if base in PLAYERS and meth in ("train", "eval"):
                _call_args(call, meth, s)
                continue
            if base in OPTS and meth == "zero_grad":
                _call_args(call, meth, s)
                events.append(f".zeroGrad .{OPTS[base]}")
                srcs.append(s)
                continue
            if base in OPTS and meth == "step":
                _call_args(call, meth, s)
                events.append(f".step .{OPTS[base]}")
                srcs.append(s)
                continue
            if base in loss and meth == "backward":
                if loss[base] in retain:
                    _bad(f"{loss[base]} is back-propagated twice")
                retain[loss[base]] = _call_args(call, meth, s)["retain"]
                events.append(f".backward .{loss[base]}")
                srcs.append(s)
                continue
            if base in ("logger", "logging", "warnings") and not (_deps_of(call, deps)):
                continue          # diagnostics cannot touch the .grad buffers
            _bad(f"call statement of unknown shape: {s[:80]}")
        if isinstance(st, ast.If):
            # equalized odds: Y_hat = torch.cat((Y_hat, Y), dim=1)
            if _src(st.test) == "self.base.pass_y_" and not st.orelse and len(st.body) == 1 and isinstance(st.body[0], ast.Assign) \
                    and isinstance(st.body[0].targets[0], ast.Name) and _src(st.body[0].value.func) in ("torch.cat", "torch.concat"):
                a = st.body[0]
                cat = a.value
                kw = {k.arg: _src(k.value) for k in cat.keywords}
                ok = (len(cat.args) == 1 and isinstance(cat.args[0], (ast.Tuple, ast.List)) and len(cat.args[0].elts) == 2
                      and kw in ({"dim": "1"}, {"dim": "-1"}, {"axis": "1"}))
                if not ok or "cat" in extra:
                    _bad(f"equalized-odds concatenation of unknown shape: {_src(a)[:80]}")
                parts = []
                for e in cat.args[0].elts:
                    if isinstance(e, ast.Name) and e.id == a.targets[0].id and "predictor" in deps.get(e.id, set()):
                        parts.append("yhat")
                    elif _src(e) == "Y":
                        parts.append("y")
                    else:
                        _bad(f"equalized-odds concatenation joins `{_src(e)}`")
                extra["cat"] = (parts, a.targets[0].id, _src(a))
                deps[a.targets[0].id] = deps.get(a.targets[0].id, set()) | _deps_of(a.value, deps)
                continue
            _bad(f"if-statement of unknown shape: {s[:80]}")
        if isinstance(st, ast.For):
            it = _src(st.iter)
            if it != "enumerate(self.predictor_model.parameters())":
                _bad(f"the combine loop iterates over `{it}`")
            tg = [_src(x.targets[0]) for x in st.body if isinstance(x, ast.Assign)]
            if not tg or tg[-1] != "p.grad":
                _bad("the combine loop does not end by assigning p.grad")
            names = {n.value.id for n in ast.walk(st) if isinstance(n, ast.Subscript) and isinstance(n.value, ast.Name)}
            if names != {"dW_LP", "dW_LA"} or set(snaps) != {"dW_LP", "dW_LA"}:
                _bad(f"the combine loop reads {sorted(names)}; copies taken so far: {sorted(snaps)}")
            events.append(".combine")
            srcs.append("for i, p in enumerate(self.predictor_model.parameters()): ... p.grad = ...")
            continue
        if not (isinstance(st, ast.Assign) and len(st.targets) == 1 and isinstance(st.targets[0], ast.Name)):
            _bad(f"statement of unknown shape: {s[:80]}")
        name, v = st.targets[0].id, st.value
        if isinstance(v, ast.Call) and _src(v.func) in PLAYERS and len(v.args) == 1 and not v.keywords:
            deps[name] = {PLAYERS[_src(v.func)]} | _deps_of(v.args[0], deps)
            if PLAYERS[_src(v.func)] == "adversary":
                if "adv_arg" in extra:
                    _bad("the adversary model is evaluated twice")
                extra["adv_arg"] = _src(v.args[0])
            continue
        if isinstance(v, ast.Call) and _src(v.func) in ("self.predictor_loss", "self.adversary_loss") and len(v.args) == 2 \
                and not v.keywords:
            which = "LP" if _src(v.func) == "self.predictor_loss" else "LA"
            if which in loss.values():
                _bad(f"{which} is computed twice")
            a0 = v.args[0]
            if isinstance(a0, ast.Call) and _src(a0.func) == "self.adversary_model" and len(a0.args) == 1 and not a0.keywords:
                if "adv_arg" in extra:
                    _bad("the adversary model is evaluated twice")
                extra["adv_arg"] = _src(a0.args[0])         # `self.adversary_loss(self.adversary_model(Y_hat), A)`
            want_target = "Y" if which == "LP" else "A"
            if _src(v.args[1]) != want_target:
                _bad(f"{which} compares with `{_src(v.args[1])}`, expected `{want_target}`")
            loss[name] = which
            deps[name] = _deps_of(v.args[0], deps)
            continue
        if isinstance(v, ast.ListComp) and len(v.generators) == 1 and not v.generators[0].ifs:
            g = v.generators[0]
            it = _src(g.iter)
            who = {"self.predictor_model.parameters()": "predictor", "self.adversary_model.parameters()": "adversary"}.get(it)
            var = _src(g.target)
            elt = _src(v.elt)
            ok_elt = elt in (f"torch.clone({var}.grad.detach())", f"{var}.grad.detach().clone()", f"{var}.grad.clone()",
                             f"torch.clone({var}.grad)", f"{var}.grad.clone().detach()")
            if who is None or not ok_elt:
                _bad(f"gradient copy of unknown shape: {s[:100]}")
            if who != "predictor" or name not in ("dW_LP", "dW_LA") or name in snaps:
                _bad(f"unexpected gradient copy `{name}` of the {who}'s parameters")
            snaps[name] = who
            events.append(f".snapshot .{name}")
            srcs.append(s)
            continue
        _bad(f"assignment of unknown shape: {s[:80]}")
    if not returned:
        _bad("train_step does not return")
    if set(loss.values()) != {"LP", "LA"}:
        _bad(f"losses found: {sorted(loss.values())}")
    if "cat" not in extra or extra.get("adv_arg") != extra["cat"][1]:
        _bad("the adversary is not fed the (optionally concatenated) predictor output")
    if set(retain) != {"LP", "LA"}:
        _bad(f"backward passes found: {sorted(retain)}")
    # the flag of the LAST backward pass is immaterial (no later pass walks the graph): emitted as false
    last = [e for e in events if e.startswith(".backward")][-1].split(".")[-1]
    retain[last] = False
    events, srcs = _canonical_runs(events, srcs)
    if events == PINNED_EVENTS:
        srcs = PINNED_SRCS
    if (extra["cat"][0], extra["cat"][1]) == PINNED_CAT[:2]:
        extra["cat"] = PINNED_CAT
    passy = lift_pass_y(repo)
    width = lift_adv_width(repo)
    dep = {}
    for nm, which in loss.items():
        dep[which] = sorted(deps[nm])
    order = {"predictor": 0, "adversary": 1}
    o = ["/-", f"GENERATED by harness/lifters/adv_trainstep.py from {REL} (`PytorchEngine.train_step`). Do not edit.", "-/", "",
         "namespace AdvTrainStepSrc", "",
         "inductive Player where", "  | predictor", "  | adversary", "deriving DecidableEq, Repr", "",
         "inductive Loss where", "  | LP", "  | LA", "deriving DecidableEq, Repr", "",
         "/-- the two copies of the predictor's `.grad` buffers -/",
         "inductive Snap where", "  | dW_LP", "  | dW_LA", "deriving DecidableEq, Repr", "",
         "inductive TEv where",
         "  /-- `self.<player>_optimizer.zero_grad()` -/", "  | zeroGrad (p : Player)",
         "  /-- `<loss>.backward(..)`: ADDS d loss / d parameter to the `.grad` of every parameter the loss depends on -/",
         "  | backward (l : Loss)",
         "  /-- `<name> = [torch.clone(p.grad.detach()) for p in self.predictor_model.parameters()]` -/", "  | snapshot (s : Snap)",
         "  /-- the loop that overwrites the predictor's `.grad` with the normalise / project / combine of (dW_LP[i], dW_LA[i]) -/",
         "  | combine",
         "  /-- `self.<player>_optimizer.step()` -/", "  | step (p : Player)",
         "deriving DecidableEq, Repr", "",
         "/-- the bookkeeping statements of `train_step`, in source order:"]
    o += [f"      {s}" for s in srcs]
    o += ["-/", "def events : List TEv := [" + ", ".join(events) + "]", "",
          "/-- whose parameters each loss reaches through autograd (data flow of train_step) -/",
          "def dependsOn : Loss → List Player",
          "  | .LP => [" + ", ".join("." + p for p in sorted(dep["LP"], key=order.get)) + "]",
          "  | .LA => [" + ", ".join("." + p for p in sorted(dep["LA"], key=order.get)) + "]", "",
          "/-- `<loss>.backward(retain_graph=True)`: does this backward pass keep the autograd graph it walked?  (The flag of the",
          "    last backward pass of the step is immaterial and always emitted as `false`.) -/",
          "def retainsGraph : Loss → Bool",
          "  | .LP => " + ("true" if retain["LP"] else "false"),
          "  | .LA => " + ("true" if retain["LA"] else "false"), "",
          "/-- what the adversary's forward pass is fed, column blocks in order -/",
          "inductive AdvIn where", "  /-- the predictor's output `Y_hat` (NOT detached: LA reaches the predictor through it) -/", "  | yhat",
          "  /-- the encoded target `Y` -/", "  | y", "deriving DecidableEq, Repr", "",
          f"/-- `if self.base.pass_y_: {extra['cat'][2]}`; `A_hat = self.adversary_model({extra['adv_arg']})` -/",
          "def adversaryInput (pass_y : Bool) : List AdvIn := if pass_y then [" + ", ".join("." + x for x in extra["cat"][0]) + "] else [.yhat]", "",
          f"/-- fairlearn/adversarial/_adversarial_mitigation.py `__setup`: {passy[1]} -/",
          "def passY (constraints : String) : Option Bool := " + passy[0], "",
          f"/-- fairlearn/adversarial/_backend_engine.py: input width of the adversary model `{width[1]}` -/",
          "def adversaryInputWidth (n_Y_features : Nat) (pass_y : Bool) : Nat := " + width[0], "",
          "end AdvTrainStepSrc", ""]
    return "AdvTrainStepSrc.lean", "\n".join(o), dict(events=[e.strip(".") for e in events], dependsOn=dep,
                                                       adversary_input=extra["cat"][0], retainsGraph=retain)


def lift_pass_y(repo):
    """`if self.constraints == 'demographic_parity': self.pass_y_ = False elif ... == 'equalized_odds': self.pass_y_ = True else: raise`"""
    rel = "fairlearn/adversarial/_adversarial_mitigation.py"
    with open(os.path.join(repo, rel)) as f:
        tree = normalize.parse(f.read())
    writes = [n for n in ast.walk(tree) if isinstance(n, ast.Assign) and _src(n.targets[0]) == "self.pass_y_"]
    chain = [n for n in ast.walk(tree) if isinstance(n, ast.If) and isinstance(n.test, ast.Compare) and _src(n.test.left) == "self.constraints"
             and any(w in n.body for w in writes)]
    heads = [n for n in chain if not any(n in m.orelse for m in chain)]
    if len(heads) != 1 or len(writes) != 2:
        _bad(f"pass_y_ is not set by one if/elif chain on self.constraints ({len(writes)} assignments)")
    node, arms = heads[0], []
    while True:
        ok = (len(node.test.ops) == 1 and isinstance(node.test.ops[0], ast.Eq) and isinstance(node.test.comparators[0], ast.Constant)
              and isinstance(node.test.comparators[0].value, str) and len(node.body) == 1 and node.body[0] in writes
              and isinstance(node.body[0].value, ast.Constant) and isinstance(node.body[0].value.value, bool))
        if not ok:
            _bad(f"pass_y_ branch of unknown shape: {_src(node.test)}")
        arms.append((node.test.comparators[0].value, node.body[0].value.value))
        if len(node.orelse) == 1 and isinstance(node.orelse[0], ast.If) and node.orelse[0] in chain:
            node = node.orelse[0]
            continue
        if not (len(node.orelse) == 1 and isinstance(node.orelse[0], ast.Raise)):
            _bad("the pass_y_ chain does not end with a raise")
        break
    expr = "".join(f'if constraints == "{k}" then some {"true" if v else "false"} else ' for k, v in arms) + "none"
    return expr, "; ".join(f"constraints == {k!r}: pass_y_ = {v}" for k, v in arms) + "; else ValueError"


def lift_adv_width(repo):
    rel = "fairlearn/adversarial/_backend_engine.py"
    with open(os.path.join(repo, rel)) as f:
        tree = normalize.parse(f.read())
    calls = [n for n in ast.walk(tree) if isinstance(n, ast.Call) and _src(n.func) == "self.__init_model__" and len(n.args) == 5
             and _src(n.args[4]) == "'adversary'"]
    if len(calls) != 1:
        _bad("_backend_engine.py: the adversary model is not built by one __init_model__(.., 'adversary') call")
    w = calls[0].args[2]
    src = _src(w)

    def tr(n):
        s_ = _src(n)
        if s_ == "n_Y_features":
            return "n_Y_features"
        if isinstance(n, ast.Constant) and isinstance(n.value, int) and not isinstance(n.value, bool) and n.value >= 0:
            return str(n.value)
        if isinstance(n, ast.BinOp) and isinstance(n.op, (ast.Mult, ast.Add)):
            return f"({tr(n.left)} {'*' if isinstance(n.op, ast.Mult) else '+'} {tr(n.right)})"
        if isinstance(n, ast.IfExp) and _src(n.test) == "base.pass_y_":
            return f"(if pass_y then {tr(n.body)} else {tr(n.orelse)})"
        _bad(f"_backend_engine.py: adversary input width `{src}`")
    defs = [n for n in ast.walk(tree) if isinstance(n, ast.Assign) and _src(n.targets[0]) == "n_Y_features"]
    if len(defs) != 1 or _src(defs[0].value) != "base._y_transform.n_features_out_":
        _bad("_backend_engine.py: n_Y_features is not the width of the encoded target")
    if normalize.lean_prefer(tr(w), [PINNED_WIDTH[0]]) == PINNED_WIDTH[0]:
        return PINNED_WIDTH          # natural-number product: operand order is immaterial
    return tr(w), src


@translate.lifter
def adv_trainstep(repo):
    return lift(repo)
