"""Lifter for fairlearn/metrics/_base_metrics.py -> Generated/BaseMetricsSrc.lean

A small syntax-directed translator Python `ast` -> Lean `do`-notation (monad `Except BaseMetrics.Err`) for the
BODIES of
    _get_labels_for_confusion_matrix, true_positive_rate, true_negative_rate, false_positive_rate,
    false_negative_rate, count, mean_prediction, selection_rate.
Every statement of these functions is translated (assignment, tuple unpacking, if/elif/else, raise ValueError(<message
constant>), return, `x.append(e)`, `check_consistent_length(a, b)`, pass); every expression is translated into the
numpy/sklearn primitives of `Model/NumpySk.lean` (np.dot, .sum(), np.ones, ==, len, np.unique, np.vstack,
frozenset.issuperset, skm.confusion_matrix(..., sample_weight=, labels=, normalize=).ravel(), subscripts).  So the lifted
facts include: which confusion-matrix cell each rate returns (position of the returned name in the unpacked `.ravel()`,
or an explicit subscript), the `normalize=` / `sample_weight=` / `labels=` arguments and the argument order of the
confusion-matrix call, which arrays the labels are derived from, the complete guard structure of
`_get_labels_for_confusion_matrix` (when it raises what, the default pos_label rule, the `[neg, pos]` order, the
int64-min filler), and the closed expressions of selection_rate / mean_prediction / count incl. the default weights
and the empty-input guard.

Anything outside this fragment raises `translate.Untranslatable` (= broken tie).  `Lemmas/BaseMetricsSrc.lean`
proves the generated functions equal to the hand-written model `Model/BaseMetrics.lean` (`*_eq_model`), the C14/C11
theorems are restated for the generated functions through these equations, and the driver evaluates the GENERATED
functions (ops `bms.*`) against real fairlearn and against the Fraction oracle on every case."""
import ast
import hashlib
import os

from .. import translate

REL = "fairlearn/metrics/_base_metrics.py"

LEAN_KEYWORDS = {"at", "fun", "let", "in", "do", "then", "else", "if", "end", "from", "have", "show", "with", "open",
                 "where", "match", "by", "namespace", "section", "variable", "def", "theorem", "example", "instance",
                 "structure", "inductive", "class", "mut", "return", "for", "unless", "try", "catch", "throw", "pure",
                 "some", "none", "true", "false", "Type", "Prop", "Sort", "import", "export", "deriving", "local"}

ERRORS = {  # module-level message constant -> Err constructor
    "_RESTRICTED_VALS_IF_POS_LABEL_NONE": "restricted",
    "_NEED_POS_LABEL_IN_Y_VALS": "needPos",
    "_TOO_MANY_UNIQUE_Y_VALS": "tooMany",
    "_EMPTY_INPUT_PREDICTIONS_ERROR_MESSAGE": "empty",
}

LEAN_TYPE = {"ivec": "List Int", "rvec": "List Rat", "orvec": "Option (List Rat)", "oint": "Option Int", "int": "Int",
             "rat": "Rat", "nat": "Nat", "bool": "Bool", "cm": "List (List Rat)"}

# python signature that each function must have: (name, type, default) ; "*" marks keyword-only parameters
SIGS = {
    "_get_labels_for_confusion_matrix": dict(params=[("labels", "ivec", "req"), ("pos_label", "oint", "req")], ret="ivec"),
    "true_positive_rate": dict(params=[("y_true", "ivec", "req"), ("y_pred", "ivec", "req"), ("sample_weight", "orvec", None),
                                       ("pos_label", "oint", None)], ret="rat"),
    "count": dict(params=[("y_true", "ivec", "req"), ("y_pred", "ivec", "req")], ret="nat"),
    "mean_prediction": dict(params=[("y_true", "rvec", "req"), ("y_pred", "rvec", "req"), ("sample_weight", "orvec", None)],
                            ret="rat"),
    "selection_rate": dict(params=[("y_true", "ivec", "req"), ("y_pred", "ivec", "req"), ("*pos_label", "int", 1),
                                   ("*sample_weight", "orvec", None)], ret="rat"),
}
for _k in ("true_negative_rate", "false_positive_rate", "false_negative_rate"):
    SIGS[_k] = SIGS["true_positive_rate"]
ORDER = ["_get_labels_for_confusion_matrix", "true_positive_rate", "true_negative_rate", "false_positive_rate",
         "false_negative_rate", "count", "mean_prediction", "selection_rate"]


def U(msg):
    return translate.Untranslatable(f"{REL}: {msg}")


def ident(name):
    if not name.isidentifier():
        raise U(f"bad identifier {name!r}")
    return f"«{name}»" if name in LEAN_KEYWORDS else name


def lean_name(pyname):
    return ident(pyname.lstrip("_"))


def dotted(e):
    """a.b.c -> 'a.b.c' for Name/Attribute chains, else None"""
    parts = []
    while isinstance(e, ast.Attribute):
        parts.append(e.attr)
        e = e.value
    if isinstance(e, ast.Name):
        parts.append(e.id)
        return ".".join(reversed(parts))
    return None


class Fn:
    """translation state of one function body"""

    def __init__(self, name):
        self.name = name
        self.env = {}        # python name -> type
        self.refined = {}    # python name -> (lean expr, type) valid in the current block (after `x is not None`)
        self.tmp = 0

    def err(self, msg, node=None):
        where = f" (line {node.lineno})" if node is not None and hasattr(node, "lineno") else ""
        return U(f"{self.name}{where}: {msg}")

    # ------------------------------------------------------------------ expressions -> (lean, type)
    def const_int(self, e):
        if isinstance(e, ast.Constant) and isinstance(e.value, int) and not isinstance(e.value, bool):
            return e.value
        if isinstance(e, ast.UnaryOp) and isinstance(e.op, ast.USub) and isinstance(e.operand, ast.Constant) \
                and isinstance(e.operand.value, int) and not isinstance(e.operand.value, bool):
            return -e.operand.value
        return None

    def expr(self, e):
        k = self.const_int(e)
        if k is not None:
            return (f"({k} : Int)", "int")
        if isinstance(e, ast.Name):
            if e.id in self.refined:
                return self.refined[e.id]
            if e.id in self.env:
                return (ident(e.id), self.env[e.id])
            raise self.err(f"unknown name {e.id!r}", e)
        if isinstance(e, ast.BoolOp):
            parts = [self.as_bool(v) for v in e.values]
            op = " || " if isinstance(e.op, ast.Or) else " && "
            return ("(" + op.join(parts) + ")", "bool")
        if isinstance(e, ast.UnaryOp) and isinstance(e.op, ast.Not):
            return (f"(!{self.as_bool(e.operand)})", "bool")
        if isinstance(e, ast.Compare):
            return self.compare(e)
        if isinstance(e, ast.BinOp):
            return self.binop(e)
        if isinstance(e, ast.List):
            pieces = []
            for el in e.elts:
                s, t = self.expr(el)
                if t == "int":
                    pieces.append(f"[{s}]")
                elif t == "oint":
                    pieces.append(f"{s}.toList")
                else:
                    raise self.err(f"list element of type {t}", el)
            return ("(" + " ++ ".join(pieces) + ")" if pieces else "([] : List Int)", "ivec")
        if isinstance(e, ast.Tuple):
            raise self.err("tuple expression outside np.vstack", e)
        if isinstance(e, ast.Subscript):
            return self.subscript(e)
        if isinstance(e, ast.Attribute):
            if e.attr == "min" and isinstance(e.value, ast.Call) and dotted(e.value.func) == "np.iinfo" \
                    and len(e.value.args) == 1 and dotted(e.value.args[0]) == "np.int64":
                return ("int64Min", "int")
            raise self.err(f"unsupported attribute {ast.unparse(e)}", e)
        if isinstance(e, ast.Call):
            return self.call(e)
        raise self.err(f"unsupported expression {ast.unparse(e)}", e)

    def as_bool(self, e):
        s, t = self.expr(e)
        if t != "bool":
            raise self.err(f"condition {ast.unparse(e)} has type {t}", e)
        return s

    def as_opt_int(self, e):
        s, t = self.expr(e)
        if t == "oint":
            return s
        if t == "int":
            return f"(some {s})"
        raise self.err(f"{ast.unparse(e)} is not an integer label", e)

    def as_rat(self, e):
        s, t = self.expr(e)
        if t == "rat":
            return s
        if t in ("nat", "int"):
            return f"(({s} : {LEAN_TYPE[t]}) : Rat)"
        raise self.err(f"{ast.unparse(e)} is not a number (type {t})", e)

    def compare(self, e):
        if len(e.ops) != 1 or len(e.comparators) != 1:
            raise self.err("chained comparison", e)
        op, l, r = e.ops[0], e.left, e.comparators[0]
        if isinstance(op, (ast.Is, ast.IsNot)):
            if not (isinstance(r, ast.Constant) and r.value is None and isinstance(l, ast.Name)):
                raise self.err("`is` is only supported against None", e)
            if l.id in self.refined or self.env.get(l.id) not in ("orvec", "oint"):
                raise self.err(f"`{l.id} is None` on a non-optional value", e)
            return (f"{ident(l.id)}.{'isNone' if isinstance(op, ast.Is) else 'isSome'}", "bool")
        # len(x) <cmp> k
        if isinstance(l, ast.Call) and dotted(l.func) == "len":
            k = self.const_int(r)
            if k is None or k < 0:
                raise self.err("len(...) compared with a non-constant", e)
            lop = {ast.Eq: "==", ast.NotEq: "!=", ast.Gt: ">", ast.GtE: "≥", ast.Lt: "<", ast.LtE: "≤"}.get(type(op))
            if lop is None:
                raise self.err("unsupported comparison of len(...)", e)
            ls, lt = self.expr(l)
            if lop in ("==", "!="):
                return (f"({ls} {lop} {k})", "bool")
            return (f"(decide ({ls} {lop} {k}))", "bool")
        if not isinstance(op, (ast.Eq, ast.NotEq)):
            raise self.err(f"unsupported comparison {ast.unparse(e)}", e)
        ls, lt = self.expr(l)
        rs, rt = self.expr(r)
        if lt == "ivec" and rt == "int":
            return (f"({'eqInd' if isinstance(op, ast.Eq) else 'neInd'} {ls} {rs})", "rvec")
        if lt in ("int", "oint") and rt in ("int", "oint"):
            a, b = self.as_opt_int(l), self.as_opt_int(r)
            return (f"({a} {'==' if isinstance(op, ast.Eq) else '!='} {b})", "bool")
        raise self.err(f"unsupported comparison {ast.unparse(e)} ({lt} vs {rt})", e)

    def binop(self, e):
        op = {ast.Div: "/", ast.Mult: "*", ast.Add: "+", ast.Sub: "-"}.get(type(e.op))
        if op is None:
            raise self.err(f"unsupported operator in {ast.unparse(e)}", e)
        return (f"({self.as_rat(e.left)} {op} {self.as_rat(e.right)})", "rat")

    def subscript(self, e):
        s, t = self.expr(e.value)
        sl = e.slice
        if t == "ivec":
            k = self.const_int(sl)
            if k is None or k < 0:
                raise self.err("label list indexed by a non-constant", e)
            return (f"{s}[{k}]?", "oint")
        if t == "rvec":
            k = self.const_int(sl)
            if k is None or k < 0:
                raise self.err("array indexed by a non-constant", e)
            return (f"({s}.getD {k} 0)", "rat")
        if t == "cm":
            if isinstance(sl, ast.Tuple) and len(sl.elts) == 2:
                i, j = self.const_int(sl.elts[0]), self.const_int(sl.elts[1])
                if i is None or j is None or i < 0 or j < 0:
                    raise self.err("confusion matrix indexed by non-constants", e)
                return (f"(({s}.getD {i} []).getD {j} 0)", "rat")
            k = self.const_int(sl)
            if k is None or k < 0:
                raise self.err("confusion matrix indexed by a non-constant", e)
            return (f"({s}.getD {k} [])", "rvec")
        raise self.err(f"subscript on a value of type {t}", e)

    def call(self, e):
        f = dotted(e.func)
        args, kws = e.args, {k.arg: k.value for k in e.keywords}
        if any(k.arg is None for k in e.keywords):
            raise self.err("**kwargs in a call", e)

        def plain(n):
            if len(args) != n or kws:
                raise self.err(f"{f}: expected {n} positional argument(s)", e)

        if f == "len":
            plain(1)
            s, t = self.expr(args[0])
            if t not in ("ivec", "rvec"):
                raise self.err(f"len() of a value of type {t}", e)
            return (f"{s}.length", "nat")
        if f == "list":
            plain(1)
            if isinstance(args[0], ast.Call) and dotted(args[0].func) == "reversed":
                if len(args[0].args) != 1:
                    raise self.err("reversed() arity", e)
                s, t = self.expr(args[0].args[0])
                if t != "ivec":
                    raise self.err("reversed() of a non-list", e)
                return (f"{s}.reverse", "ivec")
            s, t = self.expr(args[0])
            if t not in ("ivec", "rvec"):
                raise self.err(f"list() of a value of type {t}", e)
            return (s, t)
        if f == "np.unique":
            plain(1)
            s, t = self.expr(args[0])
            if t != "ivec":
                raise self.err("np.unique of a non-label array", e)
            return (f"(uniqueSorted {s})", "ivec")
        if f == "np.vstack":
            plain(1)
            if not isinstance(args[0], (ast.Tuple, ast.List)) or not args[0].elts:
                raise self.err("np.vstack argument is not a tuple", e)
            parts = []
            for el in args[0].elts:
                s, t = self.expr(el)
                if t != "ivec":
                    raise self.err("np.vstack of a non-label array", e)
                parts.append(s)
            return ("(vstack [" + ", ".join(parts) + "])", "ivec")
        if f == "frozenset" or f == "set":
            plain(1)
            if not isinstance(args[0], (ast.List, ast.Tuple, ast.Set)):
                raise self.err("frozenset of a non-literal", e)
            ks = [self.const_int(x) for x in args[0].elts]
            if any(k is None for k in ks):
                raise self.err("frozenset of non-integer constants", e)
            return ("([" + ", ".join(f"({k} : Int)" for k in ks) + "] : List Int)", "iset")
        if isinstance(e.func, ast.Attribute) and e.func.attr == "issuperset":
            plain(1)
            s, t = self.expr(e.func.value)
            a, at = self.expr(args[0])
            if t != "iset" or at != "ivec":
                raise self.err("issuperset on unexpected operands", e)
            return (f"(issuperset {s} {a})", "bool")
        if f == "_convert_to_ndarray_and_squeeze" or f == "np.asarray" or f == "np.array":
            plain(1)
            s, t = self.expr(args[0])
            if t not in ("ivec", "rvec"):
                raise self.err(f"{f} of a value of type {t} (an optional argument must be tested against None first)", e)
            return (s, t)
        if f in ("np.ones", "np.zeros"):
            plain(1)
            s, t = self.expr(args[0])
            if t != "nat":
                raise self.err(f"{f} of a non-length", e)
            return (f"({f[3:]} {s})", "rvec")
        if f == "np.dot":
            plain(2)
            (a, at), (b, bt) = self.expr(args[0]), self.expr(args[1])
            if at != "rvec" or bt != "rvec":
                raise self.err(f"np.dot of {at} and {bt}", e)
            return (f"(dot {a} {b})", "rat")
        if isinstance(e.func, ast.Attribute) and e.func.attr == "sum" and dotted(e.func) != "np.sum":
            plain(0)
            s, t = self.expr(e.func.value)
            if t != "rvec":
                raise self.err(f".sum() of a value of type {t}", e)
            return (f"(vsum {s})", "rat")
        if f == "np.sum":
            plain(1)
            s, t = self.expr(args[0])
            if t != "rvec":
                raise self.err(f"np.sum of a value of type {t}", e)
            return (f"(vsum {s})", "rat")
        if isinstance(e.func, ast.Attribute) and e.func.attr in ("ravel", "flatten"):
            plain(0)
            s, t = self.expr(e.func.value)
            if t != "cm":
                raise self.err(".ravel() of something that is not a confusion matrix", e)
            return (f"(ravel {s})", "rvec")
        if f in ("skm.confusion_matrix", "confusion_matrix", "sklearn.metrics.confusion_matrix"):
            names = ["y_true", "y_pred"]
            pos = list(args)
            if len(pos) > 2:
                raise self.err("confusion_matrix with more than two positional arguments", e)
            given = {}
            for nm, a in zip(names, pos):
                given[nm] = a
            for k, v in kws.items():
                if k in given or k not in ("y_true", "y_pred", "labels", "sample_weight", "normalize"):
                    raise self.err(f"confusion_matrix keyword {k!r}", e)
                given[k] = v
            if "y_true" not in given or "y_pred" not in given:
                raise self.err("confusion_matrix without y_true / y_pred", e)
            if "labels" not in given:
                raise self.err("confusion_matrix without labels= (sklearn would infer them: not modelled)", e)
            yt, ytt = self.expr(given["y_true"])
            yp, ypt = self.expr(given["y_pred"])
            lb, lbt = self.expr(given["labels"])
            if ytt != "ivec" or ypt != "ivec" or lbt != "ivec":
                raise self.err("confusion_matrix operands are not label arrays", e)
            if "sample_weight" in given:
                v = given["sample_weight"]
                if isinstance(v, ast.Constant) and v.value is None:
                    sw = "none"
                elif isinstance(v, ast.Name) and self.env.get(v.id) == "orvec" and v.id not in self.refined:
                    sw = ident(v.id)
                else:
                    swe, swt = self.expr(v)
                    if swt != "rvec":
                        raise self.err("confusion_matrix sample_weight of unexpected type", e)
                    sw = f"(some {swe})"
            else:
                sw = "none"
            if "normalize" in given:
                v = given["normalize"]
                if not isinstance(v, ast.Constant) or v.value not in ("true", "pred", "all", None):
                    raise self.err("confusion_matrix normalize= is not a known constant", e)
                nz = {"true": "Normalize.true_", "pred": "Normalize.pred", "all": "Normalize.all", None: "Normalize.none"}[v.value]
            else:
                nz = "Normalize.none"
            return (f"(confusionMatrix {yt} {yp} {sw} {lb} {nz})", "cm")
        if f == "_get_labels_for_confusion_matrix":
            plain(2)
            a, at = self.expr(args[0])
            if at != "ivec":
                raise self.err("labels argument is not a label array", e)
            b = args[1]
            if isinstance(b, ast.Constant) and b.value is None:
                bs = "none"
            else:
                bs = self.as_opt_int(b)
            return (f"(← get_labels_for_confusion_matrix {a} {bs})", "ivec")
        raise self.err(f"unsupported call {ast.unparse(e)}", e)

    # ------------------------------------------------------------------ statements -> list of lines
    def assign(self, name, value, ind, node):
        s, t = value
        if t == "iset":
            t_store = "iset"
        elif t in LEAN_TYPE:
            t_store = t
        else:
            raise self.err(f"cannot store a value of type {t}", node)
        self.refined.pop(name, None)
        if name in self.env:
            if self.env[name] == "oint" and t_store == "int":
                s, t_store = f"(some {s})", "oint"
            if self.env[name] != t_store:
                raise self.err(f"{name} changes type from {self.env[name]} to {t_store}", node)
            return [f"{ind}{ident(name)} := {s}"]
        self.env[name] = t_store
        return [f"{ind}let mut {ident(name)} := {s}"]

    def block(self, stmts, ind):
        """translate a statement list; names first bound inside are local to the block"""
        outer_env, outer_ref = dict(self.env), dict(self.refined)
        out = []
        for st in stmts:
            out.extend(self.stmt(st, ind))
        if not out:
            out = [f"{ind}pure ()"]
        # block-local names disappear; refinements made inside do not leak
        self.env = {k: v for k, v in self.env.items() if k in outer_env}
        self.refined = {k: v for k, v in outer_ref.items() if k in self.refined}
        return out

    def stmt(self, st, ind):
        if isinstance(st, ast.Expr) and isinstance(st.value, ast.Constant) and isinstance(st.value.value, str):
            return []
        if isinstance(st, ast.Pass):
            return [f"{ind}pure ()"]
        if isinstance(st, ast.Assign):
            if len(st.targets) != 1:
                raise self.err("chained assignment", st)
            tg = st.targets[0]
            if isinstance(tg, ast.Name):
                return self.assign(tg.id, self.expr(st.value), ind, st)
            if isinstance(tg, ast.Tuple) and all(isinstance(x, ast.Name) for x in tg.elts):
                s, t = self.expr(st.value)
                if t != "rvec":
                    raise self.err(f"tuple unpacking of a value of type {t}", st)
                self.tmp += 1
                tmp = f"unpacked_{self.tmp}"
                out = [f"{ind}let {tmp} := {s}"]
                names = [x.id for x in tg.elts]
                if len(set(names)) != len(names):
                    raise self.err("duplicate names in tuple unpacking", st)
                for i, nm in enumerate(names):
                    out.extend(self.assign(nm, (f"({tmp}.getD {i} 0)", "rat"), ind, st))
                return out
            raise self.err("unsupported assignment target", st)
        if isinstance(st, ast.Return):
            if st.value is None:
                raise self.err("bare return", st)
            s, t = self.expr(st.value)
            want = SIGS[self.name]["ret"]
            if t != want:
                raise self.err(f"returns a value of type {t}, expected {want}", st)
            return [f"{ind}return {s}"]
        if isinstance(st, ast.Raise):
            c = st.exc
            if not (isinstance(c, ast.Call) and dotted(c.func) == "ValueError" and len(c.args) == 1
                    and isinstance(c.args[0], ast.Name) and c.args[0].id in ERRORS and st.cause is None):
                raise self.err(f"unsupported raise {ast.unparse(st)}", st)
            return [f"{ind}throw Err.{ERRORS[c.args[0].id]}"]
        if isinstance(st, ast.Expr) and isinstance(st.value, ast.Call):
            c = st.value
            f = dotted(c.func)
            if f == "check_consistent_length":
                if len(c.args) != 2 or c.keywords:
                    raise self.err("check_consistent_length arity", st)
                (a, at), (b, bt) = self.expr(c.args[0]), self.expr(c.args[1])
                if at not in ("ivec", "rvec") or bt not in ("ivec", "rvec"):
                    raise self.err("check_consistent_length of non-arrays", st)
                return [f"{ind}if {a}.length != {b}.length then", f"{ind}  throw Err.inconsistent"]
            if isinstance(c.func, ast.Attribute) and c.func.attr == "append" and isinstance(c.func.value, ast.Name) \
                    and len(c.args) == 1 and not c.keywords:
                nm = c.func.value.id
                if self.env.get(nm) != "ivec":
                    raise self.err(".append on something that is not a label list", st)
                s, t = self.expr(c.args[0])
                piece = f"[{s}]" if t == "int" else f"{s}.toList" if t == "oint" else None
                if piece is None:
                    raise self.err(f".append of a value of type {t}", st)
                return [f"{ind}{ident(nm)} := {ident(nm)} ++ {piece}"]
            raise self.err(f"unsupported statement {ast.unparse(st)}", st)
        if isinstance(st, ast.If):
            cond = self.as_bool(st.test)
            out = [f"{ind}if {cond} then"]
            # `if x is not None:` refines x inside the body
            saved = dict(self.refined)
            t = st.test
            if isinstance(t, ast.Compare) and len(t.ops) == 1 and isinstance(t.ops[0], ast.IsNot) \
                    and isinstance(t.left, ast.Name) and self.env.get(t.left.id) == "orvec":
                self.refined[t.left.id] = (f"({ident(t.left.id)}.getD [])", "rvec")
            out.extend(self.block(st.body, ind + "  "))
            self.refined = saved
            if st.orelse:
                saved = dict(self.refined)
                if isinstance(t, ast.Compare) and len(t.ops) == 1 and isinstance(t.ops[0], ast.Is) \
                        and isinstance(t.left, ast.Name) and self.env.get(t.left.id) == "orvec":
                    self.refined[t.left.id] = (f"({ident(t.left.id)}.getD [])", "rvec")
                out.append(f"{ind}else")
                out.extend(self.block(st.orelse, ind + "  "))
                self.refined = saved
            return out
        raise self.err(f"unsupported statement {type(st).__name__}", st)


def check_signature(fn):
    want = SIGS[fn.name]["params"]
    a = fn.args
    if a.vararg or a.kwarg or a.posonlyargs:
        raise U(f"{fn.name}: *args/**kwargs/positional-only parameters")
    pos = [(x.arg, d) for x, d in zip(a.args, [None] * (len(a.args) - len(a.defaults)) + list(a.defaults))]
    kwo = [("*" + x.arg, d) for x, d in zip(a.kwonlyargs, a.kw_defaults)]
    got = pos + kwo
    if [g[0] for g in got] != [w[0] for w in want]:
        raise U(f"{fn.name}: parameters {[g[0] for g in got]} (expected {[w[0] for w in want]})")
    for (nm, d), (_, _, wd) in zip(got, want):
        if wd == "req":
            if d is not None:
                raise U(f"{fn.name}: parameter {nm} has a default")
        else:
            if d is None or not isinstance(d, ast.Constant) or d.value != wd or type(d.value) is not type(wd):
                raise U(f"{fn.name}: default of {nm} is {ast.unparse(d) if d is not None else 'missing'}, expected {wd!r}")


def assigned_names(fn):
    out = set()
    for n in ast.walk(fn):
        if isinstance(n, ast.Assign):
            for t in n.targets:
                for x in ast.walk(t):
                    if isinstance(x, ast.Name):
                        out.add(x.id)
        if isinstance(n, ast.Call) and isinstance(n.func, ast.Attribute) and n.func.attr == "append" \
                and isinstance(n.func.value, ast.Name):
            out.add(n.func.value.id)
    return out


def lift_function(fn):
    check_signature(fn)
    sig = SIGS[fn.name]
    tr = Fn(fn.name)
    params = []
    for nm, ty, _ in sig["params"]:
        nm = nm.lstrip("*")
        tr.env[nm] = ty
        params.append(f"({ident(nm)} : {LEAN_TYPE[ty]})")
    body = [s for s in fn.body if not (isinstance(s, ast.Expr) and isinstance(s.value, ast.Constant))]
    if not body or not isinstance(body[-1], ast.Return):
        raise U(f"{fn.name}: the body does not end with a return statement")
    lines = []
    mutated = assigned_names(fn)
    for nm, ty, _ in sig["params"]:
        nm = nm.lstrip("*")
        if nm in mutated:
            lines.append(f"  let mut {ident(nm)} := {ident(nm)}")
    for st in body:
        lines.extend(tr.stmt(st, "  "))
    head = f"def {lean_name(fn.name)} " + " ".join(params) + f" :\n    Except Err ({LEAN_TYPE[sig['ret']]}) := do"
    src = "\n".join(ast.unparse(s) for s in body)
    return head + "\n" + "\n".join(lines), src


# locals of the pinned functions in order of first binding (normalize.rename_locals: a consistent renaming of the locals of a
# function leaves the generated text unchanged)
VALUE_PINNED_LOCALS = {
    "_get_labels_for_confusion_matrix": ["unique_labels", "labels01", "labels11"],
    "true_positive_rate": ["unique_labels", "tnr", "fpr", "fnr", "tpr"],
    "true_negative_rate": ["unique_labels", "tnr", "fpr", "fnr", "tpr"],
    "false_positive_rate": ["unique_labels", "tnr", "fpr", "fnr", "tpr"],
    "false_negative_rate": ["unique_labels", "tnr", "fpr", "fnr", "tpr"],
    "mean_prediction": ["y_p", "s_w"],
    "selection_rate": ["selected", "s_w"],
}


@translate.lifter
def lift(repo):
    text = open(os.path.join(repo, REL)).read()
    tree = ast.parse(text)
    fns = {n.name: n for n in tree.body if isinstance(n, ast.FunctionDef)}
    consts = {}
    for n in tree.body:
        if isinstance(n, ast.Assign) and len(n.targets) == 1 and isinstance(n.targets[0], ast.Name) \
                and n.targets[0].id in ERRORS:
            consts[n.targets[0].id] = True
    missing = [k for k in ERRORS if k not in consts]
    if missing:
        raise U(f"message constants {missing} not found")
    defs, meta_src = [], {}
    for name in ORDER:
        if name not in fns:
            raise U(f"function {name} not found")
        from . import normalize
        d, src = lift_function(normalize.rename_locals(fns[name], VALUE_PINNED_LOCALS[name]) if VALUE_PINNED_LOCALS.get(name)
                               else fns[name])
        defs.append(f"/-- `{name}` ({REL}) -/\n{d}")
        meta_src[name] = hashlib.sha256(src.encode()).hexdigest()[:16]
    lean = f"""-- GENERATED by harness/lifters/base_metrics.py from {REL}; do not edit.
-- Statement-by-statement translation of the function bodies into `Except Err` do-notation over the
-- numpy / scikit-learn primitives of Model/NumpySk.lean.
import FairModel.Model.NumpySk

set_option linter.unusedVariables false

namespace BaseMetricsSrc
open BaseMetrics NumpySk

""" + "\n\n".join(defs) + "\n\nend BaseMetricsSrc\n"
    meta = {"source": REL, "functions": meta_src, "sha256": hashlib.sha256(lean.encode()).hexdigest()}
    return "BaseMetricsSrc.lean", lean, meta


# =====================================================================================================================
# Shape-level translation: `_convert_to_ndarray_and_squeeze` (fairlearn/utils/_input_manipulations.py) and the closed
# expressions of `selection_rate` / `mean_prediction` -> Generated/SqueezeSrc.lean over Model/NdShape.lean.
# The value-level translation above reads `_convert_to_ndarray_and_squeeze(v)` of a VECTOR `v` as `v`; that reading is the
# theorem `C14.src_squeeze_vector` about the function translated here, and "returns a scalar" is
# `C14.src_selection_rate_scalar` / `src_mean_prediction_scalar` about the shape-level bodies.
IM_REL = "fairlearn/utils/_input_manipulations.py"
SQUEEZE = "_convert_to_ndarray_and_squeeze"
SHAPE_FUNCS = {  # name -> parameters (name, kind); kind: shape | oshape (None allowed) | scalar (never an array operand)
    "selection_rate": [("y_true", "shape"), ("y_pred", "shape"), ("pos_label", "scalar"), ("sample_weight", "oshape")],
    "mean_prediction": [("y_true", "shape"), ("y_pred", "shape"), ("sample_weight", "oshape")],
}


# locals of the pinned functions in order of first binding (normalize.canon_function)
SHAPE_PINNED_LOCALS = {SQUEEZE: ["result"], "selection_rate": ["selected", "s_w"], "mean_prediction": ["y_p", "s_w"]}


def US(msg):
    return translate.Untranslatable(f"shape translation: {msg}")


def int_const(e):
    if isinstance(e, ast.Constant) and isinstance(e.value, int) and not isinstance(e.value, bool):
        return e.value
    return None


class ShapeFn:
    """statement / expression translator into `Except ShapeErr` do-notation; every value is a Shape, a Nat (`len`) or a
    scalar (a 0-d operand: shape `[]`)"""

    def __init__(self, name, env, conv_name):
        self.name, self.env, self.conv = name, dict(env), conv_name
        self.known_some = set()

    def err(self, msg, node=None):
        ln = f" (line {node.lineno})" if node is not None and hasattr(node, "lineno") else ""
        return US(f"{self.name}{ln}: {msg}")

    def call_parts(self, e, n, what):
        if e.keywords or len(e.args) != n or any(isinstance(a, ast.Starred) for a in e.args):
            raise self.err(f"unexpected arguments of {what}: {ast.unparse(e)}", e)
        return e.args

    def shape(self, e):
        """-> Lean term of type Shape (may contain `(← ...)`)"""
        if isinstance(e, ast.Name):
            k = self.env.get(e.id)
            if k == "shape":
                return ident(e.id)
            if k == "oshape":
                if e.id not in self.known_some:
                    raise self.err(f"{e.id} used as an array without an `is not None` test", e)
                return f"({ident(e.id)}.getD [])"
            if k == "scalar":
                return "([] : Shape)"
            raise self.err(f"{e.id} is not an array here", e)
        if isinstance(e, ast.Constant) and isinstance(e.value, (int, float)) and not isinstance(e.value, bool):
            return "([] : Shape)"
        if isinstance(e, ast.Compare) and len(e.ops) == 1 and isinstance(e.ops[0], (ast.Eq, ast.NotEq, ast.Lt, ast.Gt, ast.LtE, ast.GtE)):
            return f"(← npBroadcast {self.shape(e.left)} {self.shape(e.comparators[0])})"
        if isinstance(e, ast.BinOp) and isinstance(e.op, (ast.Add, ast.Sub, ast.Mult, ast.Div)):
            return f"(← npBroadcast {self.shape(e.left)} {self.shape(e.right)})"
        if isinstance(e, ast.Call):
            f = dotted(e.func)
            if f == SQUEEZE and self.conv is not None:
                (a,) = self.call_parts(e, 1, f)
                return f"(← {self.conv} {self.shape(a)})"
            if f == "np.asarray":
                (a,) = self.call_parts(e, 1, f)
                return self.shape(a)
            if f == "np.squeeze":
                (a,) = self.call_parts(e, 1, f)
                return f"(npSqueeze {self.shape(a)})"
            if f in ("np.ones", "np.zeros"):
                (a,) = self.call_parts(e, 1, f)
                return f"[{self.nat(a)}]"
            if f == "np.dot":
                a, b = self.call_parts(e, 2, f)
                return f"(← npDot {self.shape(a)} {self.shape(b)})"
            if isinstance(e.func, ast.Attribute) and e.func.attr == "sum" and f != "np.sum":
                self.call_parts(e, 0, ".sum()")
                return f"(npSum {self.shape(e.func.value)})"
            if isinstance(e.func, ast.Attribute) and e.func.attr == "squeeze" and f != "np.squeeze":
                self.call_parts(e, 0, ".squeeze()")
                return f"(npSqueeze {self.shape(e.func.value)})"
            if isinstance(e.func, ast.Attribute) and e.func.attr == "reshape" and f != "np.reshape":
                if e.keywords or not e.args:
                    raise self.err(f"unexpected arguments of reshape: {ast.unparse(e)}", e)
                dims = e.args[0].elts if len(e.args) == 1 and isinstance(e.args[0], (ast.Tuple, ast.List)) else e.args
                ks = [int_const(d) for d in dims]
                if any(k is None or k < 0 for k in ks):
                    raise self.err(f"reshape to something that is not a list of non-negative integer constants: {ast.unparse(e)}", e)
                return f"(← npReshape {self.shape(e.func.value)} [{', '.join(str(k) for k in ks)}])"
        raise self.err(f"unsupported array expression {ast.unparse(e)}", e)

    def nat(self, e):
        k = int_const(e)
        if k is not None and k >= 0:
            return str(k)
        if isinstance(e, ast.Call) and dotted(e.func) == "len":
            (a,) = self.call_parts(e, 1, "len")
            return f"(← npLen {self.shape(a)})"
        if isinstance(e, ast.Attribute) and e.attr == "size":
            return f"(size {self.shape(e.value)})"
        raise self.err(f"unsupported integer expression {ast.unparse(e)}", e)

    def cond(self, e):
        """-> (Lean Bool term, name known to be not None in the then-branch or None)"""
        if isinstance(e, ast.Compare) and len(e.ops) == 1:
            l, op, r = e.left, e.ops[0], e.comparators[0]
            if isinstance(l, ast.Name) and self.env.get(l.id) == "oshape" and isinstance(r, ast.Constant) and r.value is None \
                    and isinstance(op, ast.IsNot):
                return f"{ident(l.id)}.isSome", l.id
            sym = {ast.Eq: "==", ast.NotEq: "!=", ast.Gt: ">", ast.GtE: "≥", ast.Lt: "<", ast.LtE: "≤"}.get(type(op))
            if sym is not None:
                a, b = self.nat(l), self.nat(r)
                return (f"({a} {sym} {b})" if sym in ("==", "!=") else f"decide ({a} {sym} {b})"), None
        raise self.err(f"unsupported condition {ast.unparse(e)}", e)

    def block(self, body, ind):
        out = []
        for st in body:
            out.extend(self.stmt(st, ind))
        return out or [ind + "pure ()"]

    def stmt(self, st, ind):
        if isinstance(st, ast.Assign) and len(st.targets) == 1 and isinstance(st.targets[0], ast.Name):
            nm = st.targets[0].id
            if self.env.get(nm, "shape") != "shape":
                raise self.err(f"assignment to the parameter {nm}", st)
            s = self.shape(st.value)
            new = nm not in self.env
            self.env[nm] = "shape"
            return [f"{ind}{'let mut ' if new else ''}{ident(nm)} := {s}"]
        if isinstance(st, ast.If):
            c, some = self.cond(st.test)
            saved = set(self.known_some)
            if some:
                self.known_some.add(some)
            before = set(self.env)
            then = self.block(st.body, ind + "  ")
            self.known_some = saved
            els = self.block(st.orelse, ind + "  ") if st.orelse else None
            if set(self.env) != before:
                raise self.err("a local is introduced inside a branch", st)
            return [f"{ind}if {c} then"] + then + ([f"{ind}else"] + els if els else [])
        if isinstance(st, ast.Raise):
            exc = st.exc
            if isinstance(exc, ast.Call) and dotted(exc.func) == "ValueError":
                return [f"{ind}throw ShapeErr.valueError"]
            raise self.err(f"unsupported raise {ast.unparse(st)}", st)
        if isinstance(st, ast.Return) and st.value is not None:
            return [f"{ind}return {self.shape(st.value)}"]
        raise self.err(f"unsupported statement {ast.unparse(st)[:80]}", st)


def lift_shape_function(fn, params, lean_nm, conv_name, doc):
    a = fn.args
    names = [x.arg for x in a.posonlyargs + a.args + a.kwonlyargs]
    if a.vararg or a.kwarg or names != [p for p, _ in params]:
        raise US(f"{fn.name}: parameters {names}")
    from . import normalize
    fn = normalize.canon_function(fn, SHAPE_PINNED_LOCALS.get(fn.name, []),
                                  extra_funcs=(SQUEEZE, "len", "np.ones", "np.zeros", "np.asarray", "np.squeeze", "np.dot"),
                                  extra_methods=("sum", "reshape", "squeeze"))
    tr = ShapeFn(fn.name, dict(params), conv_name)
    body = list(fn.body)
    if not body or not isinstance(body[-1], ast.Return):
        raise US(f"{fn.name}: the body does not end with a return statement")
    lines = []
    for st in body:
        lines.extend(tr.stmt(st, "  "))
    ps = " ".join(f"({ident(p)} : {'Shape' if k == 'shape' else 'Option Shape'})" for p, k in params if k != "scalar")
    return f"/-- {doc} -/\ndef {lean_nm} {ps} : Except ShapeErr Shape := do\n" + "\n".join(lines)


@translate.lifter
def lift_squeeze(repo):
    from . import normalize
    im = normalize.parse(open(os.path.join(repo, IM_REL)).read())
    fns = {n.name: n for n in im.body if isinstance(n, ast.FunctionDef)}
    if SQUEEZE not in fns:
        raise US(f"{SQUEEZE} not found in {IM_REL}")
    conv = lift_shape_function(fns[SQUEEZE], [("target", "shape")], "convert_to_ndarray_and_squeeze_shape", None,
                               f"`{SQUEEZE}` ({IM_REL}): the shape of the result for `np.asarray(target).shape = target`")
    bm = normalize.parse(open(os.path.join(repo, REL)).read())
    bfns = {n.name: n for n in bm.body if isinstance(n, ast.FunctionDef)}
    # the helper must be THE function translated above (imported from the module, not redefined / aliased)
    imported = any(isinstance(n, ast.ImportFrom) and (n.module or "").endswith("_input_manipulations")
                   and any(al.name == SQUEEZE and al.asname in (None, SQUEEZE) for al in n.names) for n in bm.body)
    if not imported or SQUEEZE in bfns:
        raise US(f"{REL} does not import {SQUEEZE} from utils._input_manipulations")
    defs = [conv]
    for name, params in SHAPE_FUNCS.items():
        if name not in bfns:
            raise US(f"function {name} not found")
        defs.append(lift_shape_function(bfns[name], params, name + "_shape", "convert_to_ndarray_and_squeeze_shape",
                                        f"`{name}` ({REL}): the shape of the returned value, from the shapes of the arguments"))
    lean = f"""-- GENERATED by harness/lifters/base_metrics.py (lift_squeeze) from {IM_REL}, {REL}; do not edit.
-- Shape-level translation (which numpy shape every intermediate value has) over the primitives of Model/NdShape.lean.
import FairModel.Model.NdShape

set_option linter.unusedVariables false

namespace SqueezeSrc
open NdShape

""" + "\n\n".join(defs) + "\n\nend SqueezeSrc\n"
    return "SqueezeSrc.lean", lean, {"sources": [IM_REL, REL], "sha256": hashlib.sha256(lean.encode()).hexdigest()}
