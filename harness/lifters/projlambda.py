"""Lifter for `UtilityParity.project_lambda` (fairlearn/reductions/_moments/utility_parity.py)
-> lean/FairModel/Generated/ProjectLambdaSrc.lean.

The body is executed SYMBOLICALLY, statement by statement, on one (lambda["+"], lambda["-"]) pair `lp`, `lm`:

    if self.ratio == 1.0:                                   -> projects (ratio) := decide (ratio = 1)
        lambda_pos = lambda_vec["+"] - lambda_vec["-"]      env[lambda_pos] = (lp - lm)
        lambda_neg = -lambda_pos                            env[lambda_neg] = (-(lp - lm))      (a NEW Series: no aliasing)
        lambda_pos[lambda_pos < 0.0] = 0.0                  env[lambda_pos] = if (lp - lm) < 0 then 0 else (lp - lm)
        lambda_neg[lambda_neg < 0.0] = 0.0                  env[lambda_neg] = if (-(lp - lm)) < 0 then 0 else (-(lp - lm))
        lambda_projected = pd.concat([lambda_pos, lambda_neg], keys=["+", "-"], names=[_SIGN, _EVENT, _GROUP_ID])
        return lambda_projected                             -> posOf := the entry keyed "+", negOf := the entry keyed "-"
    return lambda_vec                                       (must be the argument itself: the identity)

Because the environment is updated in program order, the DATA FLOW is lifted, not only the expressions: computing
`lambda_neg` after the in-place clip of `lambda_pos`, aliasing (`lambda_neg = lambda_pos`), exchanged keys, a changed
operator / threshold / replacement value all change the emitted text (or are refused); renaming the locals, reordering
the two independent clips, temporaries, `if self.ratio != 1.0: return lambda_vec` first, and `if/else` instead of the
early return do not.  `Model/Moments.lean:projectLambda` and `Model/Saddle.lean:project` compute with the emitted
definitions; `Lemmas/ProjectLambda.lean` proves what C07/C08 need about them."""
import ast
from fractions import Fraction

from .. import translate
from . import normalize

UP = "fairlearn/reductions/_moments/utility_parity.py"
NAMES_WANT = "[_SIGN, _EVENT, _GROUP_ID]"


def _bad(msg):
    raise translate.Untranslatable("projlambda lifter: " + msg)


def _rat(node):
    if isinstance(node, ast.UnaryOp) and isinstance(node.op, ast.USub):
        return -_rat(node.operand)
    if not isinstance(node, ast.Constant) or isinstance(node.value, bool) or not isinstance(node.value, (int, float)):
        _bad(f"numeric literal expected, found {ast.unparse(node)!r}")
    return Fraction(repr(node.value)) if isinstance(node.value, float) else Fraction(node.value)


def _lean_rat(q):
    if q < 0:
        return f"(-{_lean_rat(-q)})"
    if q.denominator == 1:
        return f"({q.numerator} : Rat)"
    return f"(({q.numerator} : Rat) / {q.denominator})"


_CMP = {ast.Lt: "<", ast.LtE: "≤", ast.Gt: ">", ast.GtE: "≥", ast.Eq: "=", ast.NotEq: "≠"}


class _Sym:
    """symbolic state of the projecting branch: local name -> Lean term for ONE entry of that Series"""

    def __init__(self, lam):
        self.lam = lam
        self.env = {}
        self.pairs = {}

    def half(self, node):
        """`lam["+"]` / `lam.loc["+"]` -> lp ; "-" -> lm"""
        if not isinstance(node, ast.Subscript):
            return None
        base = node.value
        if isinstance(base, ast.Attribute) and base.attr == "loc":
            base = base.value
        if isinstance(base, ast.Name) and base.id == self.lam and isinstance(node.slice, ast.Constant):
            if node.slice.value == "+":
                return "lp"
            if node.slice.value == "-":
                return "lm"
            _bad(f"unknown half of the multiplier vector: {ast.unparse(node)}")
        return None

    def expr(self, node):
        """entry-wise arithmetic; the result is always a fresh object (never an alias of a tracked Series)"""
        h = self.half(node)
        if h is not None:
            return h
        if isinstance(node, ast.Name):
            if node.id in self.env:
                return self.env[node.id]
            _bad(f"read of an unknown name {node.id!r}")
        if isinstance(node, ast.Constant):
            return _lean_rat(_rat(node))
        if isinstance(node, ast.UnaryOp) and isinstance(node.op, ast.USub):
            return f"(-{self.expr(node.operand)})"
        if isinstance(node, ast.BinOp) and isinstance(node.op, (ast.Add, ast.Sub, ast.Mult)):
            op = {ast.Add: "+", ast.Sub: "-", ast.Mult: "*"}[type(node.op)]
            return f"({self.expr(node.left)} {op} {self.expr(node.right)})"
        if isinstance(node, ast.Call) and isinstance(node.func, ast.Attribute) and node.func.attr == "copy" \
                and not node.args and not node.keywords:
            return self.expr(node.func.value)
        if isinstance(node, ast.Call) and isinstance(node.func, ast.Attribute) and node.func.attr == "clip" \
                and not node.args and [k.arg for k in node.keywords] == ["lower"]:
            x, lo = self.expr(node.func.value), _lean_rat(_rat(node.keywords[0].value))
            return f"(if {x} < {lo} then {lo} else {x})"
        _bad(f"cannot translate {ast.unparse(node)!r}")

    def mask(self, node):
        if not (isinstance(node, ast.Compare) and len(node.ops) == 1 and type(node.ops[0]) in _CMP):
            _bad(f"mask of unknown shape: {ast.unparse(node)}")
        return f"{self.expr(node.left)} {_CMP[type(node.ops[0])]} {self.expr(node.comparators[0])}"

    def concat(self, node):
        """pd.concat([A, B], keys=["+", "-"], names=[_SIGN, _EVENT, _GROUP_ID]) -> (entry keyed "+", entry keyed "-")"""
        if not (isinstance(node, ast.Call) and ast.unparse(node.func) == "pd.concat" and len(node.args) == 1
                and isinstance(node.args[0], (ast.List, ast.Tuple)) and len(node.args[0].elts) == 2):
            return None
        kw = {k.arg: k.value for k in node.keywords}
        if set(kw) != {"keys", "names"} or ast.unparse(kw["names"]) != NAMES_WANT:
            _bad(f"concat keywords changed: {ast.unparse(node)}")
        keys = kw["keys"]
        if not (isinstance(keys, (ast.List, ast.Tuple)) and len(keys.elts) == 2
                and all(isinstance(k, ast.Constant) for k in keys.elts)
                and sorted(k.value for k in keys.elts) == ["+", "-"]):
            _bad(f"concat keys changed: {ast.unparse(keys)}")
        parts = {k.value: self.expr(e) for k, e in zip(keys.elts, node.args[0].elts)}
        return parts["+"], parts["-"]

    def run(self, stmts):
        """-> (posOf term, negOf term) of the returned vector"""
        for k, st in enumerate(stmts):
            if isinstance(st, ast.Return):
                if k != len(stmts) - 1 or st.value is None:
                    _bad("statements after the return of the projecting branch")
                if isinstance(st.value, ast.Name) and st.value.id in self.pairs:
                    return self.pairs[st.value.id]
                got = self.concat(st.value)
                if got is None:
                    _bad(f"the projecting branch returns {ast.unparse(st.value)!r}")
                return got
            if not (isinstance(st, ast.Assign) and len(st.targets) == 1):
                _bad(f"statement of unknown shape in project_lambda: {ast.unparse(st)[:80]}")
            tgt, val = st.targets[0], st.value
            if isinstance(tgt, ast.Name):
                if tgt.id == self.lam:
                    _bad("the argument is re-bound")
                got = self.concat(val)
                if got is not None:
                    self.pairs[tgt.id] = got
                    self.env.pop(tgt.id, None)
                    continue
                if isinstance(val, ast.Name):
                    _bad(f"`{ast.unparse(st)}` aliases a Series that is later updated in place")
                self.env[tgt.id] = self.expr(val)
                self.pairs.pop(tgt.id, None)
            elif isinstance(tgt, ast.Subscript) and isinstance(tgt.value, ast.Name) and tgt.value.id in self.env:
                # boolean-mask item assignment  X[<mask>] = c   (in place)
                c = _lean_rat(_rat(val))
                m = self.mask(tgt.slice)
                self.env[tgt.value.id] = f"(if {m} then {c} else {self.env[tgt.value.id]})"
            else:
                _bad(f"store of unknown shape in project_lambda: {ast.unparse(st)[:80]}")
        _bad("the projecting branch does not return")


@translate.lifter
def lift_projlambda(repo):
    tree = normalize.parse(translate._read(repo, UP))
    fn = None
    for c in tree.body:
        if isinstance(c, ast.ClassDef) and c.name == "UtilityParity":
            for f in c.body:
                if isinstance(f, ast.FunctionDef) and f.name == "project_lambda":
                    fn = f
    if fn is None:
        _bad("UtilityParity.project_lambda not found")
    args = [a.arg for a in fn.args.args]
    if len(args) != 2 or args[0] != "self" or fn.args.vararg or fn.args.kwarg or fn.args.kwonlyargs:
        _bad(f"signature changed: {args}")
    lam = args[1]
    body = normalize.fold_early_exits(fn.body)
    if len(body) != 1 or not isinstance(body[0], ast.If):
        _bad("body is not one `if <ratio test>: ... else: ...`")
    br = body[0]
    t = br.test
    if not (isinstance(t, ast.Compare) and len(t.ops) == 1 and isinstance(t.ops[0], (ast.Eq, ast.NotEq))
            and ast.unparse(t.left) == "self.ratio"):
        _bad(f"guard changed: {ast.unparse(t)}")
    one = _rat(t.comparators[0])
    yes, no = (br.body, br.orelse) if isinstance(t.ops[0], ast.Eq) else (br.orelse, br.body)
    if len(no) != 1 or not isinstance(no[0], ast.Return) or not isinstance(no[0].value, ast.Name) or no[0].value.id != lam:
        _bad(f"the non-projecting branch is not `return {lam}`: {[ast.unparse(s) for s in no]}")
    pos, neg = _Sym(lam).run(yes)
    lean = f"""/-
GENERATED by harness/lifters/projlambda.py from {UP} (`UtilityParity.project_lambda`) — do not edit.
The body executed symbolically on one pair lp = lambda_vec["+"][e, g], lm = lambda_vec["-"][e, g].
-/
namespace ProjectLambdaSrc

/-- `if self.ratio == 1.0:` the projecting branch is taken; otherwise `return lambda_vec` (the argument itself) -/
def projects (ratio : Rat) : Bool := decide (ratio = {_lean_rat(one)})
/-- entry of the returned vector under key "+" -/
def posOf (lp lm : Rat) : Rat := {pos}
/-- entry of the returned vector under key "-" -/
def negOf (lp lm : Rat) : Rat := {neg}

end ProjectLambdaSrc
"""
    return "ProjectLambdaSrc.lean", lean, {"source": [UP], "posOf": pos, "negOf": neg, "guard": ast.unparse(t)}
