"""Run every claimed check's quick (or thorough) command sequentially and print a summary table.
    /venv/bin/python -m harness.runall [--tier quick|thorough] [--only C01,C02] [--seed N]"""
import argparse
import json
import os
import subprocess
import sys
import time

VERIF = os.path.dirname(os.path.dirname(os.path.abspath(__file__)))


def main():
    ap = argparse.ArgumentParser()
    ap.add_argument("--tier", default="quick")
    ap.add_argument("--only")
    ap.add_argument("--seed", default=os.environ.get("VERIF_SEED", "0"))
    a = ap.parse_args()
    man = json.load(open(os.path.join(VERIF, "MANIFEST.json")))
    rows = []
    for c in man["checks"]:
        pid = c["property_id"]
        if a.only and pid not in a.only.split(","):
            continue
        cmd = c["quick_cmd"] if a.tier == "quick" else c.get("thorough_cmd", c["quick_cmd"])
        t0 = time.time()
        r = subprocess.run(cmd, shell=True, cwd=VERIF, capture_output=True, text=True,
                           env=dict(os.environ, VERIF_SEED=str(a.seed), VERIF_TIER=a.tier))
        out = r.stdout + r.stderr
        flags = [l[:160] for l in out.split("\n") if l.startswith(("VIOLATION", "HARNESS-ERROR", "TIMEOUT"))]
        kf = sum(1 for l in out.split("\n") if l.startswith("KNOWN-FINDING"))
        rows.append((pid, r.returncode, round(time.time() - t0), kf, flags))
        print(f"{pid} rc={r.returncode} wall={rows[-1][2]}s known={kf} {flags}", flush=True)
    bad = [r for r in rows if r[1] != 0]
    print(f"SUMMARY tier={a.tier} seed={a.seed}: {len(rows)} checks, {len(bad)} non-zero: {[r[0] for r in bad]}")
    sys.exit(1 if bad else 0)


if __name__ == "__main__":
    main()
