"""Python side of the line protocol (see lean/FairModel/Model/Proto.lean)."""
from fractions import Fraction
import math


def rat(x):
    """Encode an exact number (int, Fraction, or a float that is an exact dyadic)."""
    if isinstance(x, bool):
        x = int(x)
    if isinstance(x, int):
        return str(x)
    if isinstance(x, float):
        x = Fraction(x)
    x = Fraction(x)
    if x.denominator == 1:
        return str(x.numerator)
    return f"{x.numerator}/{x.denominator}"


def xr(x):
    if isinstance(x, float):
        if math.isnan(x):
            return "nan"
        if math.isinf(x):
            return "inf" if x > 0 else "-inf"
    if x is None:
        return "nan"
    return rat(x)


def lst(items, enc=rat):
    items = list(items)
    if not items:
        return "-"
    return ",".join(enc(i) for i in items)


def mat(rows):
    rows = list(rows)
    if not rows:
        return "-"
    return ";".join(lst(r) for r in rows)


def s(text):
    text = str(text)
    if text == "":
        return "e"
    return ".".join(str(ord(c)) for c in text)


def strs(items):
    return lst(items, s)


def b(x):
    return "1" if x else "0"


# ---- decoding of driver output -------------------------------------------------

def p_rat(tok):
    if "/" in tok:
        n, d = tok.split("/")
        return Fraction(int(n), int(d))
    return Fraction(int(tok))


def p_xr(tok):
    if tok == "nan":
        return float("nan")
    if tok == "inf":
        return float("inf")
    if tok == "-inf":
        return float("-inf")
    return p_rat(tok)


def p_list(tok, dec=p_rat):
    if tok == "-":
        return []
    return [dec(t) for t in tok.split(",")]


def p_mat(tok):
    if tok == "-":
        return []
    return [p_list(r) for r in tok.split(";")]


def p_s(tok):
    if tok == "e":
        return ""
    return "".join(chr(int(c)) for c in tok.split("."))


def p_strs(tok):
    return p_list(tok, p_s)
