"""C10 — randomised predictors sample from the probability mass function they report."""
import random
import json
import math
from fractions import Fraction as F

import numpy as np

from .. import proto
from .. import thr_common
from ..core import Check, Problem, register

# R1 review: measured on the clean tree (180 fitted models, seeds 0-2): max |reported p - exact p| = 1.1e-16 (thresholder
# and EG mixture), max |p0 + p1 - 1| of a fitted rule = 5.6e-17, |pmf0 + pmf1 - 1| = 0; the bounds below are < 100x that
# (they were 1e-12).  A priori: <= 4 roundings on the thresholder path, <= T <= 20 on the EG dot product (2.2e-15).
TOL = 1e-14
EPS = F(1, 10 ** 14)          # slack on p0 + p1 = 1 (fitted floats)
ALPHA = 1e-9                  # false-alarm bound per binomial test (two-sided: 5e-10 per tail)
ALPHA_POOL = 1e-10            # false-alarm bound of the pooled (Hoeffding) frequency test, one per classification model
N_SEEDS = 400
N_SEEDS_DET = 40             # models whose reported pmf is 0/1 on the whole query set: nothing statistical to test
K_LEAN = 4                    # seeds whose draws are also replayed through the Lean model
N_STAT_ROWS = 8               # query rows (from the front) that get a frequency test
W_SUM_TOL = F(1, 10 ** 7)    # weights_ from the LP step sum to 1 only up to the LP solver's tolerance (seen: 4.4e-9)
F7_REL = "C10.choice_own_weight[weights_.index not 0..T-1]"

SIMPLE = ["demographic_parity", "selection_rate_parity", "false_positive_rate_parity", "false_negative_rate_parity",
          "true_positive_rate_parity", "true_negative_rate_parity"]
OBJ_SIMPLE = ["accuracy_score", "balanced_accuracy_score", "selection_rate", "true_positive_rate", "true_negative_rate"]
OBJ_EO = ["accuracy_score", "balanced_accuracy_score"]


# generated files the Pmf model is built from -> sha256 as lifted from the pinned tree
PINNED_GENERATED = {"ThresholderSrc.lean": "e8eca555041924fd761db20bc5b1ecc2f78490203f85fbd3c516d3929ba7ff4c",
                    "EgPredict.lean": "57a12efafd6e700b2fefc65687940694a7797563baf741f1def2bcdd7c40cace"}
_GEN = {}


def model_problem(msg):
    """Lean model vs first-principles oracle: a bug of this machinery (exit 2) -- unless the model was built from lifted
    text that differs from the pinned tree's: then the SOURCE departs from the oracle (broken tie, exit 1)"""
    if "v" not in _GEN:
        _GEN["v"] = thr_common.generated_changed(PINNED_GENERATED)
    if _GEN["v"]:
        _GEN["n"] = _GEN.get("n", 0) + 1
        if _GEN["n"] > 2:       # keep exploring: the oracle must get the chance to find a failing input
            return None
        return Problem("correspondence", "translator-fed model departs from the first-principles oracle (lifted source "
                       "text changed): " + msg, "C10.generated-vs-oracle")
    return Problem("harness", msg)


def fr(x):
    return F(x)


def fx(x):
    """exact rational of a float (or Fraction string)"""
    if isinstance(x, str):
        return F(x)
    return F(float(x))


def binom_tails(k, n, q):
    from scipy.stats import binom
    return float(binom.cdf(k, n, q)), float(binom.sf(k - 1, n, q))


def binom_reject(k, n, q):
    """exact two-sided binomial test at level ALPHA (each tail ALPHA/2); degenerate q decided exactly"""
    if q <= 0:
        return k != 0
    if q >= 1:
        return k != n
    lo, hi = binom_tails(k, n, q)
    return min(lo, hi) < ALPHA / 2


def make_pass():
    from sklearn.base import BaseEstimator

    class PassThrough(BaseEstimator):
        def fit(self, X, y=None, **kw):
            self.fitted_ = True
            return self

        def predict(self, X):
            return np.asarray(X, dtype=float)[:, 0]
    return PassThrough().fit(None)


def thr_tok(x):
    x = float(x)
    if math.isnan(x):
        return "nan"
    if math.isinf(x):
        return "inf" if x > 0 else "-inf"
    return proto.rat(F(x))


def rule_sig(b):
    """JSON form of one interpolation_dict entry: exact floats as strings"""
    out = {"p0": repr(float(b.p0)), "p1": repr(float(b.p1)),
           "op0": [b.operation0.operator, repr(float(b.operation0.threshold))],
           "op1": [b.operation1.operator, repr(float(b.operation1.threshold))]}
    if "p_ignore" in b:
        out["p_ignore"] = repr(float(b.p_ignore))
        out["const"] = repr(float(b.prediction_constant))
    return out


def op_eval(op, s):
    """ThresholdOperation on an exact score"""
    sym, thr = op[0], float(op[1])
    if math.isnan(thr):
        return F(0)
    if math.isinf(thr):
        gt = thr < 0
        return F(1 if (gt if sym == ">" else not gt) else 0)
    t = F(thr)
    if sym == ">":
        return F(1 if s > t else 0)
    return F(1 if s < t else 0)


def rule_positive(r, s):
    v = F(float(r["p0"])) * op_eval(r["op0"], s) + F(float(r["p1"])) * op_eval(r["op1"], s)
    if "p_ignore" in r:
        pi, c = F(float(r["p_ignore"])), F(float(r["const"]))
        v = pi * c + (1 - pi) * v
    return v


def rule_valid(r):
    p0, p1 = F(float(r["p0"])), F(float(r["p1"]))
    ok = p0 >= 0 and p1 >= 0 and 1 - EPS <= p0 + p1 <= 1 + EPS
    if "p_ignore" in r:
        pi, c = F(float(r["p_ignore"])), F(float(r["const"]))
        ok = ok and 0 <= pi <= 1 and 0 <= c <= 1
    return ok


def dict_tokens(rules):
    keys = sorted(rules)
    rs = [rules[k] for k in keys]

    def cmp(o):
        return "gt" if o[0] == ">" else "lt"
    toks = [proto.strs(keys),
            proto.lst([F(float(r["p0"])) for r in rs]),
            ",".join(cmp(r["op0"]) for r in rs), ",".join(thr_tok(r["op0"][1]) for r in rs),
            proto.lst([F(float(r["p1"])) for r in rs]),
            ",".join(cmp(r["op1"]) for r in rs), ",".join(thr_tok(r["op1"][1]) for r in rs),
            ",".join(proto.rat(F(float(r["p_ignore"]))) if "p_ignore" in r else "nan" for r in rs),
            ",".join(proto.rat(F(float(r["const"]))) if "const" in r else "nan" for r in rs)]
    return " ".join(toks)


def uniforms(seed, n):
    """the numbers predict() draws: RandomState(seed).rand(n) (trusted generator)"""
    return np.random.RandomState(seed).rand(n)


def choice_idx(probs, u):
    """RandomState.choice: cdf = cumsum(p) / cdf[-1]; searchsorted(cdf, u, side='right')  (float, as numpy)"""
    cdf = np.cumsum(np.asarray(probs, dtype=float))
    cdf /= cdf[-1]
    return int(cdf.searchsorted(u, side="right"))


@register
class CHECK(Check):
    pid = "C10"
    technique = ("Lean 4 theorems over the Pmf model (thresholder pmf, EG mixture, Bernoulli draw, inverse-cdf choice) + "
                 "compiled-driver correspondence on fitted ThresholdOptimizer / ExponentiatedGradient models, exact replay of "
                 "the RandomState draws, exact binomial tests of the sampling frequencies")
    level_text = ("Theorems (all inputs): thresholder pmf in [0,1] and rows sum to 1 from the decidable rule hypotheses, "
                  "selected by the row's group, depends only on (score, group), non-decreasing in the score without flip; EG "
                  "pmf = id-aligned mixture in [0,1]; label = [p >= u] so the 1-set is the interval [0,p]; choice returns "
                  "position i exactly on an interval of length probs[i]; regression clause (eg_regression_own_weight) proved for "
                  "the pairing lifted from predict's source on every run (Generated/EgPredict.lean; id-aligned since the F7 "
                  "repair 74c05e5), plus the partial form for positional pairing under aligned weights_ and a proved "
                  "counter-witness for the old positional code. Partial by nature: the uniformity of numpy's generator is "
                  "trusted; frequencies are checked statistically. The thresholder clauses are proved for the expressions LIFTED "
                  "from ThresholdOperation.__call__ / _pmf_predict / predict (Generated/ThresholderSrc.lean), their hypotheses are "
                  "DERIVED for every model ThresholdOptimizer.fit produces (fitted_rules_valid_simple / _EO, "
                  "fitted_pmf_is_distribution, and with no hypothesis beyond a successful fit: fitted_pmf_is_distribution_simple/_EO, "
                  "fitted_pmf_monotone_noflip_simple/_EO), and predict is row-wise in the draws for any draw sequence (predict_rowwise, "
                  "predict_row_independent, predict_draw_count). Regression: the returned value is a stored predictor's value with "
                  "positive weight, never the zero placeholder (eg_regression_returns_stored_value); a weight-1 predictor is "
                  "returned for every draw (choice_deterministic). EG row (1-p, p) is a distribution (eg_pmf_row_distribution).")
    design_ref = "DESIGN.md section 4, C10"
    quick_cases = 70
    thorough_cases = 600
    quick_budget_s = 120
    thorough_budget_s = 1300
    workers_thorough = 4
    rule = ("fitted models: ThresholdOptimizer (7 constraints x admissible objectives, flip on/off, grid 1..1000 (small grids put the optimum on a hull vertex of every group; equalized odds then randomises through p_ignore alone), prefit "
            "pass-through scorer on dyadic scores or LogisticRegression/predict_proba, 2-3 groups with both labels), "
            "ExponentiatedGradient classification (DP/EO/TPRP/FPRP/ERP, tree or logistic learner, LP step on/off, 12-32 rows) "
            "and regression (BoundedGroupLoss with Square/AbsoluteLoss, tree or linear regressor, LP step on/off); query "
            "sets contain training rows, unseen scores/features (a score ladder per group for monotonicity) and an "
            f"occasional unseen group; predict(random_state=s) for {N_SEEDS} consecutive seeds per model. distinct = distinct "
            "(kind, data, configuration); non-trivial = the fitted model is randomised somewhere on the query set (some "
            f"0 < p < 1 / >= 2 predictors with positive weight). Each binomial test has false-alarm probability <= {ALPHA:g}; "
            "the number of tests of a run is the count of the tag 'binomial_test' in input_distribution (quick: < 1000, "
            f"so < 1e-6 per run; the outcome is deterministic for a given VERIF_SEED); one pooled Hoeffding test per randomised "
            f"classification model (tag 'pooled_frequency_test', false-alarm probability <= {ALPHA_POOL:g} each). Tolerances: "
            f"|reported p - exact p| <= {TOL:g}, p0 + p1 = 1 +- 1e-14 (measured max deviations 1.1e-16 / 5.6e-17), sum(weights_) = 1 "
            "+- 1e-7 (LP solver). Frequency tests cover the first 8 query rows; the exact replay of the draws covers every row "
            "and seed")
    explanation = ("theorems over the Lean model Pmf; correspondence: _pmf_predict and predict(random_state=seed) of fitted "
                   "models vs the compiled driver fed with interpolation_dict / weights_ / stored predictors' outputs and "
                   "the replayed RandomState draws; oracle: exact Fraction pmf, distribution/monotonicity/dependence "
                   "clauses, exact binomial tails, membership of regression outputs among the stored predictors' values")
    trusted = ("numpy.random.RandomState: rand(n) / choice draw one uniform number per row from [0,1), uniformly (trusted, not modelled)",
               "RandomState.choice(values, p) = values[searchsorted(cumsum(p), u, 'right')] (modelled by choiceIdx)",
               "the stored predictors (sklearn estimators) are black boxes: the model takes their outputs on the query set as inputs",
               "hypotheses on fitted rules (p0,p1 >= 0, p0+p1 = 1 +- 1e-14, p_ignore, prediction_constant in [0,1]; flip=False => "
               "both operators '>') are evaluated on every fitted model by the driver AND derived from the fitting model "
               "(fitted_rules_valid_simple/_EO); the EG hypotheses (weights_ a probability vector over ids 0..T-1, classifier "
               "outputs in {0,1}) are evaluated on every fitted model, not derived (C08's subject)")
    assumptions = ("weights_ returned by the LP step sums to 1 up to the LP solver's tolerance (hypothesis checked with 1e-7)",
                   "scores and features are finite", "every group has both labels at fit time", "random_state is an int seed or a RandomState")

    # ---------------------------------------------------------------- generation
    def _gen_to(self, rng):
        ng = rng.choice([2, 2, 3])
        names = rng.choice([["a", "b", "c"], ["g0", "g1", "g2"], [0, 1, 2]])[:ng]
        den = rng.choice([8, 8, 16])
        rows = []
        info = rng.choice([0.0, 0.3, 0.6])
        for g in names:
            k = rng.choice([3, 4, 6, 8, 10])
            labs = [0, 1] + [rng.randint(0, 1) for _ in range(k - 2)]
            for lab in labs:
                base = rng.randint(0, den)
                if rng.random() < info:      # informative scores
                    base = min(den, max(0, base // 2 + (den // 2 if lab else 0)))
                rows.append((g, lab, F(base, den)))
        rng.shuffle(rows)
        cons = rng.choice(SIMPLE + ["equalized_odds", "equalized_odds", "equalized_odds"])
        obj = rng.choice(OBJ_EO if cons == "equalized_odds" else OBJ_SIMPLE)
        est = "pass" if rng.random() < 0.8 else "logreg"
        query = []
        idxs = list(range(len(rows)))
        rng.shuffle(idxs)
        for i in idxs[:5]:
            query.append([rows[i][0], str(rows[i][2])])
        for _ in range(3):
            query.append([rng.choice(names), str(F(rng.randint(-4, 36), 32))])
        for g in names:
            for k in range(-1, 2 * den + 2, max(2, den // 4)):
                query.append([g, str(F(k, 2 * den))])
        if rng.random() < 0.1:
            query.append(["zz" if isinstance(names[0], str) else 99, "1/2"])
        return {"kind": "to", "groups": [r[0] for r in rows], "y": [r[1] for r in rows], "scores": [str(r[2]) for r in rows],
                "constraints": cons, "objective": obj, "flip": rng.random() < 0.5,
                # small grids on purpose (more often for equalized odds): the optimum then sits on a hull VERTEX of every
                # group (p0 in {0,1}), and under equalized odds p_ignore in (0,1) still makes the pmf fractional
                "grid": rng.choice([1, 1, 2, 2, 4, 10, 16, 100, 1000] if cons == "equalized_odds"
                                   else [1, 2, 4, 10, 16, 100, 1000]),
                "estimator": est, "query": query,
                "seed0": (sd := rng.randrange(10 ** 6)), "history": random.Random(sd).random() < 0.3}

    def _gen_eg(self, rng, regression):
        n = rng.choice([12, 16, 20, 24, 32])
        ng = rng.choice([2, 2, 3])
        A = [i % ng for i in range(ng * 2)] + [rng.randrange(ng) for _ in range(n - 2 * ng)]
        x1 = [rng.randint(0, 8) for _ in range(n)]
        x2 = [rng.randint(0, 1) for _ in range(n)]
        if regression:
            shape = rng.choice(["shift", "cross", "cross"])      # "cross": opposite slopes per group, no single weak regressor fits
            y = []
            for i in range(n):
                if shape == "cross" and A[i] % 2 == 1:
                    v = 8 - x1[i] + rng.randint(-1, 1)
                elif shape == "cross":
                    v = x1[i] + rng.randint(-1, 1)
                else:
                    v = x1[i] // 2 + 2 * A[i] + rng.randint(-1, 2)
                y.append(str(F(min(8, max(0, v)), 8)))
        else:
            y = [1 if (x1[i] + 2 * A[i] + rng.randint(-3, 3)) >= 5 else 0 for i in range(n)]
            for g in range(ng):          # both labels in every group
                idx = [i for i in range(n) if A[i] == g]
                y[idx[0]], y[idx[1]] = 0, 1
        c = list(zip(x1, x2, A, y))
        rng.shuffle(c)
        x1, x2, A, y = map(list, zip(*c))
        q = [[x1[i], x2[i]] for i in rng.sample(range(n), 4)] + [[rng.randint(-1, 9), rng.randint(0, 1)] for _ in range(3)]
        case = {"kind": "egr" if regression else "egc", "x1": x1, "x2": x2, "A": A, "y": y, "query": q,
                "lp": rng.random() < 0.45, "max_iter": rng.choice([3, 5, 8, 12, 20]),
                "seed0": rng.randrange(10 ** 6)}
        # "history": the same estimator object had a previous life (fit on other data, one prediction) before the fit
        # that is judged -- the pmf / sampling clauses are about the fitted state, whatever the call history
        case["history"] = random.Random(case["seed0"]).random() < 0.4
        if regression:
            case.update(learner=rng.choice(["treereg1", "treereg2", "linreg"]), loss=rng.choice(["square", "absolute"]),
                        bound=rng.choice(["1/50", "1/20", "1/10", "1/5"]))
        else:
            case.update(learner=rng.choice(["tree", "tree", "tree3", "logreg"]), moment=rng.choice(["DP", "EO", "TPRP", "FPRP", "ERP"]),
                        eps=rng.choice(["1/100", "1/20", "1/10", "1/5"]), featA=rng.random() < 0.6,
                        nu=rng.choice([None, None, "1/10"]))
        return case

    def generate(self, rng, tier):
        while True:
            r = rng.random()
            if r < 0.60:
                yield self._gen_to(rng)
            elif r < 0.82:
                yield self._gen_eg(rng, False)
            else:
                yield self._gen_eg(rng, True)

    def shrink(self, case):
        if case["kind"] == "to":
            n = len(case["y"])
            for i in range(n):
                g = case["groups"][i]
                labs = [case["y"][j] for j in range(n) if j != i and case["groups"][j] == g]
                if 0 in labs and 1 in labs:
                    yield dict(case, groups=case["groups"][:i] + case["groups"][i + 1:], y=case["y"][:i] + case["y"][i + 1:],
                               scores=case["scores"][:i] + case["scores"][i + 1:])
            if len(case["query"]) > 1:
                for i in range(len(case["query"])):
                    yield dict(case, query=case["query"][:i] + case["query"][i + 1:])
        else:
            n = len(case["y"])
            if case["max_iter"] > 2:
                yield dict(case, max_iter=case["max_iter"] - 1)
            for i in range(n):
                if n > 6:
                    c = dict(case)
                    for k in ("x1", "x2", "A", "y"):
                        c[k] = case[k][:i] + case[k][i + 1:]
                    if len(set(c["A"])) == len(set(case["A"])):
                        yield c
            if len(case["query"]) > 1:
                for i in range(len(case["query"])):
                    yield dict(case, query=case["query"][:i] + case["query"][i + 1:])

    # ---------------------------------------------------------------- implementation
    def impl(self, case):
        import logging
        for nm in list(logging.root.manager.loggerDict):
            if "fairlearn" in nm:
                logging.getLogger(nm).setLevel(logging.ERROR)
        if case["kind"] == "to":
            return self._impl_to(case)
        return self._impl_eg(case)

    def _seeds(self, case, n=N_SEEDS):
        return [case["seed0"] + i for i in range(n)]

    def _impl_to(self, case):
        import pandas as pd
        from fairlearn.postprocessing import ThresholdOptimizer
        scores = np.array([float(F(s)) for s in case["scores"]])
        X = scores.reshape(-1, 1)
        y = np.array(case["y"])
        sf = case["groups"]
        if case["estimator"] == "pass":
            to = ThresholdOptimizer(estimator=make_pass(), constraints=case["constraints"], objective=case["objective"],
                                    prefit=True, predict_method="predict", grid_size=case["grid"], flip=case["flip"])
        else:
            from sklearn.linear_model import LogisticRegression
            to = ThresholdOptimizer(estimator=LogisticRegression(C=10.0), constraints=case["constraints"],
                                    objective=case["objective"], prefit=False, predict_method="predict_proba",
                                    grid_size=case["grid"], flip=case["flip"])
        if case.get("history"):
            # previous life of the same object: other labels, reversed rows, one prediction
            to.fit(X[::-1].copy(), 1 - y[::-1], sensitive_features=list(sf)[::-1])
            to._pmf_predict(X[:2], sensitive_features=list(sf)[:2])
            to.predict(X[:2], sensitive_features=list(sf)[:2], random_state=0)
        to.fit(X, y, sensitive_features=sf)
        d = to.interpolated_thresholder_.interpolation_dict
        out = {"rules": {str(k): rule_sig(v) for k, v in d.items()}}
        qg = [g for g, _ in case["query"]]
        Xq = np.array([float(F(s)) for _, s in case["query"]]).reshape(-1, 1)
        if case["estimator"] == "pass":
            out["qscores"] = [repr(float(v)) for v in Xq[:, 0]]
        else:
            out["qscores"] = [repr(float(v)) for v in to.estimator_.predict_proba(Xq)[:, 1]]
        pmf = to._pmf_predict(Xq, sensitive_features=qg)
        out["pmf0"] = [repr(float(v)) for v in pmf[:, 0]]
        out["pmf1"] = [repr(float(v)) for v in pmf[:, 1]]
        # the same rows in another query set / other positions / other container
        order = list(range(len(qg)))[::-1] + [0, 0]
        pmf2 = to._pmf_predict(pd.DataFrame(Xq[order]), sensitive_features=pd.Series([qg[i] for i in order]))
        out["order2"] = order
        out["pmf1_2"] = [repr(float(v)) for v in pmf2[:, 1]]
        preds = []
        ok01 = True
        nseeds = N_SEEDS if any(0.0 < float(v) < 1.0 for v in pmf[:, 1]) else N_SEEDS_DET
        for s in self._seeds(case, nseeds):
            p = np.asarray(to.predict(Xq, sensitive_features=qg, random_state=s))
            ok01 = ok01 and set(np.unique(p).tolist()) <= {0, 1}
            preds.append("".join(str(int(v)) if v in (0, 1) else "x" for v in p.tolist()))
        out["preds"] = preds
        out["labels01"] = bool(ok01)
        s0 = case["seed0"]
        again = np.asarray(to.predict(Xq, sensitive_features=qg, random_state=s0))
        inst = np.asarray(to.predict(Xq, sensitive_features=qg, random_state=np.random.RandomState(s0)))
        out["repro"] = ["".join(str(int(v)) for v in again.tolist()), "".join(str(int(v)) for v in inst.tolist())]
        return out

    def _impl_eg(self, case):
        import pandas as pd
        import fairlearn.reductions as red
        reg = case["kind"] == "egr"
        X = pd.DataFrame({"x1": [v / 8.0 for v in case["x1"]], "x2": [float(v) for v in case["x2"]]})
        Xq = pd.DataFrame({"x1": [v[0] / 8.0 for v in case["query"]], "x2": [float(v[1]) for v in case["query"]]})
        A = np.array(case["A"])
        if case.get("featA"):        # the sensitive feature is also a model input (group-specific thresholds become learnable)
            X["x3"] = [float(a) for a in case["A"]]
            Xq["x3"] = [float(i % (max(case["A"]) + 1)) for i in range(len(Xq))]
        if reg:
            from sklearn.linear_model import LinearRegression
            from sklearn.tree import DecisionTreeRegressor
            y = np.array([float(F(v)) for v in case["y"]])
            est = {"treereg1": DecisionTreeRegressor(max_depth=1, random_state=0),
                   "treereg2": DecisionTreeRegressor(max_depth=2, random_state=0), "linreg": LinearRegression()}[case["learner"]]
            loss = red.SquareLoss(0, 1) if case["loss"] == "square" else red.AbsoluteLoss(0, 1)
            cons = red.BoundedGroupLoss(loss, upper_bound=float(F(case["bound"])))
            eg = red.ExponentiatedGradient(est, cons, max_iter=case["max_iter"], run_linprog_step=case["lp"])
        else:
            from sklearn.linear_model import LogisticRegression
            from sklearn.tree import DecisionTreeClassifier
            y = np.array(case["y"])
            est = {"tree": DecisionTreeClassifier(max_depth=2, random_state=0), "tree3": DecisionTreeClassifier(max_depth=3, random_state=0),
                   "logreg": LogisticRegression(C=10.0)}[case["learner"]]
            eps = float(F(case["eps"]))
            cons = {"DP": red.DemographicParity, "EO": red.EqualizedOdds, "TPRP": red.TruePositiveRateParity,
                    "FPRP": red.FalsePositiveRateParity, "ERP": red.ErrorRateParity}[case["moment"]](difference_bound=eps)
            eg = red.ExponentiatedGradient(est, cons, eps=eps, max_iter=case["max_iter"], run_linprog_step=case["lp"],
                                           nu=None if case.get("nu") is None else float(F(case["nu"])))
        if case.get("history"):
            X0 = X.iloc[::-1].reset_index(drop=True)
            A0 = A[::-1].copy()
            y0 = (1.0 - y[::-1]) if reg else (1 - y[::-1])
            try:
                eg.fit(X0, y0, sensitive_features=A0)
                eg._pmf_predict(Xq)
                eg.predict(Xq, random_state=0)
            except ValueError:
                pass        # e.g. the known zero-signed-weights crash on the auxiliary data set: no previous life then
        eg.fit(X, y, sensitive_features=A)
        w = eg.weights_
        out = {"ids": [int(i) for i in w.index], "weights": [repr(float(v)) for v in w.values], "T": int(len(eg.predictors_))}
        out["hx"] = [[repr(float(v)) for v in np.asarray(eg.predictors_[t].predict(Xq), dtype=float)] for t in range(len(eg.predictors_))]
        pm = eg._pmf_predict(Xq)
        if reg:
            pm = np.asarray(pm, dtype=float)
            out["pmf_cols"] = [[repr(float(v)) for v in pm[:, t]] for t in range(pm.shape[1])]
            nseeds = N_SEEDS if sum(1 for v in w.values if v > 0) >= 2 else N_SEEDS_DET
            out["preds"] = [[repr(float(v)) for v in np.asarray(eg.predict(Xq, random_state=s), dtype=float)]
                            for s in self._seeds(case, nseeds)]
        else:
            pm = np.asarray(pm, dtype=float)
            out["pmf0"] = [repr(float(v)) for v in pm[:, 0]]
            out["pmf1"] = [repr(float(v)) for v in pm[:, 1]]
            preds, ok01 = [], True
            nseeds = N_SEEDS if any(0.0 < float(v) < 1.0 for v in pm[:, 1]) else N_SEEDS_DET
            for s in self._seeds(case, nseeds):
                p = np.asarray(eg.predict(Xq, random_state=s))
                ok01 = ok01 and set(np.unique(p).tolist()) <= {0, 1}
                preds.append("".join(str(int(v)) if v in (0, 1) else "x" for v in p.tolist()))
            out["preds"] = preds
            out["labels01"] = bool(ok01)
        s0 = case["seed0"]
        a = np.asarray(eg.predict(Xq, random_state=s0), dtype=float)
        b = np.asarray(eg.predict(Xq, random_state=np.random.RandomState(s0)), dtype=float)
        out["repro"] = [[repr(float(v)) for v in a], [repr(float(v)) for v in b]]
        return out

    # ---------------------------------------------------------------- model lines
    def lines(self, case, o):
        if not isinstance(o, dict) or "crash" in o:
            return []
        nq = len(case["query"])
        seeds = self._seeds(case)[:K_LEAN]
        ls = []
        if case["kind"] == "to":
            dt = dict_tokens(o["rules"])
            ls.append(f"pmf.thr {dt} {proto.strs([str(g) for g, _ in case['query']])} {proto.lst([F(float(s)) for s in o['qscores']])}")
            ls.append(f"pmf.hyp {proto.rat(EPS)} {dt}")
            p = proto.lst([F(float(v)) for v in o["pmf1"]])
            for s in seeds:
                ls.append(f"pmf.bern {p} {proto.lst([F(float(u)) for u in uniforms(s, nq)])}")
        else:
            mat = ";".join(proto.lst([F(float(o["hx"][t][i])) for t in range(o["T"])]) for i in range(nq))
            ids = proto.lst(o["ids"])
            ws = proto.lst([F(float(v)) for v in o["weights"]])
            if case["kind"] == "egc":
                ls.append(f"pmf.eg {mat} {ids} {ws}")
                p = proto.lst([F(float(v)) for v in o["pmf1"]])
                for s in seeds:
                    ls.append(f"pmf.bern {p} {proto.lst([F(float(u)) for u in uniforms(s, nq)])}")
            else:
                ls.append(f"pmf.aligned {ids}")
                # numpy normalises the cdf by its last entry; feed the model the normalised probabilities
                tot = sum(F(float(v)) for v in o["weights"])
                wsn = proto.lst([F(float(v)) / tot for v in o["weights"]])
                for s in seeds:
                    us = proto.lst([F(float(u)) for u in uniforms(s, nq)])
                    ls.append(f"pmf.egreg.code {mat} {ids} {wsn} {us}")
                    ls.append(f"pmf.egreg.byid {mat} {ids} {wsn} {us}")
        return ls

    # ---------------------------------------------------------------- judging
    def judge(self, case, o, mo):
        if "crash" in o:
            return [Problem("correspondence", f"implementation crashed: {o}", "impl-total")]
        if mo is not None and any(x == "bad-op" for x in mo):
            return [Problem("harness", f"driver rejected a line: {[l[:120] for l, x in zip(self.lines(case, o), mo) if x == 'bad-op'][:2]}")]
        if case["kind"] == "to":
            res = self._judge_to(case, o, mo)
        elif case["kind"] == "egc":
            res = self._judge_egc(case, o, mo)
        else:
            res = self._judge_egr(case, o, mo)
        return [p for p in res if p is not None]

    def _judge_bernoulli(self, case, o, mo, mo_off, probs, what):
        """labels, exact replay of the draws, frequencies, reproducibility, determinism"""
        nq = len(case["query"])
        NS = len(o["preds"])
        seeds = self._seeds(case, NS)
        p1 = [float(v) for v in o["pmf1"]]
        if not o["labels01"]:
            probs.append(Problem("property", f"{what}.predict returned a label outside {{0,1}}", "C10.bernoulli_is_label"))
            return
        P = np.array([[int(ch) for ch in row] for row in o["preds"]])
        # exact replay (trusted generator): label = [p >= u]
        for si, s in enumerate(seeds):
            u = uniforms(s, nq)
            exp = (np.array(p1) >= u) * 1
            if not np.array_equal(exp, P[si]):
                i = int(np.nonzero(exp != P[si])[0][0])
                probs.append(Problem("correspondence", f"{what}.predict(random_state={s}) row {i}: label {P[si][i]} but p={p1[i]!r}, "
                                                       f"u={u[i]!r} gives [p >= u] = {exp[i]}", "C10.bernoulli_draw"))
                break
        # frequencies
        cnt = P.sum(axis=0)
        for i in range(min(nq, N_STAT_ROWS)):
            q = min(1.0, max(0.0, p1[i]))
            if binom_reject(int(cnt[i]), NS, q):
                kind = "C10.bernoulli_deterministic" if q in (0.0, 1.0) else "C10.bernoulli_iff(frequency)"
                probs.append(Problem("property", f"{what}.predict: row {i} (query {case['query'][i]}) got label 1 in {int(cnt[i])} of "
                                                 f"{NS} seeds, reported P(1) = {p1[i]!r} (two-sided exact binomial tails "
                                                 f"{binom_tails(int(cnt[i]), NS, q) if 0 < q < 1 else 'degenerate'})", kind))
        # pooled frequency test over ALL randomised rows and seeds (the per-row exact test needs |bias| >~ 0.15 at 400
        # seeds; pooling ~10 rows sees ~0.04).  Labels are independent Bernoulli(p_i) under the property, so by Hoeffding
        # P(|sum(label - p)| >= t) <= 2 exp(-2 t^2 / n): a rigorous false-alarm bound, no normal approximation.
        rnd = [i for i in range(nq) if 0.0 < p1[i] < 1.0]
        if rnd:
            n_pool = NS * len(rnd)
            dev = float(sum(int(cnt[i]) - NS * p1[i] for i in rnd))
            bound = math.sqrt(n_pool / 2.0 * math.log(2.0 / ALPHA_POOL))
            if abs(dev) > bound:
                probs.append(Problem("property", f"{what}.predict: over the {len(rnd)} randomised query rows x {NS} seeds the number of "
                                                 f"label-1 outcomes differs from the sum of the reported probabilities by {dev:+.1f} "
                                                 f"(= {dev / n_pool:+.4f} per draw); |deviation| <= {bound:.1f} holds with probability "
                                                 f">= 1 - {ALPHA_POOL:g} (Hoeffding) if labels are drawn with the reported probabilities",
                                     "C10.bernoulli_iff(pooled frequency)"))
        for i in range(nq):
            if p1[i] == 1.0 and cnt[i] != NS or p1[i] == 0.0 and cnt[i] != 0:
                probs.append(Problem("property", f"{what}.predict is not deterministic at row {i} where P(1) = {p1[i]}: {int(cnt[i])}/{NS} ones",
                                     "C10.bernoulli_deterministic"))
        first = o["preds"][0]
        rep = o["repro"]
        rep = ["".join(str(int(float(v))) for v in r) if isinstance(r, list) else r for r in rep]
        if rep[0] != first or rep[1] != first:
            probs.append(Problem("property", f"{what}.predict(random_state={seeds[0]}) is not reproducible: {first} / {rep}", "C10.bernoulli_reproducible"))
        if mo is not None:
            for k in range(K_LEAN):
                m = "".join(mo[mo_off + k].split(","))
                if m != o["preds"][k]:
                    exp = "".join(str(int(b)) for b in (np.array(p1) >= uniforms(seeds[k], nq)))
                    if m != exp:
                        probs.append(model_problem(f"model bernoulli {m} vs numpy {exp}"))

    def _judge_to(self, case, o, mo):
        probs = []
        nq = len(case["query"])
        rules = o["rules"]
        s = [F(float(v)) for v in o["qscores"]]
        g = [str(x) for x, _ in case["query"]]
        p1 = [float(v) for v in o["pmf1"]]
        p0 = [float(v) for v in o["pmf0"]]
        # oracle: exact pmf from the fitted dict
        want = [rule_positive(rules[g[i]], s[i]) if g[i] in rules else F(0) for i in range(nq)]
        for i in range(nq):
            if not (-TOL <= p1[i] <= 1 + TOL and -TOL <= p0[i] <= 1 + TOL) or abs(p0[i] + p1[i] - 1) > TOL:
                probs.append(Problem("property", f"row {i} {case['query'][i]}: reported pmf ({p0[i]!r}, {p1[i]!r}) is not a distribution",
                                     "C10.thresholder_pmf_range"))
                break
        for i in range(nq):
            if abs(p1[i] - float(want[i])) > TOL:
                probs.append(Problem("correspondence", f"row {i} {case['query'][i]}: _pmf_predict gives {p1[i]!r}, the rule of its group "
                                                       f"{rules.get(g[i])} gives {float(want[i])!r}", "C10.thresholder_selects_group"))
                break
        # depends only on (score, group)
        p2 = [float(v) for v in o["pmf1_2"]]
        seen = {}
        for i in range(nq):
            seen.setdefault((g[i], s[i]), []).append(p1[i])
        for j, i in enumerate(o["order2"]):
            seen[(g[i], s[i])].append(p2[j])
        for k, vs in seen.items():
            if max(vs) - min(vs) > TOL:
                probs.append(Problem("property", f"rows with group {k[0]!r} and score {float(k[1])} get different probabilities {sorted(set(vs))}",
                                     "C10.pmf_depends_only_on_score_group"))
                break
        # monotone without flip
        if not case["flip"]:
            by = {}
            for i in range(nq):
                by.setdefault(g[i], []).append((s[i], p1[i]))
            for k, v in by.items():
                v.sort()
                for (sa, pa), (sb, pb) in zip(v, v[1:]):
                    if pb < pa - TOL:
                        probs.append(Problem("property", f"flip=False, group {k!r}: P(1) drops from {pa!r} at score {float(sa)} to {pb!r} at {float(sb)}",
                                             "C10.pmf_monotone_noflip"))
                        break
        # hypotheses of the theorems, evaluated on the fitted model
        valid = all(rule_valid(r) for r in rules.values())
        allgt = all(r["op0"][0] == ">" and r["op1"][0] == ">" for r in rules.values())
        if not valid:
            probs.append(Problem("correspondence", f"a fitted rule violates the hypotheses of thresholder_pmf_range: {rules}", "C10.thresholder_pmf_range.hyp"))
        if not case["flip"] and not allgt:
            probs.append(Problem("correspondence", f"flip=False but a fitted operation is '<': {rules}", "C10.pmf_monotone_noflip.hyp"))
        if mo is not None:
            mp = proto.p_list(mo[0])
            if mp != want:
                probs.append(model_problem(f"model pmf {mo[0][:80]} vs oracle {[str(w) for w in want][:4]}"))
            if mo[1] != f"{proto.b(valid)} {proto.b(allgt)}":
                probs.append(model_problem(f"model hypotheses {mo[1]} vs python {valid} {allgt}"))
        self._judge_bernoulli(case, o, mo, 2, probs, "ThresholdOptimizer")
        return probs

    def _eg_common(self, case, o):
        ids = o["ids"]
        w = [F(float(v)) for v in o["weights"]]
        T = o["T"]
        probs = []
        hyp_ok = sorted(ids) == list(range(T)) and all(x >= 0 for x in w) and abs(sum(w) - 1) <= W_SUM_TOL
        if not hyp_ok:
            probs.append(Problem("correspondence", f"weights_ is not a probability vector over the predictor ids: ids={ids} weights={o['weights']}",
                                 "C10.eg_pmf_range.hyp"))
        wid = {i: x for i, x in zip(ids, w)}
        return ids, w, T, wid, probs

    def _judge_egc(self, case, o, mo):
        ids, w, T, wid, probs = self._eg_common(case, o)
        nq = len(case["query"])
        hx = [[F(float(v)) for v in row] for row in o["hx"]]
        if any(v not in (0, 1) for row in hx for v in row):
            probs.append(Problem("correspondence", "a stored classifier predicts something other than 0/1", "C10.eg_pmf_range.hyp"))
        want = [sum(wid.get(t, F(0)) * hx[t][i] for t in range(T)) for i in range(nq)]
        p1 = [float(v) for v in o["pmf1"]]
        p0 = [float(v) for v in o["pmf0"]]
        # eg_pmf_range_slack: 0 <= p <= sum(weights_); the LP step returns weights_ whose sum may exceed 1 by the solver's
        # tolerance (seen 4.4e-9, accepted up to W_SUM_TOL by the hypothesis check above), so the range bound follows it
        slack = TOL + float(min(max(sum(w) - 1, F(0)), W_SUM_TOL))
        for i in range(nq):
            if not (-slack <= p1[i] <= 1 + slack and -slack <= p0[i] <= 1 + slack) or abs(p0[i] + p1[i] - 1) > TOL:
                probs.append(Problem("property", f"row {i}: reported pmf ({p0[i]!r}, {p1[i]!r}) is not a distribution", "C10.eg_pmf_range"))
                break
        for i in range(nq):
            if abs(p1[i] - float(want[i])) > TOL:
                probs.append(Problem("property", f"row {i} {case['query'][i]}: reported P(1) = {p1[i]!r}, the weights_-weighted mixture of the stored "
                                                 f"predictors' outputs is {float(want[i])!r} (ids {ids}, weights {o['weights']}, outputs "
                                                 f"{[str(hx[t][i]) for t in range(T)]})", "C10.eg_pmf_is_mixture"))
                break
        if mo is not None:
            if proto.p_list(mo[0]) != want:
                probs.append(model_problem(f"model EG pmf {mo[0][:80]} vs oracle {[str(x) for x in want][:4]}"))
        self._judge_bernoulli(case, o, mo, 1, probs, "ExponentiatedGradient")
        return probs

    def _judge_egr(self, case, o, mo):
        ids, w, T, wid, probs = self._eg_common(case, o)
        nq = len(case["query"])
        NS = len(o["preds"])
        seeds = self._seeds(case, NS)
        hx = [[float(v) for v in row] for row in o["hx"]]
        aligned = ids == list(range(T))
        # reported "pmf" = the stored predictors' outputs (zero-weight predictors are replaced by a 0 column)
        cols = [[float(v) for v in c] for c in o["pmf_cols"]]
        for t in range(T):
            exp = hx[t] if wid.get(t, 0) != 0 else [0.0] * nq
            if len(cols) != T or any(a != b for a, b in zip(cols[t], exp)):      # measured deviation on the clean tree: 0
                probs.append(Problem("correspondence", f"_pmf_predict column {t} differs from stored predictor {t}'s outputs", "C10.eg_regression_pmf"))
                break
        P = [[float(v) for v in row] for row in o["preds"]]
        tot = float(sum(w))
        # 1. every returned value is the value of a stored predictor with positive weight (exact)
        bad = None
        for i in range(nq):
            allowed = {hx[t][i] for t in range(T) if wid.get(t, 0) > 0}
            for si in range(NS):
                if P[si][i] not in allowed:
                    bad = (i, si, P[si][i], sorted(allowed))
                    break
            if bad:
                break
        follows_positional = True
        follows_byid = True
        masked = [[hx[t][i] if wid.get(t, 0) != 0 else 0.0 for t in range(T)] for i in range(nq)]
        pos_w = [float(x) for x in w]
        id_w = [float(wid.get(t, 0)) for t in range(T)]
        for si, s in enumerate(seeds):
            u = uniforms(s, nq)
            for i in range(nq):
                a = masked[i][min(choice_idx(pos_w, u[i]), T - 1)]
                b = masked[i][min(choice_idx(id_w, u[i]), T - 1)]
                follows_positional = follows_positional and a == P[si][i]
                follows_byid = follows_byid and b == P[si][i]
        rel = "C10.choice_own_weight" if aligned or not follows_positional else F7_REL
        if bad:
            i, si, v, allowed = bad
            probs.append(Problem("property", f"predict(random_state={seeds[si]}) row {i} {case['query'][i]} returned {v!r}, which is not the value of any "
                                             f"stored predictor with positive weight ({allowed}); weights_.index = {ids}, weights = {o['weights']}",
                                 rel if rel == F7_REL else "C10.regression_value_of_stored_predictor"))
        # 2. each value is drawn with its predictor's OWN weight (exact binomial test per distinct value)
        for i in range(min(nq, N_STAT_ROWS)):
            vals = sorted({hx[t][i] for t in range(T)} | {P[si][i] for si in range(NS)})
            for v in vals:
                q = sum(float(wid.get(t, 0)) for t in range(T) if hx[t][i] == v) / tot
                k = sum(1 for si in range(NS) if P[si][i] == v)
                if binom_reject(k, NS, min(1.0, q)):
                    probs.append(Problem("property", f"predict: row {i} {case['query'][i]} returned the value {v!r} in {k} of {NS} seeds; the stored "
                                                     f"predictors with that value have total weight {q!r} (weights_.index = {ids})", rel))
                    break
            else:
                continue
            break
        if not follows_positional and not follows_byid:
            probs.append(Problem("correspondence", "predict(random_state=s) follows neither the positional nor the id-aligned inverse-cdf draw",
                                 "C10.choice_draw"))
        a, b = o["repro"]
        if a != o["preds"][0] or b != o["preds"][0]:
            probs.append(Problem("property", "regression predict(random_state=s) is not reproducible", "C10.bernoulli_reproducible"))
        if mo is not None:
            if mo[0] != proto.b(aligned):
                probs.append(model_problem(f"model aligned {mo[0]} vs python {aligned}"))
            for k in range(min(K_LEAN, NS)):
                u = uniforms(seeds[k], nq)
                cdf_pos = np.cumsum(pos_w) / np.sum(pos_w)
                cdf_id = np.cumsum(id_w) / np.sum(id_w)
                near = [min(min(abs(cdf_pos - u[i])), min(abs(cdf_id - u[i]))) <= 1e-14 for i in range(nq)]

                def parse(line):
                    return [None if t == "none" else float(proto.p_rat(t)) for t in line.split(",")]

                def numpy_draw(wts):
                    return [masked[i][choice_idx(wts, u[i])] if choice_idx(wts, u[i]) < T else None for i in range(nq)]
                m_code, m_id = parse(mo[1 + 2 * k]), parse(mo[2 + 2 * k])
                n_pos, n_id = numpy_draw(pos_w), numpy_draw(id_w)

                def same(a, b):   # the exact model and numpy's float cdf may differ only when u is within rounding of a cdf entry
                    return all(x == y or near[i] for i, (x, y) in enumerate(zip(a, b)))
                if not same(m_id, n_id):
                    probs.append(model_problem(f"model id-aligned draw {m_id} vs numpy {n_id}"))
                if not (same(m_code, n_pos) or same(m_code, n_id)):
                    probs.append(model_problem(f"model draw (pairing lifted from the source) {m_code} is neither numpy's positional "
                                                    f"{n_pos} nor id-aligned {n_id} draw"))
                if aligned and not same(m_code, m_id):
                    probs.append(model_problem("aligned weights but the two model draws differ (theorem eg_regression_code_own_weight)"))
                if not same(m_code, P[k]):
                    probs.append(Problem("correspondence", f"predict(random_state={seeds[k]}) = {P[k]} but the model of predict (pairing lifted from "
                                                           f"the source) draws {m_code}", "C10.regression_draw"))
                    break
        return probs

    def known(self, case, problem, entries):
        if case.get("kind") == "egr" and problem.relation == F7_REL:
            for e in entries:
                if e.get("id") == "F7":
                    return e
        return None

    def signature(self, case, o):
        tags = [f"kind={case['kind']}", "history=refit-after-a-previous-life" if case.get("history") else "history=fresh"]
        nontrivial = False
        if isinstance(o, dict) and "crash" not in o:
            nq = len(case["query"])
            if case["kind"] == "to":
                rules = o["rules"]
                tags += [f"constraints={case['constraints']}", f"objective={case['objective']}", f"flip={case['flip']}",
                         f"grid={case['grid']}", f"estimator={case['estimator']}", f"groups={len(rules)}"]
                if any("p_ignore" in r and float(r["p_ignore"]) > 0 for r in rules.values()):
                    tags.append("p_ignore>0")
                if any(math.isinf(float(r[k][1])) for r in rules.values() for k in ("op0", "op1")):
                    tags.append("infinite_threshold")
                if any(r[k][0] == "<" for r in rules.values() for k in ("op0", "op1")):
                    tags.append("flipped_operation")
                if any(0 < float(r["p0"]) < 1 for r in rules.values()):
                    tags.append("interpolating_rule")
                elif any("p_ignore" in r and 0 < float(r["p_ignore"]) < 1 for r in rules.values()):
                    tags.append("every_p0_in_{0,1}_but_0<p_ignore<1" + ("(randomised_on_query)" if any(
                        0 < float(v) < 1 for v in o["pmf1"]) else ""))
                if any(str(g) not in rules for g, _ in case["query"]):
                    tags.append("unseen_group_in_query")
                p1 = [float(v) for v in o["pmf1"]]
                nontrivial = any(0 < p < 1 for p in p1)
                tags.append("randomised" if nontrivial else "deterministic_on_query")
                if any(p in (0.0, 1.0) for p in p1):
                    tags.append("has_p_in_{0,1}")
                tags += ["binomial_test"] * min(nq, N_STAT_ROWS)
                if nontrivial:
                    tags.append("pooled_frequency_test")
            else:
                ids = o["ids"]
                pos = sum(1 for v in o["weights"] if float(v) > 0)
                tags += [f"lp={case['lp']}", f"learner={case['learner']}", f"T={min(o['T'], 12)}", f"support={min(pos, 8)}",
                         "weights_index_sorted" if ids == list(range(o["T"])) else "weights_index_UNSORTED"]
                nontrivial = pos >= 2
                if abs(sum(F(float(v)) for v in o["weights"]) - 1) > F(1, 10 ** 12):
                    tags.append("weights_sum_off_by>1e-12")
                if case["kind"] == "egc":
                    tags.append(f"moment={case['moment']}")
                    p1 = [float(v) for v in o["pmf1"]]
                    nontrivial = any(0 < p < 1 for p in p1)
                    tags.append("randomised" if nontrivial else "deterministic_on_query")
                    tags += ["binomial_test"] * min(nq, N_STAT_ROWS)
                    if nontrivial:
                        tags.append("pooled_frequency_test")
                else:
                    tags.append(f"loss={case['loss']}")
                    hx = o["hx"]
                    ntests = 0
                    for i in range(min(nq, N_STAT_ROWS)):
                        ntests += len({hx[t][i] for t in range(o["T"])} | {row[i] for row in o["preds"]})
                    tags += ["binomial_test"] * ntests
        else:
            tags.append("crash")
        key = json.dumps({k: v for k, v in case.items() if k != "seed0"}, sort_keys=True)
        return key, nontrivial, tags
