"""C07 — reduction identity: sample re-weighting is the exact gradient of the Lagrangian."""
import json
import math
from fractions import Fraction as F

import numpy as np
import pandas as pd

from .. import proto
from ..core import Check, Problem, register
from . import c06
from .c06 import (MOMENTS, LOSS_RANGES, costs_ok, demote_harness, fl, gen_bounds, gen_dataset, gl, history_tag, index_keys, make_inputs,
                  make_moment, make_predictor, previous_life, spec_config, spec_err, spec_loss, spec_order, spec_parity,
                  strata_stats, with_history)

# measured on the clean tree (review R1, quick tier seed 0, 1508 cases): max |a-b|/(1+|b|+scale) over every `near`
# comparison = 5.2e-16; sample weights handed to the learner vs exact model: 7.3e-14 relative (`W_CMP_TOL`); whole-fit
# weights vs float recomputation: 3.4e-14 (`W_FIT_TOL`).  Tolerances = 100 x measured, floored at 1e-12.
RTOL = 1e-12
W_CMP_TOL = 7e-12
W_FIT_TOL = 3e-12
LIVE_TOL = 1e-10     # a row counts as carrying weight when |w| exceeds this fraction of the largest |w| (rounding of 0)


def near(a, b, scale=1.0):
    a, b = float(a), float(b)
    return not math.isnan(a) and abs(a - b) <= RTOL * (1.0 + abs(b) + scale)


# ------------------------------------------------------------------ recording base learner
RECORD = []
EVENTS = []   # ("lam", [...]) from the spying moment and ("fit", record) from the learner, in call order


class Recorder:
    """sklearn-style estimator that records what the reduction passes to `fit`"""

    def __init__(self, tag="r"):
        self.tag = tag

    def get_params(self, deep=False):
        return {"tag": self.tag}

    def set_params(self, **kw):
        self.tag = kw.get("tag", self.tag)
        return self

    def fit(self, X, y, sample_weight=None, **kw):
        rec = {"y": [float(v) for v in np.asarray(y).reshape(-1)],
               "w": None if sample_weight is None else [float(v) for v in np.asarray(sample_weight).reshape(-1)],
               "n": int(np.asarray(X).shape[0])}
        RECORD.append(rec)
        EVENTS.append(("fit", rec))
        return self

    def predict(self, X):
        return np.zeros(np.asarray(X).shape[0])


# ------------------------------------------------------------------ first-principles pieces
def dotf(a, b):
    return sum(x * y for x, y in zip(a, b))


def oracle_signed_weights(moment, ys, gs, cs, lam, ratio):
    """w_i = -n * d(lam.gamma)/dh_i, gamma from the property's own definition (C06 oracle); gamma is affine in h"""
    n = len(ys)
    zero = [F(0)] * n
    g0, _ = spec_parity(moment, ys, gs, cs, zero, ratio)
    base = sum(lam[k] * g0[k] for k in g0)
    out = []
    for i in range(n):
        e = list(zero)
        e[i] = F(1)
        gi, _ = spec_parity(moment, ys, gs, cs, e, ratio)
        out.append(-n * (sum(lam[k] * gi[k] for k in gi) - base))
    return out


def relabel(w):
    return [1 if x > 0 else 0 for x in w], [abs(x) for x in w]


def w01(z, wt, h):
    return sum(b for a, b, x in zip(z, wt, h) if x != a)


# sha256 of the `def` lines of lean/FairModel/Generated/OracleSrc.lean as lifted from the pinned tree
PINNED_ORACLE_DEFS = "cf5d6d92de08cf1776300e6d36fa6e0a45ae8805a7bafac33362b20f3af4c75d"
_ORC_STATE = {}


def oracle_src_changed():
    """True when the lifter produced relabel/reweight definitions that differ from the pinned tree's.  The Lean
    `Oracle.callOracle*` is built FROM those definitions, so a model-vs-oracle disagreement is then a statement
    about the source, not a bug of this machinery."""
    if "v" not in _ORC_STATE:
        import hashlib
        import os
        from .. import leanrun
        path = os.path.join(leanrun.LEAN, "FairModel", "Generated", "OracleSrc.lean")
        try:
            with open(path) as f:
                defs = "\n".join(ln.strip() for ln in f if ln.startswith("def "))
            _ORC_STATE["v"] = hashlib.sha256(defs.encode()).hexdigest() != PINNED_ORACLE_DEFS
        except OSError:
            _ORC_STATE["v"] = False
    return _ORC_STATE["v"]


def orc_model_problem(msg):
    if oracle_src_changed():
        return Problem("correspondence", "the model built from the lifted _call_oracle / GridSearch.fit expressions departs "
                       "from the first-principles relabel 1[w>0] / reweight |w| (source expressions changed): " + msg,
                       "C07.generated-oracle-vs-spec")
    return Problem("harness", msg)


def parse_call(tok):
    """driver output of the `orc.*` ops -> (kind, constant, labels, weights)"""
    parts = tok.split(" ")
    if parts[0] == "fit" and len(parts) == 3:
        return ("fit", None, proto.p_list(parts[1]), proto.p_list(parts[2]))
    if parts[0] == "dummy" and len(parts) == 4:
        return ("dummy", proto.p_rat(parts[1]), proto.p_list(parts[2]), proto.p_list(parts[3]))
    return (parts[0], None, None, None)


def lam_from_pool(pool, m, kind, pos):
    if kind == "unit":
        return [F(1) if i == pos % max(m, 1) else F(0) for i in range(m)]
    return [F(pool[i % len(pool)]) for i in range(m)]


@register
class CHECK(Check):
    pid = "C07"
    technique = ("Lean 4 theorems over the Moments model (same U in gamma and signed_weights, exchange of finite sums; "
                 "arithmetic lifted from the Python source) + compiled-driver correspondence with signed_weights / gamma / "
                 "project_lambda and with the relabel/reweight handed to a recording learner by _Lagrangian._call_oracle "
                 "and GridSearch.fit; those two functions' relabel / abs / normalisation / objective-switch / constant-"
                 "label shortcut are lifted into Generated/OracleSrc.lean and Model/Oracle.lean's callOracle* is built "
                 "from them")
    level_text = ("Theorems (arbitrary rational lambda, arbitrary soft h, h', any dataset/event assignment/ratio, no size "
                  "bound): reduction_identity, loss_identity (BoundedGroupLoss), objective_identity (ErrorRate with "
                  "costs), best_response (+ argmin equivalence with err + lambda.gamma and invariance under the "
                  "_call_oracle normalisation), project_lambda_sound (ratio 1) / identity (ratio != 1); over the LIFTED "
                  "_call_oracle / GridSearch.fit expressions: the weighted 0/1 error handed to the learner is "
                  "(n^2/S)*L(h) + (n/S)*(sum max(w,0) - n*L(0)) resp. n*L(h) + (sum max(w,0) - n*L(0)) for every hard h "
                  "(eg/grid_weighted_error_affine), arg-min sets over ANY hypothesis class coincide in both directions "
                  "(eg/grid_argmin_iff), the DummyClassifier shortcut returns a minimiser (dummy_is_minimiser, "
                  "eg/grid_dummy_minimises_lagrangian), zero-weight rows' labels are irrelevant so > vs >= is harmless "
                  "(relabel_nonstrict_harmless), regression reductions (loss_oracle_identity, loss_grid_identity); lagrangian_identity "
                  "(objective + constraints), project_lambda_guarantee (any ratio; slack >= 0 needed: "
                  "project_lambda_needs_nonneg_slack), objective_needs_unit_interval. Tie: translator-"
                  "lifted expressions + fairlearn's numbers vs the compiled Lean model; the identities are also "
                  "evaluated directly on fairlearn's own gamma / signed_weights / project_lambda outputs.")
    design_ref = "DESIGN.md section 4, C07"
    quick_cases = 1500
    thorough_cases = 16000
    quick_budget_s = 120
    thorough_budget_s = 900
    workers_thorough = 4
    rule = ("C06's datasets (4..30 rows, 2..4 groups, optional control feature with 1..3 strata, five parity moments x "
            "difference/ratio bounds, slack >= 0) x multipliers lambda >= 0 (unit vectors and random dyadic vectors in index order or "
            "reversed label order) x pairs of predictors (unit, hard, soft dyadic); ErrorRate objective with dyadic costs; "
            "BoundedGroupLoss with Square/Absolute/ZeroOne loss; kinds: 'parity' (Moment API), 'eg' (_Lagrangian."
            "_call_oracle with a recording learner), 'grid' (GridSearch.fit with a user grid and a recording learner), "
            "'bgl', 'bgl-eg', 'bgl-grid' (constant regression labels are not run through the reductions: tag skipped:constant-regression-labels), 'fit' (whole ExponentiatedGradient / GridSearch runs; every oracle call is replayed "
            "through Oracle.callOracleParity / callGridParity with the exact rational value of the float multipliers). "
            "distinct = distinct full case; non-trivial = the multiplier vector is non-zero and h != h'; thorough "
            "additionally enumerates all 3- and 4-row label x two-group assignments x five moments through both reductions")
    explanation = ("theorems over Model/Moments.lean; the reduction / objective / loss identities, the best-response "
                   "identity and project_lambda's guarantee are evaluated on fairlearn's own outputs (relative tol 1e-12; measured deviation 5e-16); "
                   "signed_weights is additionally compared with -n * gradient of lambda.gamma computed from the "
                   "property's definition of gamma in Fractions, and with the compiled Lean model")
    trusted = c06.CHECK.trusted + (
        "_Lagrangian is constructed directly (internal API) to observe _call_oracle; GridSearch is driven through its "
        "public grid= parameter",
        "rows whose total weight is 0 up to rounding are excluded from the relabel comparison (their weight is 0)")
    assumptions = ("lambda >= 0", "labels are 0/1 for classification moments", "predictions lie in [0,1]")

    # ------------------------------------------------------------------ generation
    def generate(self, rng, tier):
        return with_history(self._generate(rng, tier), rng)

    def _generate(self, rng, tier):
        while True:
            r = rng.random()
            if r < 0.84:
                kind = "parity" if r < 0.46 else ("eg" if r < 0.62 else "grid" if r < 0.76 else "fit")
                case = {"kind": kind, "moment": rng.choice(["dp", "tpr", "fpr", "eo", "eo", "erp", "erp"])}
                case.update(gen_dataset(rng, tier))
                if kind == "fit":   # whole ExponentiatedGradient / GridSearch runs: keep them small
                    for k in ("y", "g", "h", "c"):
                        if case[k] is not None:
                            case[k] = case[k][:12]
                    if len(set(case["g"])) < 2:      # keep the quantifier's "2..4 groups" after truncation
                        case["g"][0], case["g"][1] = ("a", "b") if case["gtype"] == "str" else ("0", "1")
                    case["algo"] = rng.choice(["eg", "grid"])
                    case["iters"] = rng.choice([2, 3, 4]) if case["algo"] == "eg" else rng.choice([3, 5, 7])
                case.update(gen_bounds(rng))
                n = len(case["y"])
                hk = rng.choice(["unit", "hard", "soft", "soft"])
                if hk == "unit":
                    i = rng.randrange(n)
                    case["h"] = ["1" if j == i else "0" for j in range(n)]
                    case["h2"] = ["0"] * n
                elif hk == "hard":
                    case["h"] = [str(rng.randint(0, 1)) for _ in range(n)]
                    case["h2"] = [str(rng.randint(0, 1)) for _ in range(n)]
                else:
                    case["h"] = [str(F(rng.randint(0, 8), 8)) for _ in range(n)]
                    case["h2"] = [str(F(rng.randint(0, 8), 8)) for _ in range(n)]
                case["lam_kind"] = rng.choice(["unit", "random", "random"])
                case["lam_pos"] = rng.randrange(64)
                case["lam_pool"] = [str(F(rng.choice([0, 0, 1, 1, 2, 3, 5, 8]), rng.choice([1, 2, 4]))) for _ in range(16)]
                case["lam_order"] = rng.choice(["index", "index", "reversed", "interleaved"])
                if rng.random() < 0.5 or kind == "grid" or (kind == "fit" and case["algo"] == "grid"):
                    # GridSearch always uses the default objective ErrorRate()
                    case["fp"], case["fn"] = "1", "1"
                else:
                    case["fp"], case["fn"] = str(F(rng.randint(0, 8), 4)), str(F(rng.randint(1, 8), 4))
                if kind == "grid":
                    case["ncols"] = rng.choice([1, 2, 3])
                yield case
            else:
                n = rng.choice([2, 3, 4, 6, 8, 12, 20])
                lo, hi = rng.choice(LOSS_RANGES)
                loss = rng.choice(["square", "absolute", "zeroone"])
                if loss == "zeroone":
                    lo, hi = "0", "1"
                ng = rng.choice([1, 2, 3])
                # group labels: strings, or integers whose STRING order differs from the numeric order (see c06.gen_dataset)
                gint = rng.random() < 0.4
                gnames = ["0", "1", "2"][:ng] if gint else ["a", "b", "c"][:ng]
                yield {"kind": rng.choice(["bgl", "bgl", "bgl-eg", "bgl-grid"]), "loss": loss, "lo": lo, "hi": hi,
                       "gtype": "int" if gint else "str",
                       "gmap": rng.choice([[-3, 2, 9, 10], [2, 9, 10, 11], [5, 12, 100, 1000], [-2, -1, 3, 20]])[:ng] if gint else None,
                       "y": [str(F(rng.randint(-8, 16), 8)) for _ in range(n)],
                       "g": [rng.choice(gnames) for _ in range(n)],
                       "h": [str(F(rng.randint(-8, 16), 8)) for _ in range(n)],
                       "lam_kind": rng.choice(["unit", "random"]), "lam_pos": rng.randrange(8),
                       "lam_pool": [str(F(rng.choice([0, 1, 1, 2, 3, 5]), rng.choice([1, 2, 4]))) for _ in range(4)],
                       "container": rng.choice(["list", "ndarray", "series"])}

    def exhaustive(self, tier):
        """small-scope enumeration (a TEST of the correspondence, not a proof): every 0/1 label vector x every
        assignment to two groups with both groups present, 3 and 4 rows, all five parity moments, unit multipliers at the
        first positions and one dense multiplier vector, through _Lagrangian._call_oracle and through GridSearch.fit —
        this visits the all-weights-zero normalisation, zero-weight rows, the constant-label shortcut and the
        learner path of Oracle.callOracleParity / callGridParity"""
        import itertools
        for n in (3, 4):
            for y in itertools.product("01", repeat=n):
                for g in itertools.product("ab", repeat=n):
                    if len(set(g)) < 2:
                        continue
                    for moment in ("dp", "tpr", "fpr", "eo", "erp"):
                        for kind in ("eg", "grid"):
                            for lk, lp in (("unit", 0), ("unit", 1), ("random", 0)):
                                case = {"kind": kind, "moment": moment, "y": list(y), "g": list(g), "c": None,
                                        "h": ["1"] + ["0"] * (n - 1), "h2": ["0"] * n, "gtype": "str", "ctype": "str",
                                        "container": "list", "pstyle": "flat", "db": None, "rb": "1/2" if lp else None,
                                        "slack": "0", "lam_kind": lk, "lam_pos": lp,
                                        "lam_pool": ["1", "1/2", "0", "2", "1", "3/4", "0", "1/4"] * 2,
                                        "lam_order": "index", "fp": "1", "fn": "1"}
                                if kind == "grid":
                                    case["ncols"] = 2
                                yield case

    def shrink(self, case):
        n = len(case["y"])
        for i in range(n):
            if n > 2:   # a single row is squeezed to a 0-d array by the input validation (not this property's subject)
                c = dict(case)
                for k in ("y", "g", "h", "h2", "c"):
                    if case.get(k) is not None:
                        c[k] = case[k][:i] + case[k][i + 1:]
                yield c
        if case["kind"] in ("parity", "eg", "grid"):
            if case.get("c") is not None:
                yield dict(case, c=None)
            if case.get("container") != "list" or case.get("pstyle") != "flat" or case.get("lam_order") != "index":
                yield dict(case, container="list", pstyle="flat", lam_order="index")
            if case["lam_kind"] != "unit":
                for pos in range(4):
                    yield dict(case, lam_kind="unit", lam_pos=pos)
            if case["rb"] is not None and case["rb"] != "1":
                yield dict(case, rb="1")
            if case["fp"] != "1" or case["fn"] != "1":
                yield dict(case, fp="1", fn="1")
            if any(F(v) != 0 for v in case["h2"]):
                yield dict(case, h2=["0"] * n)

    # ------------------------------------------------------------------ implementation
    def _lam_series(self, case, index, m=None):
        keys = list(index)
        lam = lam_from_pool(case["lam_pool"], len(keys), case["lam_kind"], case["lam_pos"])
        s = pd.Series([float(v) for v in lam], index=index)
        if case.get("lam_order") == "reversed":
            s = s.iloc[::-1]
        elif case.get("lam_order") == "interleaved":
            # the same labelled multipliers with "+" and "-" of one (event, group) next to each other (seeded C07c: a
            # position-based pairing agrees with the label-based one in index order and in fully reversed order only)
            s = s.loc[sorted(keys, key=lambda k: (str(k[1]), str(k[2]), str(k[0])))]
        return s, lam

    def impl(self, case):
        import fairlearn.reductions as red
        kind = case["kind"]
        if kind.startswith("bgl"):
            return self._impl_bgl(case)
        X, y, sf, cf = make_inputs(case)
        kw = {"sensitive_features": sf}
        if cf is not None:
            kw["control_features"] = cf
        m = make_moment(case)
        out = {"ratio": float(m.ratio), "eps": float(m.eps)}
        if kind == "parity":
            m.load_data(X, y, **kw)
            obj = previous_life(red.ErrorRate(costs={"fp": fl(case["fp"]), "fn": fl(case["fn"])}), case)
            obj.load_data(X, y, **kw)
            out["index"] = index_keys(m.index)
            lam_s, lam = self._lam_series(case, m.index)
            p1 = make_predictor(case["h"], case.get("pstyle", "flat"))
            p2 = make_predictor(case["h2"], "flat")
            g1, g2 = m.gamma(p1), m.gamma(p2)
            out["gamma"] = [float(g1[k]) for k in m.index]
            out["gamma2"] = [float(g2[k]) for k in m.index]
            out["bound"] = [float(m.bound()[k]) for k in m.index]
            out["sw"] = [float(v) for v in m.signed_weights(lam_s).values]
            if len(m.index) == 0:
                # no row has an event (e.g. FPR parity without label 0): the multiplier vector is empty and
                # project_lambda's lambda_vec["+"] raises KeyError -- degenerate, nothing to project
                out["proj_index_ok"], out["proj"], out["empty_index"] = True, [], True
            else:
                pr = m.project_lambda(lam_s)
                out["proj_index_ok"] = sorted(index_keys(pr.index)) == sorted(out["index"])
                out["proj"] = [float(pr[k]) for k in m.index]
            out["err"] = float(obj.gamma(p1).iloc[0])
            out["err2"] = float(obj.gamma(p2).iloc[0])
            out["ow"] = [float(v) for v in obj.signed_weights().values]
            out["ow_scaled"] = [float(v) for v in obj.signed_weights(pd.Series({"all": 3.0})).values]
            out["err_proj"] = [float(v) for v in obj.project_lambda(pd.Series({"all": 2.0})).values]
            return out
        if kind == "fit":
            return self._impl_fit(case, X, y, kw, out)
        # the index is needed to build lambda: read it from a second instance loaded on the same data (public API)
        probe = make_moment(case)
        probe.load_data(X, y, **kw)
        out["index"] = index_keys(probe.index)
        lam_s, lam = self._lam_series(case, probe.index)
        out["sw"] = [float(v) for v in probe.signed_weights(lam_s).values]
        pobj = previous_life(red.ErrorRate(costs={"fp": fl(case["fp"]), "fn": fl(case["fn"])}), case)
        pobj.load_data(X, y, **kw)
        out["ow"] = [float(v) for v in pobj.signed_weights().values]
        del RECORD[:]
        if kind == "eg":
            from fairlearn.reductions._exponentiated_gradient._lagrangian import _Lagrangian
            obj = previous_life(red.ErrorRate(costs={"fp": fl(case["fp"]), "fn": fl(case["fn"])}), case)
            lag = _Lagrangian(X=X, y=y, estimator=Recorder(), constraints=m, B=10.0, objective=obj, **kw)
            try:
                est = lag._call_oracle(lam_s)
            except (ZeroDivisionError, ValueError) as e:
                # n * |w| / sum|w| with all weights zero (0/0 -> exception or NaN weights rejected by sklearn):
                # an expected result only in that situation, judged below
                out["zero_division"] = type(e).__name__
                return out
            out["dummy"] = type(est).__name__ == "DummyClassifier"
            out["dummy_constant"] = float(est.constant) if out["dummy"] else None
            out["record"] = list(RECORD)
            return out
        # grid: the same lambda plus scaled copies as user-supplied grid columns
        ncols = case.get("ncols", 1)
        grid = pd.DataFrame({j: lam_s.reindex(probe.index) * (j + 1) for j in range(ncols)})
        gs = red.GridSearch(Recorder(), m, grid=grid)
        try:
            gs.fit(X, y, **kw)
        except ValueError as e:
            # a grid column whose total signed weights are all exactly 0: the constant-label shortcut hands all-zero
            # sample weights to DummyClassifier, which sklearn rejects (known finding F12, reported under C09); an
            # expected result only in that situation, judged below
            out["zero_division"] = type(e).__name__
            return out
        out["record"] = list(RECORD)
        out["n_predictors"] = len(gs.predictors_)
        out["dummies"] = [float(p.constant) if type(p).__name__ == "DummyClassifier" else None for p in gs.predictors_]
        out["lambda_vecs"] = [[float(gs.lambda_vecs_[j][k]) for k in probe.index] for j in range(ncols)]
        return out

    def _impl_fit(self, case, X, y, kw, out):
        """a whole ExponentiatedGradient / GridSearch fit with a recording learner and a user-supplied moment
        (a subclass that logs the multipliers it is asked to turn into weights)"""
        import logging
        import fairlearn.reductions as red
        logging.getLogger("fairlearn").setLevel(logging.ERROR)   # grid-size advice is not an error
        base = getattr(red, MOMENTS[case["moment"]])

        class Spy(base):
            def signed_weights(self, lambda_vec):
                EVENTS.append(("lam", [float(lambda_vec[k]) for k in self.index]))
                return super().signed_weights(lambda_vec)

        ckw = {}
        if case["db"] is not None:
            ckw["difference_bound"] = fl(case["db"])
        if case["rb"] is not None:
            ckw["ratio_bound"], ckw["ratio_bound_slack"] = fl(case["rb"]), fl(case["slack"])
        spy = previous_life(Spy(**ckw), case)
        probe = base(**ckw)
        probe.load_data(X, y, **kw)
        if len(probe.index) == 0:
            # no row has an event (e.g. TPR parity without label 1): no constraints, no multipliers; EG then fails in
            # project_lambda (KeyError '+') and GridSearch in the grid generator (ZeroDivisionError) -- degenerate
            out["index"], out["calls"], out["empty_index"] = [], [], True
            return out
        del RECORD[:]
        del EVENTS[:]
        if case["algo"] == "eg":
            obj = previous_life(red.ErrorRate(costs={"fp": fl(case["fp"]), "fn": fl(case["fn"])}), case)
            est = red.ExponentiatedGradient(Recorder(), spy, objective=obj, max_iter=case["iters"])
        else:
            est = red.GridSearch(Recorder(), spy, grid_size=case["iters"])
        try:
            est.fit(X, y, **kw)
        except (ZeroDivisionError, ValueError) as e:   # see the 'eg' kind: all weights zero
            out["zero_division"] = type(e).__name__
        out["index"] = index_keys(spy.index)
        calls = []
        for tag, val in EVENTS:
            if tag == "lam":
                calls.append({"lam": val, "fit": None})
            elif calls:
                calls[-1]["fit"] = val
        out["calls"] = calls
        return out

    def _impl_bgl(self, case):
        import fairlearn.reductions as red
        X, y, sf, _ = make_inputs(case)
        lo, hi = fl(case["lo"]), fl(case["hi"])
        mk = {"square": lambda: red.SquareLoss(lo, hi), "absolute": lambda: red.AbsoluteLoss(lo, hi),
              "zeroone": lambda: red.ZeroOneLoss()}[case["loss"]]
        m = previous_life(red.BoundedGroupLoss(mk(), upper_bound=0.5), case)
        kind = case["kind"]
        probe = red.BoundedGroupLoss(mk(), upper_bound=0.5)
        probe.load_data(X, y, sensitive_features=sf)
        idx = [gl(k) for k in probe.index]
        lam = lam_from_pool(case["lam_pool"], len(idx), case["lam_kind"], case["lam_pos"])
        lam_s = pd.Series([float(v) for v in lam], index=probe.index)
        out = {"index": idx}
        if kind == "bgl":
            pred = make_predictor(case["h"], "flat")
            out["gamma"] = [float(v) for v in probe.gamma(pred).values]
            out["sw"] = [float(v) for v in probe.signed_weights(lam_s).values]
            out["sw_none"] = [float(v) for v in probe.signed_weights().values]
            out["loss"] = [float(v) for v in np.asarray(probe.reduction_loss.eval(
                np.array([float(F(v)) for v in case["y"]]), np.array([float(F(v)) for v in case["h"]])))]
            out["proj"] = [float(v) for v in probe.project_lambda(lam_s).values]
            return out
        if len(set(case["y"])) == 1:
            # constant regression labels: both reductions hand a float to DummyClassifier(constant=...), which sklearn
            # rejects (InvalidParameterError) -- outside this property (labels with >= 2 values are assumed)
            out["skipped"] = "constant-labels"
            return out
        del RECORD[:]
        if kind == "bgl-eg":
            from fairlearn.reductions._exponentiated_gradient._lagrangian import _Lagrangian
            lag = _Lagrangian(X=X, y=y, estimator=Recorder(), constraints=m, B=10.0, sensitive_features=sf)
            lag._call_oracle(lam_s)
            out["record"] = list(RECORD)
            return out
        grid = pd.DataFrame({0: lam_s})
        gs = red.GridSearch(Recorder(), m, grid=grid)
        gs.fit(X, y, sensitive_features=sf)
        out["record"] = list(RECORD)
        return out

    # ------------------------------------------------------------------ model lines
    def _data(self, case):
        ys = [int(v) for v in case["y"]]
        gs = [str(v) for v in case["g"]]
        cs = None if case.get("c") is None else [str(v) for v in case["c"]]
        return ys, gs, cs

    def _mode(self, case, o):
        """which event rule reproduces the implementation's index (C06 reports a difference, not C07)"""
        ys, gs, cs = self._data(case)
        _, ratio = spec_config(case["db"], case["rb"], case["slack"])
        want, _ = spec_parity(case["moment"], ys, gs, cs, [F(0)] * len(ys), ratio)
        keys = [tuple(k) for k in o["index"]]
        if keys == spec_order(want.keys()):
            return "spec"
        if any(k[1].endswith(",nan") for k in keys):
            return "coded"
        return None

    def _plan(self, case, o):
        if "crash" in o or "index" not in o:
            return []
        kind = case["kind"]
        if kind.startswith("bgl"):
            ys, gs = proto.lst([F(v) for v in case["y"]]), proto.strs(case["g"])
            lam = lam_from_pool(case["lam_pool"], len(o["index"]), case["lam_kind"], case["lam_pos"])
            plan = [("index", f"mom.bgl.index {gs}"), ("sw", f"mom.bgl.sw {ys} {gs} {proto.lst(lam)}"),
                    ("sw_none", f"mom.bgl.sw {ys} {gs} none")]
            if kind == "bgl":
                plan.append(("gamma", f"mom.bgl.gamma {case['loss']} {case['lo']} {case['hi']} {ys} {gs} "
                                      f"{proto.lst([F(v) for v in case['h']])}"))
            elif "skipped" not in o:
                plan.append(("orc0", f"orc.{'eg' if kind == 'bgl-eg' else 'grid'}.loss {ys} {gs} {proto.lst(lam)}"))
            return plan
        mode = self._mode(case, o)
        if mode is None:
            return []
        eps, ratio = spec_config(case["db"], case["rb"], case["slack"])
        lam = lam_from_pool(case["lam_pool"], len(o["index"]), case["lam_kind"], case["lam_pos"])
        data = f"{proto.lst(case['y'])} {proto.strs(case['g'])} {'none' if case.get('c') is None else proto.strs(case['c'])}"
        pre = f"{case['moment']} {mode} {proto.rat(ratio)} {data}"
        if kind == "fit":
            plan = [("index", f"mom.index {case['moment']} {mode} {data}")]
            op = "orc.eg.parity" if case["algo"] == "eg" else "orc.grid.parity"
            for ci, call in enumerate(o.get("calls", [])):
                if len(call["lam"]) == len(o["index"]) and all(math.isfinite(v) for v in call["lam"]):
                    # the multipliers the reduction asked weights for, as the exact rationals the floats denote
                    plan.append((f"call{ci}", f"{op} {pre} {case['fp']} {case['fn']} {proto.lst([F(v) for v in call['lam']])}"))
            return plan
        plan = [("index", f"mom.index {case['moment']} {mode} {data}"),
                ("sw", f"mom.sw {pre} {proto.lst(lam)}"),
                ("ow", f"mom.err.sw {case['fp']} {case['fn']} {proto.lst(case['y'])} none")]
        if kind in ("eg", "grid") and mode == "spec":
            ys_, gs_, cs_ = self._data(case)
            w_ = oracle_signed_weights(case["moment"], ys_, gs_, cs_, dict(zip([tuple(k) for k in o["index"]], lam)), ratio)
            fp_, fn_ = F(case["fp"]), F(case["fn"])
            plan.append(("relabel", "mom.relabel " + proto.lst([-fp_ + (fp_ + fn_) * y + w for y, w in zip(ys_, w_)])))
        if kind == "eg":
            plan.append(("orc0", f"orc.eg.parity {pre} {case['fp']} {case['fn']} {proto.lst(lam)}"))
        if kind == "grid":
            for j in range(case.get("ncols", 1)):
                plan.append((f"orc{j}", f"orc.grid.parity {pre} {case['fp']} {case['fn']} "
                                        f"{proto.lst([(j + 1) * v for v in lam])}"))
        if kind == "parity":
            plan += [("gamma", f"mom.gamma {pre} {proto.lst([F(v) for v in case['h']])}"),
                     ("gamma2", f"mom.gamma {pre} {proto.lst([F(v) for v in case['h2']])}"),
                     ("proj", f"mom.proj {proto.rat(ratio)} {proto.lst(lam)}"),
                     ("err", f"mom.err.gamma {case['fp']} {case['fn']} {proto.lst(case['y'])} "
                             f"{proto.lst([F(v) for v in case['h']])}")]
        return plan

    def lines(self, case, impl_out):
        return [ln for _, ln in self._plan(case, impl_out)]

    # ------------------------------------------------------------------ judging
    def judge(self, case, o, mo):
        return demote_harness(self._judge(case, o, mo), getattr(self, "module", None) or "FairModel.Properties.C07",
                              "C07.generated-model-vs-spec")

    def _judge(self, case, o, mo):
        if "crash" in o:
            return [Problem("correspondence", f"implementation crashed: {o}", "impl-total")]
        model = None
        if mo is not None:
            model = {tag: out for (tag, _), out in zip(self._plan(case, o), mo)}
            bad = [t for t, v in model.items() if v == "bad-op"]
            if bad:
                return [Problem("harness", f"driver rejected lines {bad}")]
        if case["kind"].startswith("bgl"):
            return self._judge_bgl(case, o, model)
        if case["kind"] == "fit":
            return self._judge_fit(case, o, model)
        return self._judge_cls(case, o, model)

    def _judge_fit(self, case, o, model):
        """every call of the base learner during a whole fit: labels 1[w>0], weights proportional to |w| for
        w = objective weights + signed_weights(lambda) with the lambda the reduction asked weights for"""
        probs = []
        ys, gs, cs = self._data(case)
        n = len(ys)
        eps, ratio = spec_config(case["db"], case["rb"], case["slack"])
        keys = [tuple(k) for k in o["index"]]
        spec_keys, _ = spec_parity(case["moment"], ys, gs, cs, [F(0)] * n, ratio)
        if model is not None and model:
            if [tuple(k) for k in c06.CHECK._p_keys(model["index"])] != keys:
                probs.append(Problem("correspondence", "model index differs from Moment.index", "Moments.index"))
        if set(spec_keys) != set(keys):
            return probs       # C06 reports a wrong index
        fp, fn = F(case["fp"]), F(case["fn"])
        ow = [float(-fp + (fp + fn) * y) for y in ys]
        basis = []             # signed weights of the unit multipliers, exact (signed_weights is linear in lambda)
        for k in keys:
            basis.append([float(v) for v in oracle_signed_weights(case["moment"], ys, gs, cs,
                                                                  {kk: F(1 if kk == k else 0) for kk in keys}, ratio)])
        if not keys or len(set(gs)) < 2:
            # no row has an event / a single group (only reachable by shrinking; the quantifier has 2..4 groups):
            # there is nothing to constrain, GridSearch's grid has dimension 0 (degenerate, see tags)
            return probs
        if o.get("zero_division"):
            last = o["calls"][-1]["lam"] if o["calls"] else [0.0] * len(keys)
            wt = [ow[i] + sum(l * b[i] for l, b in zip(last, basis)) for i in range(n)]
            if any(abs(x) > 1e-9 for x in wt):
                probs.append(Problem("property", f"fit raised {o['zero_division']} although the weights {wt} are not all zero",
                                     "C07.eg_normalisation_preserves_order"))
            return probs
        if model is not None and any(t.startswith("call") for t in model) and not o.get("zero_division"):
            owx = [-fp + (fp + fn) * y for y in ys]
            basisx = [oracle_signed_weights(case["moment"], ys, gs, cs, {kk: F(1 if kk == k else 0) for kk in keys}, ratio)
                      for k in keys]
            for ci, call in enumerate(o["calls"]):
                if f"call{ci}" not in model:
                    continue
                lamx = [F(v) for v in call["lam"]]
                exact = [owx[i] + sum(l * b[i] for l, b in zip(lamx, basisx)) for i in range(n)]
                r = call["fit"]
                ps = self._cmp_call(model[f"call{ci}"], exact, [float(x) for x in exact], n, case["algo"] == "eg",
                                    r is None, None, r, f"call {ci} of {case['algo']} fit", live_tol=LIVE_TOL)
                if ps:
                    probs.extend(ps)
                    break
        for ci, call in enumerate(o["calls"]):
            lamf = call["lam"]
            wt = [ow[i] + sum(l * b[i] for l, b in zip(lamf, basis)) for i in range(n)]
            aw = [abs(x) for x in wt]
            big = max(aw + [1.0])
            live = [i for i in range(n) if aw[i] > LIVE_TOL * big]
            z = [1 if x > 0 else 0 for x in wt]
            r = call["fit"]
            where = f"call {ci}, lambda={dict((str(k), v) for k, v in zip(keys, lamf) if v != 0)}"
            if r is None:
                if len({z[i] for i in live}) > 1:
                    probs.append(Problem("property", f"the base learner was not called although 1[w>0] = {z} is not constant; {where}",
                                         "C07.best_response"))
                    break
                continue
            bad_y = [i for i in live if r["y"][i] != z[i]]
            rw = r["w"]
            factor = None if rw is None or sum(aw) == 0 else sum(rw) / sum(aw)
            bad_w = list(range(n)) if factor is None or not factor > 0 else \
                [i for i in range(n) if abs(rw[i] - factor * aw[i]) > W_FIT_TOL * (1 + factor) * big]
            if bad_y:
                i = bad_y[0]
                probs.append(Problem("property", f"learner received label {r['y'][i]} for row {i} but w = {wt[i]!r} "
                                                 f"(relabel 1[w>0]); {where}", "C07.best_response"))
                break
            if bad_w:
                i = bad_w[0]
                probs.append(Problem("property", f"learner received sample_weight {None if rw is None else rw[i]!r} for row {i}, "
                                                 f"not proportional to |w| = {aw[i]!r} (factor {factor!r}); {where}",
                                     "C07.best_response"))
                break
        return probs

    def _judge_cls(self, case, o, model):
        probs = []
        kind = case["kind"]
        ys, gs, cs = self._data(case)
        n = len(ys)
        eps, ratio = spec_config(case["db"], case["rb"], case["slack"])
        keys = [tuple(k) for k in o["index"]]
        lam = lam_from_pool(case["lam_pool"], len(keys), case["lam_kind"], case["lam_pos"])
        lamd = dict(zip(keys, lam))
        fp, fn = F(case["fp"]), F(case["fn"])
        spec_keys, _ = spec_parity(case["moment"], ys, gs, cs, [F(0)] * n, ratio)
        spec_ok = set(spec_keys) == set(keys)          # otherwise C06 reports the index; C07 keeps to the identities
        w_spec = oracle_signed_weights(case["moment"], ys, gs, cs, lamd, ratio) if spec_ok else None
        ow_spec = [-fp + (fp + fn) * y for y in ys]
        where = f"lambda={dict((str(k), str(v)) for k, v in lamd.items() if v != 0)}"
        scale = sum(abs(x) for x in o["sw"]) / n + sum(float(v) for v in lam)
        # signed_weights against -n * gradient of lambda.gamma from the definition of gamma
        if w_spec is not None:
            for i in range(n):
                if not near(o["sw"][i], w_spec[i], scale):
                    probs.append(Problem("property", f"signed_weights(lambda)[{i}] = {o['sw'][i]!r}, -n * d(lambda.gamma)/dh_{i} = "
                                                     f"{w_spec[i]} (ratio {ratio}); {where}", "C07.reduction_identity"))
                    break
        for i in range(n):
            if not near(o["ow"][i], ow_spec[i]):
                probs.append(Problem("property", f"ErrorRate.signed_weights()[{i}] = {o['ow'][i]!r}, -c_fp + (c_fp + c_fn) y = "
                                                 f"{ow_spec[i]}", "C07.objective_identity"))
                break
        if kind == "parity":
            h, h2 = [F(v) for v in case["h"]], [F(v) for v in case["h2"]]
            d = [float(a - b) for a, b in zip(h, h2)]
            lamf = [float(v) for v in lam]
            # (a) reduction identity on the implementation's own numbers
            lhs = dotf(lamf, o["gamma"]) - dotf(lamf, o["gamma2"])
            rhs = -dotf(o["sw"], d) / n
            if not near(lhs, rhs, scale):
                probs.append(Problem("property", f"lambda.gamma(h) - lambda.gamma(h') = {lhs!r} but -(1/n) sum w_i (h_i - h'_i) = "
                                                 f"{rhs!r} with w = signed_weights(lambda); {where}; h={case['h']} h'={case['h2']}",
                                     "C07.reduction_identity"))
            # (b) objective identity
            lhs_o = o["err"] - o["err2"]
            rhs_o = -dotf(o["ow"], d) / n
            if not near(lhs_o, rhs_o, float(fp + fn)):
                probs.append(Problem("property", f"err(h) - err(h') = {lhs_o!r} but -(1/n) sum w_i (h_i - h'_i) = {rhs_o!r} with "
                                                 f"w = ErrorRate(costs fp={fp}, fn={fn}).signed_weights()", "C07.objective_identity"))
            if any(not near(a, 3 * b, 1) for a, b in zip(o["ow_scaled"], o["ow"])) or not near(o["err_proj"][0], 2.0):
                probs.append(Problem("property", "ErrorRate.signed_weights(lambda) is not lambda * signed_weights() / "
                                                 "project_lambda is not the identity", "C07.objective_weights_scaled"))
            # (c) project_lambda
            proj = o["proj"]
            if not o["proj_index_ok"]:
                probs.append(Problem("property", "project_lambda changed the index", "C07.project_lambda_sound"))
            if any(v < -1e-12 for v in proj):
                probs.append(Problem("property", f"project_lambda returned a negative entry: {proj}; {where}",
                                     "C07.project_lambda_sound"))
            for gname in ("gamma", "gamma2"):
                L0 = dotf(lamf, [g - b for g, b in zip(o[gname], o["bound"])])
                L1 = dotf(proj, [g - b for g, b in zip(o[gname], o["bound"])])
                if L1 < L0 - RTOL * (1 + abs(L0) + scale):
                    probs.append(Problem("property", f"Lagrangian value dropped from {L0!r} to {L1!r} after project_lambda "
                                                     f"(eps={eps}, ratio={ratio}); {where}", "C07.project_lambda_sound"))
                    break
            if ratio != 1 and any(not near(a, b) for a, b in zip(proj, lamf)):
                probs.append(Problem("property", f"ratio {ratio} != 1 but project_lambda changed lambda: {proj} vs {lamf}",
                                     "C07.project_lambda_identity"))
            # (d) best response on the implementation's numbers (hard predictions)
            if all(v in (0, 1) for v in h + h2):
                wt = [a + b for a, b in zip(o["ow"], o["sw"])]
                z, aw = relabel(wt)
                dW = w01(z, aw, [float(v) for v in h]) - w01(z, aw, [float(v) for v in h2])
                dL = (o["err"] + dotf(lamf, o["gamma"])) - (o["err2"] + dotf(lamf, o["gamma2"]))
                if not near(dW, n * dL, n * scale):
                    probs.append(Problem("property", f"weighted 0/1 error difference {dW!r} != n * (Lagrangian difference) "
                                                     f"{n * dL!r}; {where}", "C07.best_response"))
        elif o.get("zero_division"):
            mults = [1] if kind == "eg" else [j + 1 for j in range(case.get("ncols", 1))]
            if w_spec is not None and not any(all(a + k * b == 0 for a, b in zip(ow_spec, w_spec)) for k in mults):
                probs.append(Problem("property", f"{'_call_oracle divided by zero' if kind == 'eg' else 'GridSearch.fit raised'} "
                                                 f"although the weights are not all zero; {where}",
                                     "C07.eg_normalisation_preserves_order"))
        else:
            probs.extend(self._judge_record(case, o, w_spec, ow_spec, n, kind, where))
        if model is not None and model:
            probs.extend(self._model_cls(case, o, model, keys, lam, w_spec, ow_spec, bool(probs)))
            if kind in ("eg", "grid") and "orc0" in model and not any(p.kind == "property" for p in probs):
                probs.extend(self._orc_cls(case, o, model, w_spec, ow_spec, n, kind, where))
        return probs

    def _orc_cls(self, case, o, model, w_spec, ow_spec, n, kind, where):
        probs = []
        ncols = 1 if kind == "eg" else case.get("ncols", 1)
        rec = list(o.get("record", []))
        for j in range(ncols):
            exact = None if w_spec is None else [a + (j + 1) * b for a, b in zip(ow_spec, w_spec)]
            wfloat = [a + (j + 1) * b for a, b in zip(o["ow"], o["sw"])]
            if kind == "eg":
                if o.get("zero_division"):
                    if parse_call(model["orc0"])[0] != "nan-weights" and exact is not None and all(x == 0 for x in exact):
                        probs.append(orc_model_problem(f"all weights are 0 but the model says {model['orc0'][:40]}; {where}"))
                    return probs
                dummy, dconst = o["dummy"], o["dummy_constant"]
            elif o.get("zero_division"):
                return probs       # some column has all-zero weights (judged above); nothing was recorded
            else:
                dconst = o["dummies"][j] if j < len(o["dummies"]) else None
                dummy = dconst is not None
            r = None
            if not dummy and rec:
                r = rec.pop(0)
            probs.extend(self._cmp_call(model[f"orc{j}"], exact, wfloat, n, kind == "eg", dummy, dconst, r,
                                        f"column {j}; {where}"))
            if probs:
                break
        return probs

    # ------------------------------------------------------------------ Oracle.callOracle* / callGrid* (lifted source)
    def _cmp_call(self, mtok, exact_w, wfloat, n, norm, impl_dummy, impl_const, rec, where, live_tol=1e-9):
        """`mtok`: what the Lean `Oracle.call*` (built from the lifted source expressions) says the learner is called
        with; exact_w: the exact total signed weights from the property's definition (None if unavailable);
        wfloat: the same in floats (decides which rows carry a weight that is non-zero beyond rounding);
        norm: weights are n|w|/sum|w| (EG) rather than |w| (grid)."""
        probs = []
        kind, c, my, mw = parse_call(mtok)
        if kind not in ("fit", "dummy", "nan-weights"):
            return [orc_model_problem(f"Oracle model returned {mtok[:60]!r}; {where}")]
        # --- model vs first principles (exact) --------------------------------------------------------
        if exact_w is not None:
            z, aw = relabel(exact_w)
            tot = sum(aw)
            livex = [i for i in range(n) if exact_w[i] != 0]
            if kind == "nan-weights":
                if not (norm and tot == 0):
                    probs.append(orc_model_problem(f"model reports 0/0 weights but sum|w| = {tot}; {where}"))
            elif norm and tot == 0:
                probs.append(orc_model_problem(f"model does not report the 0/0 normalisation; {where}"))
            else:
                exp_w = [n * x / tot for x in aw] if norm else aw
                if len(my) != n or any(my[i] != z[i] for i in livex):
                    probs.append(orc_model_problem(f"model labels {[str(v) for v in my]} vs 1[w>0] = {z} on the rows with w != 0; {where}"))
                elif mw != exp_w:
                    probs.append(orc_model_problem(f"model weights {[str(v) for v in mw]} vs {'n|w|/sum|w|' if norm else '|w|'} = "
                                                   f"{[str(v) for v in exp_w]}; {where}"))
                elif kind == "dummy" and any(z[i] != c for i in livex):
                    probs.append(orc_model_problem(f"model uses the constant {c} but 1[w>0] = {z}; {where}"))
                elif kind == "fit" and len(livex) == n and len(set(z)) == 1:
                    probs.append(orc_model_problem(f"model fits the learner although 1[w>0] = {z} is constant; {where}"))
        if probs or kind == "nan-weights":
            return probs
        # --- implementation vs model -------------------------------------------------------------------------
        big = max([abs(x) for x in wfloat] + [1.0])
        live = [i for i in range(n) if abs(wfloat[i]) > live_tol * big]
        all_live = len(live) == n
        rel = "Oracle.callOracle" if norm else "Oracle.callGrid"
        if kind == "dummy":
            if impl_dummy is False and all_live:
                probs.append(Problem("correspondence", f"model (lifted source): constant learner {c}; implementation called "
                                                       f"the base learner; {where}", rel))
            elif impl_dummy and impl_const is not None and impl_const != float(c):
                probs.append(Problem("correspondence", f"model (lifted source): constant {c}; implementation: constant "
                                                       f"{impl_const}; {where}", rel))
            return probs
        if impl_dummy:
            if all_live:
                probs.append(Problem("correspondence", f"implementation used a constant learner, the model (lifted source) "
                                                       f"fits the base learner on labels {[str(v) for v in my]}; {where}", rel))
            return probs
        if rec is None:
            if all_live:
                probs.append(Problem("correspondence", f"the base learner was not called; model: fit on {[str(v) for v in my]}; {where}", rel))
            return probs
        bad_y = [i for i in live if rec["y"][i] != float(my[i])]
        sc = max([float(x) for x in mw] + [1.0])
        rw = rec["w"]
        bad_w = list(range(n)) if rw is None else [i for i in range(n) if abs(rw[i] - float(mw[i])) > W_CMP_TOL * sc]
        if bad_y:
            i = bad_y[0]
            probs.append(Problem("correspondence", f"row {i}: learner received label {rec['y'][i]}, model (lifted source) says "
                                                   f"{my[i]} (w = {wfloat[i]!r}); {where}", rel))
        elif bad_w:
            i = bad_w[0]
            probs.append(Problem("correspondence", f"row {i}: learner received sample_weight {None if rw is None else rw[i]!r}, model "
                                                   f"(lifted source) says {mw[i]} = {float(mw[i])!r}; {where}", rel))
        return probs

    def _judge_record(self, case, o, w_spec, ow_spec, n, kind, where):
        """what the recording learner received vs relabel 1[w>0] / reweight |w| of w = objective + constraint weights"""
        probs = []
        if w_spec is None:
            return probs
        ncols = 1 if kind == "eg" else case.get("ncols", 1)
        rec = list(o["record"])
        for j in range(ncols):
            wt = [a + (j + 1) * b for a, b in zip(ow_spec, w_spec)]
            z, aw = relabel(wt)
            tot = sum(aw)
            big = max([float(x) for x in aw] + [1.0])
            live = [i for i in range(n) if abs(float(wt[i])) > 1e-9 * big]
            const = len({z[i] for i in range(n)}) == 1
            if kind == "eg":
                dummy, dconst = o["dummy"], o["dummy_constant"]
            else:
                dconst = o["dummies"][j] if j < len(o["dummies"]) else None
                dummy = dconst is not None
            if dummy:
                # a constant relabelling never reaches the learner; it must really be constant
                if len({z[i] for i in live}) > 1 or (live and dconst != z[live[0]]):
                    probs.append(Problem("property", f"reduction used a constant learner {dconst} but 1[w>0] = {z}; {where}",
                                         "C07.best_response"))
                continue
            if not rec:
                probs.append(Problem("property", f"the base learner was not called although 1[w>0] = {z} is not constant",
                                     "C07.best_response"))
                break
            r = rec.pop(0)
            exp_w = [float(x) for x in aw] if kind == "grid" else ([float(n * x / tot) for x in aw] if tot != 0 else None)
            if exp_w is None:
                continue
            bad_y = [i for i in live if r["y"][i] != z[i]]
            sc = max(exp_w + [1.0])
            # property: the weights are |w| up to one positive factor (a rescaling does not change the learner's argmin)
            rw = r["w"]
            factor = None if rw is None or sum(exp_w) == 0 else sum(rw) / sum(exp_w)
            bad_w = list(range(n)) if factor is None or not factor > 0 else \
                [i for i in range(n) if not near(rw[i], factor * exp_w[i], sc * max(factor, 1.0))]
            if bad_y:
                probs.append(Problem("property", f"learner received label {r['y'][bad_y[0]]} for row {bad_y[0]} but w = "
                                                 f"{wt[bad_y[0]]} (relabel 1[w>0]); column {j}; {where}", "C07.best_response"))
            elif bad_w:
                i = bad_w[0]
                probs.append(Problem("property", f"learner received sample_weight {None if rw is None else rw[i]!r} for row {i}, "
                                                 f"not proportional to |w| = {float(aw[i])!r} (w = {wt[i]}, factor {factor!r}); "
                                                 f"column {j}; {where}", "C07.best_response"))
            elif not near(factor, 1.0):
                probs.append(Problem("correspondence", f"sample weights are {factor!r} x the modelled "
                                                       f"{'|w|' if kind == 'grid' else 'n|w|/sum|w|'}; column {j}",
                                     "Moments.egWeights" if kind == "eg" else "Moments.absWeights"))
            del const
        if kind == "grid":
            lam = lam_from_pool(case["lam_pool"], len(o["index"]), case["lam_kind"], case["lam_pos"])
            for j, col in enumerate(o["lambda_vecs"]):
                if any(not near(a, (j + 1) * float(b)) for a, b in zip(col, lam)):
                    probs.append(Problem("property", f"lambda_vecs_[{j}] differs from the supplied grid column", "C07.best_response"))
                    break
        return probs

    def _model_cls(self, case, o, model, keys, lam, w_spec, ow_spec, impl_bad):
        probs = []
        mkeys = [tuple(k) for k in c06.CHECK._p_keys(model["index"])]
        msw = proto.p_list(model["sw"])
        mow = proto.p_list(model["ow"])
        n = len(case["y"])
        if mkeys != keys:
            probs.append(Problem("correspondence", "model index differs from Moment.index", "Moments.index"))
            return probs
        if w_spec is not None and (msw != w_spec or mow != ow_spec) and not impl_bad:
            probs.append(Problem("harness", f"model signed weights {msw[:4]} / {mow[:4]} differ from the oracle {w_spec[:4]} / {ow_spec[:4]}"))
        if "relabel" in model and w_spec is not None:
            wt = [a + b for a, b in zip(ow_spec, w_spec)]
            z, aw = relabel(wt)
            tot = sum(aw)
            mz, mabs, meg = model["relabel"].split(" ")
            if proto.p_list(mz) != z or proto.p_list(mabs) != aw or \
                    (tot != 0 and proto.p_list(meg) != [n * x / tot for x in aw]):
                probs.append(Problem("harness", f"model relabel {model['relabel'][:80]} differs from the oracle"))
        if case["kind"] == "parity":
            sc = sum(abs(float(x)) for x in msw) / n + 1
            pairs = [("sw", o["sw"], msw), ("gamma", o["gamma"], proto.p_list(model["gamma"])),
                     ("gamma2", o["gamma2"], proto.p_list(model["gamma2"])), ("proj", o["proj"], proto.p_list(model["proj"])),
                     ("err", [o["err"]], [proto.p_rat(model["err"])]), ("ow", o["ow"], mow)]
            for name, a, b in pairs:
                if len(a) != len(b) or any(not near(x, y, sc) for x, y in zip(a, b)):
                    if not impl_bad:
                        probs.append(Problem("correspondence", f"{name}: implementation {a[:5]} vs model {[str(v) for v in b[:5]]}",
                                             f"Moments.{name}"))
                    break
        return probs

    def _judge_bgl(self, case, o, model):
        probs = []
        ys = [F(v) for v in case["y"]]
        gs = case["g"]
        n = len(ys)
        idx = sorted(set(gs))
        lam = lam_from_pool(case["lam_pool"], len(idx), case["lam_kind"], case["lam_pos"])
        lamd = dict(zip(idx, lam))
        cnt = {g: gs.count(g) for g in idx}
        w_spec = [lamd[g] * n / cnt[g] for g in gs]
        if o["index"] != idx:
            return [Problem("property", f"index {o['index']} is not the sorted group list {idx}", "C07.loss_identity")]
        kind = case["kind"]
        where = f"lambda={dict((k, str(v)) for k, v in lamd.items())}"
        if kind == "bgl":
            lamf = [float(v) for v in lam]
            lhs = dotf(lamf, o["gamma"])
            rhs = dotf(o["sw"], o["loss"]) / n
            sc = sum(abs(x) for x in o["sw"])
            if not near(lhs, rhs, sc):
                probs.append(Problem("property", f"lambda.gamma(h) = {lhs!r} but (1/n) sum w_i loss_i(h) = {rhs!r}; {where}",
                                     "C07.loss_identity"))
            lo, hi = F(case["lo"]), F(case["hi"])
            loss = "square" if case["loss"] == "square" else "absolute"
            for i in range(n):
                if not near(o["sw"][i], w_spec[i], sc) or not near(o["sw_none"][i], 1):
                    probs.append(Problem("property", f"signed_weights(lambda)[{i}] = {o['sw'][i]!r}, lambda_g/P(g) = {w_spec[i]}; "
                                                     f"signed_weights()[{i}] = {o['sw_none'][i]!r}", "C07.loss_identity"))
                    break
                if not near(o["loss"][i], spec_loss(loss, lo, hi, ys[i], F(case["h"][i]))):
                    probs.append(Problem("property", f"loss_{i} = {o['loss'][i]!r}", "C07.loss_identity"))
                    break
            if any(not near(a, b) for a, b in zip(o["proj"], lamf)):
                probs.append(Problem("property", "BoundedGroupLoss.project_lambda is not the identity", "C07.project_lambda_identity"))
        elif "skipped" not in o:
            rec = o["record"]
            wt = [1 + w for w in w_spec] if kind == "bgl-eg" else list(w_spec)
            tot = sum(abs(w) for w in wt)
            exp_w = [float(n * abs(w) / tot) for w in wt] if kind == "bgl-eg" else [float(w) for w in wt]
            if not rec:
                probs.append(Problem("property", "the base learner was not called", "C07.loss_identity"))
            else:
                r = rec[0]
                sc = max(exp_w + [1.0])
                if any(not near(a, b) for a, b in zip(r["y"], ys)):
                    probs.append(Problem("property", "regression reduction changed the labels", "C07.loss_identity"))
                elif r["w"] is None or any(not near(a, b, sc) for a, b in zip(r["w"], exp_w)):
                    probs.append(Problem("property", f"learner received sample_weight {r['w']}, expected {exp_w}; {where}",
                                         "C07.loss_identity"))
        if model is not None and model and not probs:
            if proto.p_strs(model["index"]) != idx or proto.p_list(model["sw"]) != w_spec or \
                    proto.p_list(model["sw_none"]) != [F(1)] * n:
                probs.append(Problem("harness", f"bgl: model {model} vs oracle {w_spec}"))
            if "orc0" in model:
                ck, _, my, mw = parse_call(model["orc0"])
                wt = [1 + w for w in w_spec] if kind == "bgl-eg" else list(w_spec)
                tot = sum(abs(w) for w in wt)
                if kind == "bgl-eg" and tot == 0:
                    want = ("nan-weights", None, None)
                else:
                    want = ("fit", ys, [n * abs(w) / tot for w in wt] if kind == "bgl-eg" else wt)
                if (ck, my, mw) != want:
                    probs.append(orc_model_problem(f"regression reduction: model {model['orc0'][:80]} vs labels unchanged / "
                                                   f"weights {[str(v) for v in (want[2] or [])][:6]}; {where}"))
                elif ck == "fit" and o.get("record"):
                    r = o["record"][0]
                    sc = max([float(x) for x in mw] + [1.0])
                    if any(not near(a, b) for a, b in zip(r["y"], my)) or r["w"] is None or \
                            any(not near(a, b, sc) for a, b in zip(r["w"], mw)):
                        probs.append(Problem("correspondence", f"regression reduction: learner received {r['y'][:4]} / {r['w']}, "
                                                               f"model (lifted source) {model['orc0'][:80]}; {where}",
                                             "Oracle.callOracleLoss" if kind == "bgl-eg" else "Oracle.callGridLoss"))
            if kind == "bgl":
                mg = proto.p_list(model["gamma"])
                if any(not near(a, b) for a, b in zip(o["gamma"], mg)):
                    probs.append(Problem("correspondence", f"bgl gamma {o['gamma']} vs model {mg}", "Moments.bglGamma"))
        return probs

    # ------------------------------------------------------------------ bookkeeping
    def signature(self, case, o):
        kind = case["kind"]
        tags = [f"kind={kind}", f"lam={case['lam_kind']}", history_tag(case)]
        n = len(case["y"])
        tags.append(f"n={'2-6' if n <= 6 else '7-12' if n <= 12 else '13-30'}")
        nontriv = True
        if not kind.startswith("bgl"):
            mg, ml = strata_stats(case)
            bk = "default" if case["db"] is None and case["rb"] is None else ("diff" if case["rb"] is None else f"ratio={case['rb']}")
            hard = all(F(v).denominator == 1 for v in case["h"] + case["h2"])
            tags += [f"moment={case['moment']}", f"groups={len(set(case['g']))}",
                     f"strata={0 if case['c'] is None else len(set(case['c']))}", f"bound={bk}",
                     "pred=hard" if hard else "pred=soft", f"lam_order={case['lam_order']}",
                     "costs=default" if (case["fp"], case["fn"]) == ("1", "1") else "costs=given"]
            if mg:
                tags.append("some-stratum-lacks-a-group")
            if ml:
                tags.append("some-stratum-lacks-a-label")
            if isinstance(o, dict) and "index" in o:
                m = len(o["index"])
                lam = lam_from_pool(case["lam_pool"], m, case["lam_kind"], case["lam_pos"])
                nontriv = any(v != 0 for v in lam) and case["h"] != case["h2"]
                if kind == "fit" and o.get("zero_division"):
                    tags.append("fit:all-weights-zero-or-single-group")
                if kind == "fit":
                    nc = len(o.get("calls", []))
                    nf = len([c for c in o.get("calls", []) if c["fit"] is not None])
                    nontriv = nf > 0
                    tags += [f"fit:{case['algo']}", f"fit:oracle-calls={'0' if nc == 0 else '1-5' if nc <= 5 else '6-15' if nc <= 15 else '16+'}",
                             f"fit:learner-calls={'0' if nf == 0 else '1-5' if nf <= 5 else '6+'}"]
                tags.append(f"constraints={'2-4' if m <= 4 else '6-12' if m <= 12 else '14+'}")
                if kind == "eg":
                    tags.append("eg:all-weights-zero" if o.get("zero_division") else
                                "eg:dummy" if o.get("dummy") else "eg:learner-called")
                if kind == "grid":
                    tags.append("grid:all-weights-zero(F12)" if o.get("zero_division") else
                                f"grid:learner-calls={len(o.get('record', []))}")
                if m == 0:
                    tags.append("empty-index(no row has an event)")
                if kind == "parity" and self._mode(case, o) != "spec":
                    tags.append("index-differs-from-spec(C06)")
        else:
            tags += [f"loss={case['loss']}"]
            if isinstance(o, dict) and "record" in o:
                tags.append(f"learner-calls={len(o['record'])}")
            if isinstance(o, dict) and "skipped" in o:
                tags.append("skipped:constant-regression-labels")
                nontriv = False
        return json.dumps(case, sort_keys=True), nontriv, tags
