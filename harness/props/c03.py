"""C03 — named fairness metrics equal their first-principles definitions."""
import itertools
import math
import warnings
from fractions import Fraction as F

import numpy as np
import pandas as pd

from .. import proto
from ..core import Check, Problem, register
from . import mfcommon as mc
from .c02 import x_div, x_lt, x_max, x_min, x_sub, x_abs, x_tok, isnan

TOL = 1e-12
# sklearn-only bases: the oracle is sklearn itself on the first-principles slices; measured deviation on the clean tree is
# exactly 0.0 (460 comparisons, seeds 0-2), so the floor tolerance is used (was 1e-9)
SK_TOL = 1e-12
METHODS = ("between_groups", "to_overall")
NAMED = ["demographic_parity_difference", "demographic_parity_ratio", "equal_opportunity_difference", "equal_opportunity_ratio"]
EODDS = ["equalized_odds_difference", "equalized_odds_ratio"]
# generated functions whose base metric is in the Lean pool: python base name -> oracle tag
POOL_BASE = {"true_positive_rate": "tpr", "true_negative_rate": "tnr", "false_positive_rate": "fpr", "false_negative_rate": "fnr",
             "selection_rate": "selrate", "accuracy_score": "accuracy", "zero_one_loss": "zeroone",
             "mean_absolute_error": "mae", "mean_squared_error": "mse"}
GEN_SPEC = [("true_positive_rate", ["difference", "ratio"]), ("true_negative_rate", ["difference", "ratio"]),
            ("false_positive_rate", ["difference", "ratio"]), ("false_negative_rate", ["difference", "ratio"]),
            ("selection_rate", ["difference", "ratio"]), ("accuracy_score", ["difference", "ratio", "group_min"]),
            ("zero_one_loss", ["difference", "ratio", "group_max"]), ("balanced_accuracy_score", ["group_min"]),
            ("precision_score", ["group_min"]), ("recall_score", ["group_min"]), ("roc_auc_score", ["group_min"]),
            ("mean_absolute_error", ["group_max"]), ("mean_squared_error", ["group_max"]), ("r2_score", ["group_min"]),
            ("f1_score", ["group_min"]), ("log_loss", ["group_max"])]


# sha256 of lean/FairModel/Generated/FairnessSpec.lean as lifted from the pinned tree (rule: see c01.PINNED_FRAMESRC_SHA256)
PINNED_FAIRNESSSPEC_SHA256 = "4770219af5ca963f54e7762930824705e3e9b8ec3bcc967f9f3e15b4e9e2505c"
_SPEC_TIE = {}


def lifted_changed():
    """a generated file the C03 model is computed with differs from the pinned tree's lift (then a model-vs-oracle
    disagreement is a broken tie, not a bug of this machinery: DESIGN 3a)"""
    from . import c01 as c01mod
    from . import c02 as c02mod
    return c01mod._generated_changed("FairnessSpec.lean", PINNED_FAIRNESSSPEC_SHA256) or c02mod.populate_changed()


def lifted_metrics_spec():
    """`metricsSpec` of Generated/FairnessSpec.lean (lifted METRICS_SPEC of _generated_metrics.py) as a Python list;
    the Lean list-of-pairs literal is also a Python literal"""
    import ast
    import os
    import re
    from .. import leanrun
    path = os.path.join(leanrun.LEAN, "FairModel", "Generated", "FairnessSpec.lean")
    txt = open(path).read()
    m = re.search(r"def metricsSpec : List \(String × List String\) :=\s*\n\s*(\[.*\])\s*\n", txt)
    if m is None:
        raise ValueError("metricsSpec not found in Generated/FairnessSpec.lean")
    return [(a, list(b)) for a, b in ast.literal_eval(m.group(1))]


def gen_spec_tie():
    """GEN_SPEC (the functions this check calls and its oracle evaluates) must be the LIFTED METRICS_SPEC: on the pinned
    tree a mismatch is a bug of this file (harness error); after a source edit that changed the generated file it is a
    broken tie (the family of generated functions changed; reported as a correspondence problem)"""
    if "p" not in _SPEC_TIE:
        try:
            lifted = lifted_metrics_spec()
            err = None
        except Exception as e:  # noqa: BLE001
            lifted, err = None, repr(e)
        mine = [(a, list(b)) for a, b in GEN_SPEC]
        if err is not None:
            _SPEC_TIE["p"] = Problem("harness", f"cannot read the lifted METRICS_SPEC: {err}")
        elif lifted != mine:
            diff = [x for x in lifted if x not in mine] + [("missing", x) for x in mine if x not in lifted]
            msg = f"GEN_SPEC of props/c03.py differs from the lifted METRICS_SPEC (Generated/FairnessSpec.lean): {diff[:4]}"
            from . import c01 as c01mod
            if c01mod._generated_changed("FairnessSpec.lean", PINNED_FAIRNESSSPEC_SHA256):
                _SPEC_TIE["p"] = Problem("correspondence", msg, "C03.gen_spec_tie")
            else:
                _SPEC_TIE["p"] = Problem("harness", msg)
        else:
            _SPEC_TIE["p"] = None
    return _SPEC_TIE["p"]


def all_combos():
    """every (function, method, agg) this check can call"""
    out = []
    for fn in NAMED:
        for m in METHODS:
            out.append([fn, m, None])
    for fn in EODDS:
        for m in METHODS:
            for a in ("worst_case", "mean"):
                out.append([fn, m, a])
    for base, variants in GEN_SPEC:
        for v in variants:
            if v in ("difference", "ratio"):
                for m in METHODS:
                    out.append([f"{base}_{v}", m, None])
            else:
                out.append([f"{base}_{v}", None, None])
    for tr in ("difference", "ratio", "group_min", "group_max"):
        for m in (METHODS if tr in ("difference", "ratio") else (None,)):
            out.append([f"derived:selrate_pos0:{tr}", m, None])
    return out


COMBOS = all_combos()
N_NAMED = 4 * 2 + 2 * 2 * 2


def oracle_rate(tag, rows):
    """rows: (y, pred, w) Fractions"""
    if tag == "zeroone":
        W = sum(r[2] for r in rows)
        return sum(r[2] for r in rows if r[0] != r[1]) / W
    if tag == "mae":
        return sum(abs(r[0] - r[1]) * r[2] for r in rows) / sum(r[2] for r in rows)
    if tag == "mse":
        return sum((r[0] - r[1]) ** 2 * r[2] for r in rows) / sum(r[2] for r in rows)
    if tag == "selrate0":
        return sum(r[2] for r in rows if r[1] == 0) / sum(r[2] for r in rows)
    return mc.oracle_metric(tag, [(r[0], r[1], r[2], F(0)) for r in rows])


def aggregate(transform, method, vals, overall):
    """documented aggregate of exact group values"""
    if transform == "group_min":
        return x_min(vals)
    if transform == "group_max":
        return x_max(vals)
    if transform == "difference":
        if method == "between_groups":
            return x_sub(x_max(vals), x_min(vals))
        return x_max([x_abs(x_sub(v, overall)) for v in vals])
    if transform == "ratio":
        if method == "between_groups":
            return x_div(x_min(vals), x_max(vals))
        rs = [x_div(v, overall) for v in vals]
        return x_min([x_min([r, x_div(F(1), r)]) for r in rs])
    raise KeyError(transform)


# --------------------------------------------------------------------------- make_derived_metric plumbing
def dm_plain(y_true, y_pred, sample_weight=None, scale=1.0):
    """scale x weighted mean prediction; a weight array of the wrong length is rejected"""
    w = np.ones(len(y_pred)) if sample_weight is None else np.asarray(sample_weight, dtype=float)
    if len(w) != len(y_pred):
        raise ValueError("length")
    return float(scale) * float(np.dot(np.asarray(y_pred, dtype=float), w) / w.sum())


def dm_kwargs(y_true, y_pred, **kw):
    return dm_plain(y_true, y_pred, sample_weight=kw.get("sample_weight"), scale=kw.get("scale", 1.0))


def dm_method(y_true, y_pred, method="x", sample_weight=None):
    return dm_plain(y_true, y_pred, sample_weight=sample_weight)


class DmInstance:
    def __call__(self, y_true, y_pred, sample_weight=None, scale=1.0):
        return dm_plain(y_true, y_pred, sample_weight=sample_weight, scale=scale)


# kind -> (object factory, callable, has __name__, accepts **kw, keyword parameters in inspect.signature)
DM_KINDS = {
    "plain": (lambda: dm_plain, True, True, False, ["sample_weight", "scale"]),
    "kwargs": (lambda: dm_kwargs, True, True, True, ["kw"]),
    "method": (lambda: dm_method, True, True, False, ["method", "sample_weight"]),
    "partial": (lambda: __import__("functools").partial(dm_plain), True, False, False, ["sample_weight", "scale"]),
    "instance": (lambda: DmInstance(), True, False, False, ["sample_weight", "scale"]),
    "noncallable": (lambda: 3.5, False, False, False, []),
}
DM_TRANSFORMS = ["difference", "ratio", "group_min", "group_max"]
DM_SPN = [None, "default", [], ["sample_weight"], ["sample_weight", "method"], ["method"], ["zzz"], ["zzz", "sample_weight"]]


def dm_case(rng):
    kind = rng.choice(["plain"] * 6 + ["kwargs"] * 3 + ["method", "partial", "instance", "noncallable"])
    tr = rng.choice(DM_TRANSFORMS * 3 + ["diff", "Ratio", "group_mean", ""])
    return {"kind": kind, "transform": tr, "spn": rng.choice(DM_SPN + ["default"] * 4),
            "sw": rng.random() < 0.6, "scale": rng.choice([None, None, "2", "1/2", "3"]),   # positive: -1 * 0.0 = -0.0 (not modelled)
            "method": rng.choice([None, None, "between_groups", "to_overall", "to_overall", "zzz"]),
            "extra": rng.random() < 0.08}


@register
class CHECK(Check):
    pid = "C03"
    module = "FairModel.Properties.C03X"  # base file + composition theorems (same namespace)
    technique = ("Lean 4 theorems: base rates = first-principles weighted ratios on every slice, the named/generated functions "
                 "= Frame+Aggregate composition read from tables LIFTED from _fairness_metrics.py/_generated_metrics.py/"
                 "_make_derived_metric.py; compiled-driver correspondence with the public fairlearn.metrics functions; the argument "
                 "plumbing of _DerivedMetric.__init__/__call__ (validation steps, routing chain of **other_params, default "
                 "sample_param_names, the __name__ read) lifted into Generated/DerivedSpec.lean and modelled in Model/Derived.lean; "
                 "the MetricFrame accessor call of every function (Fairness.applyAgg) is computed WITH the lifted result cache "
                 "(Generated/PopulateSrc.lean through Model/AggregateCache.lean: accessor defaults, cache slot, the (method, errors) "
                 "the slot was computed with, the lifted _extract_result) and proved equal to the hard-coded call "
                 "(applyAgg_lifted_eq_model, run_lifted_eq_model, src_accessor_calls); GEN_SPEC of this file is compared with the "
                 "lifted METRICS_SPEC on every run")
    level_text = ("Theorems (all datasets, any group structure incl. single-member groups and empty denominators, any positive "
                  "weights): selection_rate/TPR/FPR cells equal the direct weighted ratios (TPR/FPR := 0 on an empty "
                  "denominator); the values the aggregates see are exactly {rate(g) : g observed group} and overall = rate(all "
                  "rows); demographic_parity/equal_opportunity difference = max-min resp. max|rate_g-rate_all|, ratio = min/max "
                  "resp. min ratio_sub_one(rate_g/rate_all); equalized odds = Python max/min resp. mean of the TPR and FPR "
                  "disparities; generated names/dispatch tables lifted from source; make_derived_metric = the MetricFrame call. "
                  "Tie: 6 named + 25 generated functions + make_derived_metric with a bound non-sample parameter vs the compiled "
                  "model (pool bases) and vs an independent Fraction oracle (sklearn-only bases: sklearn on first-principles slices). "
                  "Added: make_derived_metric constructor succeeds iff callable, no 'method' parameter, transform in the 4 options, "
                  "every failure is a ValueError; routing: name in sample_param_names -> sliced sample parameter (even 'method'), else "
                  "'method' -> transform parameter, else bound with functools.partial; the routed call IS Fairness.derived; unknown "
                  "method string -> ValueError for difference/ratio, ignored by group_min/group_max; a callable without __name__ "
                  "raises AttributeError (finding F17); equalized odds for ANY pair of disparities incl. NaN/inf (Python max/min, "
                  "NaN-skipping mean) and worst_case >= each component >= ... mean bounds. Review R1: the WHOLE generated family from "
                  "the lifted METRICS_SPEC (generated_family / generated_eq_spec: 18 of 25 functions, 9 of 16 bases, each base with a "
                  "first-principles definition incl. TNR, FNR, accuracy, zero-one loss, MAE, MSE; the 7 sklearn-only bases have no "
                  "theorem and are checked by the correspondence only: generated_bases); to_overall variants of equal opportunity / "
                  "equalized odds; the overall = 0 branch of ratio(to_overall) (NaN); derived_call_eq_finish (routing + MetricFrame call).")
    design_ref = "DESIGN.md section 4, C03"
    quick_cases = 550
    thorough_cases = 6000
    quick_budget_s = 100
    thorough_budget_s = 1300
    workers_thorough = 4
    rule = ("binary {0,1} label/prediction vectors of 1..24 rows, rows assigned to 1..4 groups of one sensitive feature (sizes >= 1; "
            "list/ndarray/Series/DataFrame containers, str or int group labels) or to the cells of two features, without weights or "
            "with positive integer/dyadic weights (a weighted single-row group is frequent: regression for defect F1); per dataset 6 "
            "(function, method, agg) combinations out of 65: the 6 named functions x {between_groups,to_overall} x {worst_case,"
            "mean}, all 25 generated <metric>_<transform> functions, make_derived_metric(selection_rate, t)(..., pos_label=0) for the "
            "4 transforms; with probability 0.6 one make_derived_metric(metric, transform, sample_param_names)(..., **kw) experiment: "
            "metric in {plain function, **kwargs function, function with a 'method' parameter, functools.partial, callable "
            "instance, non-callable}, transform in the 4 options or malformed, sample_param_names in {None, default, [], "
            "[sample_weight], [sample_weight,method], [method], [zzz], [zzz,sample_weight]}, kw subset of {sample_weight, scale, "
            "method (valid or 'zzz'), foo}; "
            "distinct = distinct (dataset, weights, grouping); non-trivial = >= 2 rows. thorough: EXHAUSTIVE over all "
            "(y, pred) vectors x all partitions into <= 3 groups x weights in {1,2}^n for n <= 4, and unweighted for n = 5, "
            "3 rotating combinations each")
    explanation = ("oracle: group rates from the rows in exact Fractions, then the documented aggregate (IEEE rules for x/0); for "
                   "sklearn-only base metrics the base value is sklearn's on the first-principles slice. Tolerance 1e-12 * max(1,|exact|) for all functions "
                   "(measured max deviation on the clean tree 1.7e-16; sklearn-only bases exactly 0). When one of the two equalized-odds ratios is NaN (0/0) both NaN and the other ratio are "
                   "accepted from the implementation (the statement does not say); the model follows Python's min/max exactly.")
    trusted = ("sklearn.metrics functions (confusion_matrix normalisation incl. nan_to_num, accuracy_score, zero_one_loss, MAE, MSE; "
               "the sklearn-only bases are used as their own specification on a slice)",
               "Python builtin max/min on a pandas Series are modelled by XR.pyMax2/pyMin2 left folds, Series.mean by XR.meanSkip")
    assumptions = ("labels and predictions in {0,1}", "sample weights positive", "group labels are str or small non-negative ints")

    # ---------------------------------------------------------------- generation
    def generate(self, rng, tier):
        while True:
            n = rng.choice([1, 2, 2, 3, 3, 4, 4, 5, 6, 7, 8, 10, 12, 16, 24])
            ng = rng.choice([1, 2, 2, 3, 3, 4])
            two = rng.random() < 0.2
            labels = rng.choice([["a", "b", "c", "d"], ["x", "Y", "z ", "é"], [3, 10, 2, 7]])
            g1 = [rng.choice(labels[:ng]) for _ in range(n)]
            sf = [g1]
            if two:
                sf.append([rng.choice(["p", "q"]) for _ in range(n)])
                cont = rng.choice(["df", "dict", "ndarray"])
            else:
                cont = rng.choice(["list", "ndarray", "series", "df", "series_noname"])
            py = rng.choice([0.2, 0.5, 0.5, 0.8])
            pp = rng.choice([0.2, 0.5, 0.5, 0.8])
            y = [int(rng.random() < py) for _ in range(n)]
            pred = [int(rng.random() < pp) for _ in range(n)]
            wk = rng.random()
            if wk < 0.3:
                w = None
            elif wk < 0.7:
                w = [str(rng.randint(1, 4)) for _ in range(n)]
            else:
                w = [str(F(rng.randint(1, 24), rng.choice([1, 2, 4, 8]))) for _ in range(n)]
            k = rng.sample(range(N_NAMED), 2) + rng.sample(range(N_NAMED, len(COMBOS)), 4)
            dm = dm_case(rng) if rng.random() < 0.6 else None
            yield {"y": y, "pred": pred, "w": w, "sf": sf, "sf_container": cont, "combos": [COMBOS[i] for i in k],
                   "ycontainer": rng.choice(["list", "ndarray", "series"]), "dm": dm}

    def exhaustive(self, tier):
        def rgs(n, kmax):
            def rec(prefix, mx):
                if len(prefix) == n:
                    yield list(prefix)
                    return
                for v in range(min(mx + 1, kmax - 1) + 1):
                    yield from rec(prefix + [v], max(mx, v))
            yield from rec([0], 0)
        i = 0
        for n in range(1, 6):
            wsets = list(itertools.product(["1", "2"], repeat=n)) if n <= 4 else [None]
            for y in itertools.product([0, 1], repeat=n):
                for pred in itertools.product([0, 1], repeat=n):
                    for g in rgs(n, 3):
                        for w in wsets:
                            i += 1
                            combos = [COMBOS[i % N_NAMED], COMBOS[N_NAMED + (i % (len(COMBOS) - N_NAMED))],
                                      COMBOS[N_NAMED + ((i * 7 + 3) % (len(COMBOS) - N_NAMED))]]
                            yield {"y": list(y), "pred": list(pred), "w": None if w is None or set(w) == {"1"} and i % 2 else list(w),
                                   "sf": [["g%d" % v for v in g]], "sf_container": "list", "combos": combos, "ycontainer": "list"}

    def shrink(self, case):
        n = len(case["y"])
        if case.get("dm") and case["combos"]:
            yield dict(case, combos=[])
            yield dict(case, dm=None)
        if case.get("dm"):
            d = case["dm"]
            for k2, v2 in (("extra", False), ("scale", None), ("method", None), ("sw", False)):
                if d[k2]:
                    yield dict(case, dm=dict(d, **{k2: v2}))
        if len(case["combos"]) > 1:
            for c in case["combos"]:
                yield dict(case, combos=[c])
        if n > 1:
            for i in range(n):
                c = dict(case)
                c["y"] = case["y"][:i] + case["y"][i + 1:]
                c["pred"] = case["pred"][:i] + case["pred"][i + 1:]
                c["w"] = None if case["w"] is None else case["w"][:i] + case["w"][i + 1:]
                c["sf"] = [col[:i] + col[i + 1:] for col in case["sf"]]
                yield c
        if len(case["sf"]) > 1:
            yield dict(case, sf=case["sf"][:1], sf_container="list")
        if case["w"] is not None:
            yield dict(case, w=["1"] * n)
            yield dict(case, w=None)
        if case["sf_container"] not in ("list", "dict"):
            yield dict(case, sf_container="list" if len(case["sf"]) == 1 else "dict")

    # ---------------------------------------------------------------- implementation
    def _args(self, case):
        y, pred = list(case["y"]), list(case["pred"])
        if case["ycontainer"] == "ndarray":
            y, pred = np.array(y), np.array(pred)
        elif case["ycontainer"] == "series":
            y, pred = pd.Series(y), pd.Series(pred)
        names = ["s0", "s1"][:len(case["sf"])]
        sf = mc.feature_arg(case["sf"], names, case["sf_container"])
        w = None if case["w"] is None else np.array([float(F(x)) for x in case["w"]])
        return y, pred, sf, w

    def impl(self, case):
        import fairlearn.metrics as fm
        from fairlearn.metrics import MetricFrame, make_derived_metric, selection_rate
        import functools
        y, pred, sf, w = self._args(case)
        out = []
        for fn, meth, agg in case["combos"]:
            kw = {"sensitive_features": sf}
            if w is not None or (len(fn) + len(meth or '')) % 3:
                kw["sample_weight"] = w
            if meth is not None:
                kw["method"] = meth
            if agg is not None:
                kw["agg"] = agg
            eq = None
            try:
                with warnings.catch_warnings():
                    warnings.simplefilter("ignore")
                    if fn.startswith("derived:"):
                        tr = fn.split(":")[2]
                        dm = make_derived_metric(metric=selection_rate, transform=tr)
                        r = dm(y, pred, pos_label=0, **kw)
                        # "returns what the equivalent MetricFrame call returns"
                        mf = MetricFrame(metrics=functools.partial(selection_rate, pos_label=0), y_true=y, y_pred=pred,
                                         sensitive_features=sf, sample_params={"sample_weight": kw.get("sample_weight")})
                        e = getattr(mf, tr)(**({"method": meth} if meth is not None else {}))
                        eq = bool(e == r or (e != e and r != r))
                    else:
                        r = getattr(fm, fn)(y, pred, **kw)
                res = ["val", mc.tok(r), type(r).__name__ if not isinstance(r, (float, np.floating, int, np.integer)) else "num"]
            except ValueError:
                res = ["exc", "ValueError"]
            except Exception as ex:  # noqa: BLE001
                res = ["exc", type(ex).__name__]
            if eq is not None:
                res.append(eq)
            out.append(res)
        ret = {"results": out}
        if case.get("dm"):
            ret["dm"] = self.impl_dm(case, y, pred, sf, w)
        return ret

    def impl_dm(self, case, y, pred, sf, w):
        from fairlearn.metrics import make_derived_metric
        d = case["dm"]
        metric = DM_KINDS[d["kind"]][0]()
        kw = {} if d["spn"] == "default" else {"sample_param_names": d["spn"]}
        try:
            dm = make_derived_metric(metric=metric, transform=d["transform"], **kw)
        except Exception as ex:  # noqa: BLE001
            return ["make", type(ex).__name__]
        call = {"sensitive_features": sf}
        if d["sw"]:
            call["sample_weight"] = w if w is not None else np.ones(len(case["y"]))
        if d["scale"] is not None:
            call["scale"] = float(F(d["scale"]))
        if d["method"] is not None:
            call["method"] = d["method"]
        if d["extra"]:
            call["foo"] = 0
        try:
            with warnings.catch_warnings():
                warnings.simplefilter("ignore")
                r = dm(y, pred, **call)
        except Exception as ex:  # noqa: BLE001
            return ["exc", type(ex).__name__]
        return ["val", mc.tok(r)]

    def _w(self, case):
        n = len(case["y"])
        return [F(1)] * n if case["w"] is None else [F(x) for x in case["w"]]

    @staticmethod
    def _modelled(fn):
        if fn in NAMED or fn in EODDS or fn.startswith("derived:"):
            return True
        base = fn.rsplit("_", 1)[0] if not fn.endswith(("group_min", "group_max")) else fn[:-len("_group_min")]
        return base in POOL_BASE

    def lines(self, case, impl_out):
        ys, ws = proto.lst(case["y"]), proto.lst(self._w(case))
        cols = " ".join(proto.strs([mc.enc_level(v) for v in col]) for col in case["sf"])
        ls = []
        for fn, meth, agg in case["combos"]:
            if fn.startswith("derived:"):
                # selection_rate(pos_label=0) on predictions p == selection_rate(pos_label=1) on 1-p
                ps = proto.lst([1 - p for p in case["pred"]])
                ls.append(f"fair.derived selrate {proto.s(fn.split(':')[2])} {meth or 'between_groups'} {ys} {ps} {ws} {cols}")
            else:
                ls.append(f"fair.eval {proto.s(fn)} {meth or 'between_groups'} {agg or '-'} {ys} {proto.lst(case['pred'])} {ws} {cols}")
        if case.get("dm"):
            d = case["dm"]
            _, cal, hasname, anykw, sig = DM_KINDS[d["kind"]]
            spn = "none" if d["spn"] is None else proto.strs(self._spn(d))
            sw = proto.lst(self._w(case)) if d["sw"] else "x"
            ls.append(f"derived.call {proto.b(cal)} {proto.b(hasname)} {proto.b(anykw)} {proto.strs(sig)} {proto.s(d['transform'])} "
                      f"{spn} {sw} {proto.rat(F(d['scale'])) if d['scale'] is not None else 'x'} "
                      f"{proto.s(d['method']) if d['method'] is not None else 'x'} {proto.s('foo') if d['extra'] else 'x'} "
                      f"{ys} {proto.lst(case['pred'])} {cols}")
        return ls

    @staticmethod
    def _spn(d):
        return ["sample_weight"] if d["spn"] == "default" else (d["spn"] or [])

    def oracle_dm(self, case):
        """documented behaviour of make_derived_metric(...)(...) from first principles: ('make', E) | ('exc', E) | ('val', x)"""
        d = case["dm"]
        _, cal, hasname, anykw, sig = DM_KINDS[d["kind"]]
        if not cal or "method" in sig or d["transform"] not in DM_TRANSFORMS:
            return ("make", "ValueError")
        spn = self._spn(d)
        n = len(case["y"])
        keys = [tuple(mc.enc_level(col[i]) for col in case["sf"]) for i in range(n)]
        groups = sorted(set(keys))
        # which keywords reach the metric function (sample parameters are sliced, the others are bound whole)
        passed = {k for k, on in (("sample_weight", d["sw"]), ("scale", d["scale"] is not None), ("foo", d["extra"])) if on}
        if d["method"] is not None and "method" in spn:
            passed.add("method")
        if not anykw and any(k not in sig for k in passed):
            return ("exc", "TypeError")
        w = [F(1)] * n
        if d["sw"]:
            if "sample_weight" in spn or len(groups) == 1:
                w = self._w(case)
            else:
                return ("exc", "ValueError")        # the whole weight array meets a group slice
        meth = "between_groups"
        if d["method"] is not None and "method" not in spn and d["transform"] in ("difference", "ratio"):
            if d["method"] not in ("between_groups", "to_overall"):
                return ("exc", "ValueError")
            meth = d["method"]
        scale = F(d["scale"]) if d["scale"] is not None else F(1)

        def val(idx):
            return scale * sum(F(case["pred"][i]) * w[i] for i in idx) / sum(w[i] for i in idx)
        vals = [val([i for i in range(n) if keys[i] == g]) for g in groups]
        return ("val", aggregate(d["transform"], meth, vals, val(range(n))))

    def judge_dm(self, case, o, mline):
        d = case["dm"]
        got = o.get("dm")
        want = self.oracle_dm(case)
        label = (f"make_derived_metric(metric=<{d['kind']}>, transform={d['transform']!r}, sample_param_names={d['spn']!r})"
                 f"(sample_weight={'w' if d['sw'] else '-'}, scale={d['scale']}, method={d['method']!r}{', foo=0' if d['extra'] else ''})")
        probs = []
        nameless = not DM_KINDS[d["kind"]][2] and DM_KINDS[d["kind"]][1]
        ok = True
        if want[0] in ("make", "exc"):
            if not (got[0] == want[0] and got[1] == want[1]):
                ok = False
                p = Problem("property", f"{label}: expected {want[1]} ({'constructor' if want[0] == 'make' else 'call'}), got {got}",
                            "C03.derived_errors")
                p.info = {"nameless": nameless, "got": got}
                probs.append(p)
        elif got[0] != "val" or not mc.same(got[1], want[1], TOL):
            ok = False
            p = Problem("property", f"{label} = {got}, the equivalent MetricFrame call gives {x_tok(want[1])}", "C03.derived_eq_metricframe")
            p.info = {"nameless": nameless, "got": got}
            probs.append(p)
        if mline is not None:
            if mline == "bad-op":
                return probs + [Problem("harness", f"{label}: driver bad-op")]
            # the model follows the lifted name rule: with a plain `.__name__` read a callable without __name__ raises
            # AttributeError at call time (finding F17, repaired by be74ce5); with the getattr fallback it answers
            if mline.startswith("make:"):
                mtok = ("make", mline[5:])
            elif mline.startswith("value:"):
                mtok = ("val", mc.model_tok(mline[6:]))
            else:
                mtok = ("exc", mline)
            m_ok = (mtok == want) or (mtok[0] == "val" and want[0] == "val" and mtok[1] == want[1])
            if not m_ok and ok:
                probs.append(Problem("harness", f"{label}: model {mline} vs oracle {want}"))
            same = (got[0] == mtok[0]) and (mc.same(got[1], mtok[1], TOL) if got[0] == "val" else got[1] == mtok[1])
            if not same and (ok or nameless):
                probs.append(Problem("correspondence", f"{label}: impl {got} vs model {mline}", "C03.derived_model"))
        return probs

    # ---------------------------------------------------------------- oracle
    def oracle(self, case, fn, meth, agg):
        """exact expected result: Fraction | 'nan'/'inf'/'-inf' | ('either', a, b) | 'raises' | ('float', x)"""
        n = len(case["y"])
        w = self._w(case)
        rows = [(F(case["y"][i]), F(case["pred"][i]), w[i]) for i in range(n)]
        keys = [tuple(mc.enc_level(col[i]) for col in case["sf"]) for i in range(n)]
        groups = sorted(set(keys))
        slices = {g: [rows[i] for i in range(n) if keys[i] == g] for g in groups}

        def disparity(tag, transform, method):
            vals = [oracle_rate(tag, slices[g]) for g in groups]
            return aggregate(transform, method, vals, oracle_rate(tag, rows))
        if fn in NAMED:
            tag = "selrate" if fn.startswith("demographic") else "tpr"
            return disparity(tag, fn.rsplit("_", 1)[1], meth)
        if fn in EODDS:
            tr = fn.rsplit("_", 1)[1]
            a, b = disparity("tpr", tr, meth), disparity("fpr", tr, meth)
            if isnan(a) or isnan(b):
                if agg == "mean":
                    other = b if isnan(a) else a
                    return ("either", "nan", other)
                return ("either", "nan", b if isnan(a) else a)
            if agg == "mean":
                return (a + b) / 2
            return x_max([a, b]) if tr == "difference" else x_min([a, b])
        if fn.startswith("derived:"):
            return disparity("selrate0", fn.split(":")[2], meth or "between_groups")
        # generated
        for tr in ("difference", "ratio", "group_min", "group_max"):
            if fn.endswith("_" + tr):
                base = fn[:-len(tr) - 1]
                break
        if base in POOL_BASE:
            return disparity(POOL_BASE[base], tr, meth or "between_groups")
        # sklearn-only base metric: sklearn on the first-principles slices
        import sklearn.metrics as skm
        f = getattr(skm, base)

        def sk(rs):
            yt = np.array([int(r[0]) for r in rs])
            yp = np.array([int(r[1]) for r in rs])
            ww = None if case["w"] is None else np.array([float(r[2]) for r in rs])
            with warnings.catch_warnings():
                warnings.simplefilter("ignore")
                return float(f(yt, yp, sample_weight=ww))
        try:
            sk(rows)
            vals = [sk(slices[g]) for g in groups]
        except ValueError:
            return "raises"
        live = [v for v in vals if not math.isnan(v)]
        if not live:
            return "nan"
        return ("float", min(live) if tr == "group_min" else max(live))

    def judge(self, case, o, mo):
        if "crash" in o:
            return [Problem("harness", f"impl adapter crashed: {o}")]
        probs = []
        tie = gen_spec_tie()
        if tie is not None:
            probs.append(tie)
        if case.get("dm"):
            probs += self.judge_dm(case, o, None if mo is None else mo[len(case["combos"])])
        for j, ((fn, meth, agg), got) in enumerate(zip(case["combos"], o["results"])):
            label = f"{fn}({meth or ''}{',' + agg if agg else ''})"
            want = self.oracle(case, fn, meth, agg)
            ok = True
            if want == "raises":
                if got[0] != "exc":
                    ok = False
                    probs.append(Problem("property", f"{label}: base metric raises on a slice but the function returned {got}", "C03.raises"))
                elif got[1] != "ValueError":
                    probs.append(Problem("correspondence", f"{label}: expected ValueError, got {got[1]}", "C03.error_kind"))
            elif got[0] == "exc":
                ok = False
                probs.append(Problem("property", f"{label} raised {got[1]} on a valid input (first-principles value {want})", "C03.accepts"))
            else:
                v = got[1]
                if got[2] != "num":
                    probs.append(Problem("property", f"{label} returned a {got[2]}, not a scalar", "C03.scalar_result"))
                if isinstance(want, tuple) and want[0] == "either":
                    if not (mc.same(v, want[1], TOL) or mc.same(v, want[2], TOL)):
                        ok = False
                        probs.append(Problem("property", f"{label} = {v}, first-principles value {x_tok(want[2])} (or NaN)", "C03.eodds_eq_spec"))
                elif isinstance(want, tuple) and want[0] == "float":
                    if isinstance(v, str) or abs(v - want[1]) > SK_TOL * max(1.0, abs(want[1])):
                        ok = False
                        probs.append(Problem("property", f"{label} = {v}, sklearn on the group slices gives {want[1]}", "C03.generated_eq_spec"))
                elif not mc.same(v, want, TOL):
                    ok = False
                    rel = ("C03.eodds_eq_spec" if fn in EODDS else "C03.derived_eq_metricframe" if fn.startswith("derived:")
                           else "C03.dp_eq_spec" if fn.startswith("demographic") else "C03.eopp_eq_spec" if fn in NAMED
                           else "C03.generated_eq_spec")
                    probs.append(Problem("property", f"{label} = {v}, first-principles value {x_tok(want)}", rel))
                if len(got) > 3 and got[3] is False:
                    probs.append(Problem("property", f"{label}: make_derived_metric result differs from the equivalent MetricFrame call", "C03.derived_eq_metricframe"))
            if mo is not None:
                m = mo[j]
                if m == "unmodelled":
                    if self._modelled(fn):
                        probs.append(Problem("harness", f"{label}: driver says unmodelled"))
                    continue
                if m == "bad-op":
                    probs.append(Problem("harness", f"{label}: driver bad-op"))
                    continue
                mv = mc.model_tok(m)
                # model vs oracle
                if want == "raises" or (isinstance(want, tuple) and want[0] == "float"):
                    probs.append(Problem("harness", f"{label}: model answered {m} for an sklearn-only base"))
                    continue
                if isinstance(want, tuple) and want[0] == "either":
                    m_ok = mv in (want[1], want[2])
                else:
                    m_ok = (mv == want)
                if not m_ok and ok:
                    if lifted_changed():
                        probs.append(Problem("correspondence", f"{label}: model over the EDITED lifted text {m} vs oracle {want}", "C03.lifted_model"))
                    else:
                        probs.append(Problem("harness", f"{label}: model {m} vs oracle {want}"))
                # impl vs model
                if ok and got[0] == "val" and mv != "raised" and not mc.same(got[1], mv, TOL):
                    probs.append(Problem("correspondence", f"{label}: impl {got[1]} vs model {m}", "C03.model"))
                if ok and ((got[0] == "exc") != (mv == "raised")):
                    probs.append(Problem("correspondence", f"{label}: impl {got} vs model {m}", "C03.model"))
        return probs

    def signature(self, case, o):
        n = len(case["y"])
        keys = [tuple(str(col[i]) for col in case["sf"]) for i in range(n)]
        sizes = {}
        for k in keys:
            sizes[k] = sizes.get(k, 0) + 1
        tags = [f"n={'1' if n == 1 else '2-4' if n <= 4 else '5-8' if n <= 8 else '9+'}", f"groups={len(sizes)}",
                "weighted" if case["w"] else "unweighted", f"sf={case['sf_container']}", f"nsf={len(case['sf'])}"]
        if 1 in sizes.values():
            tags.append("single_member_group")
            if case["w"]:
                tags.append("weighted_single_row_group")
        # empty denominators
        for g in sizes:
            ys = [case["y"][i] for i in range(n) if keys[i] == g]
            if 1 not in ys:
                tags.append("group_without_positives")
            if 0 not in ys:
                tags.append("group_without_negatives")
        for (fn, meth, agg), r in zip(case["combos"], o.get("results", [])):
            kind = "named" if fn in NAMED else "eodds" if fn in EODDS else "derived" if fn.startswith("derived") else \
                ("generated_pool" if self._modelled(fn) else "generated_sklearn")
            tags.append("fn=" + kind)
            if meth:
                tags.append("method=" + meth)
            if agg:
                tags.append("agg=" + agg)
            if r[0] == "exc":
                tags.append("raises")
            elif r[1] == "nan":
                tags.append("nan_result")
        if case.get("dm"):
            d = case["dm"]
            tags += ["dm:kind=" + d["kind"], "dm:transform=" + (d["transform"] if d["transform"] in DM_TRANSFORMS else "invalid"),
                     "dm:spn=" + ("None" if d["spn"] is None else "default" if d["spn"] == "default" else ",".join(d["spn"]) or "[]")]
            if o.get("dm"):
                tags.append("dm:outcome=" + (o["dm"][0] if o["dm"][0] == "val" else o["dm"][0] + ":" + str(o["dm"][1])))
            if d["method"] is not None:
                tags.append("dm:method=" + d["method"])
        key = (tuple(case["y"]), tuple(case["pred"]), tuple(case["w"] or ()), tuple(keys))
        return key, n >= 2, sorted(set(tags))
