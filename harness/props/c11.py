"""C11 — sample weights mean multiplicity: weight k is k copies of the row.

Every case is one small dataset D (labels, a dyadic score vector, sensitive feature, optional control
feature) with positive integer weights k.  The real fairlearn functions are called on several *variants* of
the same data:

    W   rows of D, sample_weight = k
    R   every row of D physically repeated k times, sample_weight omitted
    S3  rows of D, sample_weight = 3*k          S4  rows of D, sample_weight = k/4
    N   rows of D, sample_weight omitted        Nn  rows of D, sample_weight=None passed explicitly
    O   rows of D, sample_weight = all ones

and the property is  W == R,  S3 == W,  S4 == W,  N == O == Nn  for the six base metrics, for
MetricFrame(sample_params=...) (by_group / overall / group_min / group_max / difference / ratio, both methods,
dict and callable form, with and without control features) and for the named fairness metrics.
Oracle: exact Fractions obtained by *physically replicating* the rows and counting.
Model: lean/FairModel/Model/Weights.lean through the compiled driver (`w.*` ops), mode `rep` replicates inside Lean.
"""
from fractions import Fraction as F
import math

import numpy as np
import pandas as pd

from .. import proto
from ..core import Check, Problem, register

# Measured on the clean tree (300 generated cases, seeds 0..1, every comparison of `judge`): max |fairlearn - exact
# replicate-and-count Fraction| = 4.5e-16; every metamorphic relation (W vs R, S3/S4 vs W, N vs O vs Nn, frames, named
# metrics, the two-parameter frame) was BIT-EQUAL (max deviation 0: all sums are exact in binary64 on the generated dyadic
# inputs and equal rationals round to the same double).  Value tolerance = 90 x the measured maximum; relations get one ulp.
TOL = 4e-14
REL_ULP = 2.220446049250313e-16
BASE = ("tpr", "fnr", "fpr", "tnr", "sel", "mp")
NAMED = ("dpd", "dpr", "eoppd", "eoppr", "eod", "eor")
VARIANTS = ("W", "R", "S3", "S4", "N", "Nn", "O")
GLAB = {"str": ["a", "b", "c", "d"], "int": [3, 10, 20, 35]}
CLAB = ["p", "q"]
AGG_KEYS = ("gmin", "gmax", "db", "do", "rb", "ro")
# named metric -> (base metric, transform) of the equivalent make_derived_metric(...) function
DERIVED = {"dpd": ("selection_rate", "difference"), "dpr": ("selection_rate", "ratio"),
           "eoppd": ("true_positive_rate", "difference"), "eoppr": ("true_positive_rate", "ratio")}


# ------------------------------------------------------------------------------------------- helpers
def canon(v):
    """canonical, JSON-able form of one cell / return value"""
    if isinstance(v, (bool, int, float, np.generic)) or (not isinstance(v, (list, tuple, str)) and np.ndim(v) == 0):
        try:
            f = float(v)
        except (TypeError, ValueError):
            return ["obj", type(v).__name__]
        if math.isnan(f):
            return ["nan"]
        if math.isinf(f):
            return ["inf" if f > 0 else "-inf"]
        return ["s", f]
    return ["array" + str(tuple(np.shape(v))), [float(t) for t in np.ravel(v)][:4]]


def same(a, b):
    if a is None or b is None:
        return a is b
    if a[0] != b[0]:
        return False
    if a[0] == "s":
        return abs(a[1] - b[1]) <= REL_ULP * max(1.0, abs(a[1]))
    return a[1:] == b[1:]


SERIES_KINDS = ("series", "series_perm", "series_off", "series_str")
CONTAINERS = ("list", "array") + SERIES_KINDS


def index_of(kind, n):
    """pandas index labels of a Series container: default RangeIndex, a fixed permutation of 0..n-1, labels shifted by 2
    (partly overlapping 0..n-1), or shuffled strings.  Rows are always meant POSITIONALLY; the labels must not matter."""
    perm = sorted(range(n), key=lambda i: ((i + 1) * 2654435761) % 1000003)
    if kind == "series_perm":
        return perm
    if kind == "series_off":
        return [i + 2 for i in range(n)]
    if kind == "series_str":
        return ["r%d" % i for i in perm]
    return None


def box(values, kind, name=None):
    if kind == "list":
        return list(values)
    if kind == "array":
        return np.array(values)
    if kind in SERIES_KINDS:
        vals = list(values)
        return pd.Series(vals, name=name, index=index_of(kind, len(vals)))
    if kind == "frame":
        return pd.DataFrame({name or "c0": list(values)})
    if kind == "dict":
        return {name or "c0": list(values)}
    raise ValueError(kind)


def weights_of(case, variant, which="k"):
    """(row multiplier for physical replication, sample_weight vector or the marker 'omit'/'none')"""
    k = case[which]
    n = len(k)
    if variant == "W":
        return None, [float(x) for x in k]
    if variant == "R":
        return k, "omit"
    if variant == "S3":
        return None, [3.0 * x for x in k]
    if variant == "S4":
        return None, [x / 4.0 for x in k]
    if variant == "N":
        return None, "omit"
    if variant == "Nn":
        return None, "none"
    if variant == "O":
        return None, [1.0] * n
    raise ValueError(variant)


def mult_of(case, variant, which="k"):
    """the multiplicities the variant must be equivalent to"""
    return list(case[which]) if variant in ("W", "R", "S3", "S4") else [1] * len(case["yt"])


def model_w(case, variant, which="k"):
    """(mode, weight token) for the Lean driver"""
    k = case[which]
    if variant == "W":
        return "w", proto.lst(k)
    if variant == "R":
        return "rep", proto.lst(k)
    if variant == "S3":
        return "w", proto.lst([3 * x for x in k])
    if variant == "S4":
        return "w", proto.lst([F(x, 4) for x in k])
    if variant in ("N", "Nn"):
        return "w", "none"
    return "w", proto.lst([1] * len(k))


def rep(values, mult):
    if mult is None:
        return list(values)
    return [v for v, m in zip(values, mult) for _ in range(m)]


# ---------------------------------------------------------------------------------- first-principles oracle
def o_metric(m, rows, pos):
    """rows: (yt, yp, score, multiplicity); physically replicate, then count.  pos: positive label."""
    data = [(t, p, s) for (t, p, s, k) in rows for _ in range(k)]
    if m == "sel":
        return F(sum(1 for t, p, s in data if p == pos), len(data))
    if m == "mp":
        return sum((F(s) for t, p, s in data), F(0)) / len(data)
    cls = [r for r in data if (r[0] == pos) == (m in ("tpr", "fnr"))]
    if not cls:
        return F(0)
    want_pos_pred = m in ("tpr", "fpr")
    return F(sum(1 for t, p, s in cls if (p == pos) == want_pos_pred), len(cls))


def o_div(a, b):
    if b == 0:
        return None if a == 0 else (math.inf if a > 0 else -math.inf)
    return a / b


def o_sub_one(r):
    if r is None:
        return None
    if r == math.inf:
        return F(0)
    if r == -math.inf:
        return r
    return 1 / r if r > 1 else r


def o_frame(m, rows, gs, pos):
    """per-group values and the aggregates MetricFrame documents, from replicated data"""
    keys = sorted(set(gs))
    vals = [o_metric(m, [r for r, g in zip(rows, gs) if g == key], pos) for key in keys]
    ov = o_metric(m, rows, pos)
    lo, hi = min(vals), max(vals)
    ros = [x for x in (o_sub_one(o_div(v, ov)) for v in vals) if x is not None]
    return {"keys": keys, "vals": vals, "overall": ov, "gmin": lo, "gmax": hi, "db": hi - lo,
            "do": max(abs(v - ov) for v in vals), "rb": o_div(lo, hi), "ro": min(ros) if ros else None}


def o_named(name, method, agg, rows, gs):
    dk, rk = ("db", "rb") if method == "between" else ("do", "ro")
    if name in ("dpd", "dpr"):
        f = o_frame("sel", rows, gs, 1)
        return f[dk] if name == "dpd" else f[rk]
    if name in ("eoppd", "eoppr"):
        f = o_frame("tpr", rows, gs, 1)
        return f[dk] if name == "eoppd" else f[rk]
    a, b = o_frame("tpr", rows, gs, 1), o_frame("fpr", rows, gs, 1)
    if name == "eod":
        return max(a[dk], b[dk]) if agg == "worst" else (a[dk] + b[dk]) / 2
    if a[rk] is None or b[rk] is None:
        return None  # undefined (0/0): only the relations and the model are checked there
    return min(a[rk], b[rk]) if agg == "worst" else (a[rk] + b[rk]) / 2


def close(c, want):
    """impl canonical cell vs oracle value (None = undefined -> not judged)"""
    if want is None:
        return True
    if isinstance(want, float):  # +-inf
        return c == ["inf" if want > 0 else "-inf"]
    return c[0] == "s" and abs(c[1] - float(want)) <= TOL


def model_tok_ok(tok, want):
    if want is None:
        return tok == "nan"
    if isinstance(want, float):
        return tok == ("inf" if want > 0 else "-inf")
    try:
        return proto.p_rat(tok) == want
    except Exception:  # noqa: BLE001
        return False


def cell_vs_tok(c, tok):
    if tok in ("nan", "inf", "-inf"):
        return c == [tok]
    try:
        q = proto.p_rat(tok)
    except Exception:  # noqa: BLE001
        return False
    return c[0] == "s" and abs(c[1] - float(q)) <= TOL


# --------------------------------------------------------------------------------------------- the check
@register
class CHECK(Check):
    pid = "C11"
    technique = ("Lean 4 theorems over the Weights/BaseMetrics models (weighted = replicated, scale invariance, lift through "
                 "grouping, aggregates and named metrics), over the TRANSLATED base metrics (Generated/BaseMetricsSrc.lean) and "
                 "over the full MetricFrame model with arbitrary payload (several sample parameters) + metamorphic "
                 "correspondence on the real functions")
    level_text = ("Theorems (all row lists, all group structures, all multiplicities k>=1, all c>0): rate/selection_rate/"
                  "mean_prediction of integer-weighted rows = of physically replicated rows; invariance under scaling; "
                  "None = ones; replication commutes with group selection, hence by_group, overall, group_min/max, "
                  "difference, ratio and demographic_parity/equal_opportunity/equalized_odds difference/ratio agree, incl. a "
                  "group that is one weighted row. Tie: the real functions are called on weighted / replicated / scaled / "
                  "omitted / ones variants of generated data and compared to each other, to an exact replicate-and-count "
                  "oracle and to the compiled Lean model. Source tie: the same relations for the translated functions exactly as "
                  "fairlearn is called (sample_weight=k vs replicated rows with sample_weight=None; scaling; None = ones) via "
                  "C14.src_*_eq_model. Full frame model: any metric that is weight-multiplicative on slices gives the same "
                  "by_group (index incl. re-indexed empty combinations, cells) and overall on weighted and replicated rows, any "
                  "number of features and per-sample parameters (metricframe_weight_is_multiplicity); instances for the pool's "
                  "weighted means, the two-parameter metric sum(a*ids) and (review) the four confusion-matrix rates "
                  "(metricframe_rates_weight_is_multiplicity); scale invariance in the full frame model with the IEEE quotient "
                  "(metricframe_pool_scale_invariant); the named-metric bases, worst-case builtins and ratio_sub_one of the "
                  "hand-written model are proved equal to the lifted text (named_bases_are_lifted, eodds_worst_is_lifted, "
                  "subOne_is_lifted); the dict-frame metrics are also evaluated by the full frame model (frame.eval) on weighted "
                  "and replicated rows against the oracle.")
    design_ref = "DESIGN.md section 4, C11"
    quick_cases = 200
    thorough_cases = 6000
    quick_budget_s = 100
    thorough_budget_s = 900
    workers_thorough = 6
    rule = ("datasets of 1..8 rows over label encodings {0,1} / {-1,1}, dyadic scores, 1..4 sensitive groups (str or int "
            "labels, optional 2-level control feature), positive integer weights 1..5 (a second independent weight vector for "
            "the mixed dict frame), containers drawn independently for y_true/y_pred, the weights and the sensitive feature from list / ndarray / pandas Series with default, permuted, shifted (i+2) or string index labels (+ DataFrame for y and sf, dict for sf) - rows are paired positionally, the oracle ignores the labels; the named metrics dpd/dpr/eoppd/eoppr are called through make_derived_metric(...) in 40% of the cases; variants W,R,S3,S4,N,Nn,O as in the module "
            "docstring; six base metrics on every variant, a dict MetricFrame (3 of 6 metrics) on W/R, a callable MetricFrame on "
            "W/S3/S4/N/O, a dict MetricFrame whose metrics get different weight vectors, 2 named fairness metrics on W/R and 1 "
            "on S3/S4/N/O, and a callable MetricFrame with TWO sample parameters (a = k, ids = 8*score+1; metric sum(a*ids)) on "
            "W/R; distinct = distinct (data, weights, layout, plan); non-trivial = at least one weight > 1. Not generated (stated "
            "restrictions): scalings other than x3 and /4 (exact in binary64, so the relations are bit-comparable), label "
            "encodings other than {0,1}/{-1,1}, more than one sensitive column for the named metrics, zero weights")
    explanation = ("theorems over the Lean models Weights+BaseMetrics (all inputs); correspondence: real functions on the weight "
                   "variants vs each other (property relations), vs an exact replicate-and-count Fraction oracle and vs the "
                   "compiled driver (values within 4e-14 — measured max 4.5e-16 —, relations between variants within one ulp — measured 0 —, "
                   "scalar-ness, result types, group index)")
    trusted = ("sklearn.metrics.confusion_matrix(normalize='true', sample_weight=...) incl. nan_to_num of empty rows",
               "pandas groupby(...).apply slicing the weight column together with the rows (checked by correspondence)",
               "sensitive/control feature values are mapped order-preservingly to integers before entering the model")
    assumptions = ("weights are positive (integers 1..5, scaled by 3 and 1/4)", "labels are {0,1} or {-1,1}",
                   "at least one row")

    # ---------------------------------------------------------------- generation
    def generate(self, rng, tier):
        while True:
            n = rng.choice([1, 2, 2, 3, 3, 4, 4, 5, 6, 7, 8])
            enc = rng.choice(["01", "01", "pm1"])
            labs = [0, 1] if enc == "01" else [-1, 1]
            r = rng.random()
            use = labs if r < 0.8 else [rng.choice(labs)]
            yt = [rng.choice(use) for _ in range(n)]
            yp = [rng.choice(labs if rng.random() < 0.9 else use) for _ in range(n)]
            score = [str(F(rng.randint(0, 8), 8)) for _ in range(n)]
            ng = rng.choice([1, 2, 2, 3, 3, 4])
            g = [rng.randrange(ng) for _ in range(n)]
            if rng.random() < 0.5 and n >= 2 and max(g) < 3:
                # force a group that consists of one (weighted) row
                g[rng.randrange(n)] = max(g) + 1
            cf = [rng.randrange(2) for _ in range(n)] if rng.random() < 0.25 else None
            hi = rng.choice([2, 3, 5])
            k = [rng.randint(1, hi) for _ in range(n)]
            if rng.random() < 0.1:
                k = [1] * n
            k2 = [rng.randint(1, 4) for _ in range(n)]
            pos = rng.choice([None, None, labs[0], labs[1]])
            # every argument gets its own container and its own pandas index labels (pairs are covered within a few
            # dozen cases); the weight vector is a labelled Series in half of the cases
            cont = {"y": rng.choice(list(CONTAINERS) + ["frame"]),
                    "w": rng.choice(list(CONTAINERS) + ["series_perm", "series_off", "series_str"]),
                    "sf": rng.choice(list(CONTAINERS) + ["frame", "dict"])}
            dm = rng.sample(BASE, 3)
            cm = rng.choice(BASE)
            named = rng.sample(NAMED, 2)
            yield {"enc": enc, "yt": yt, "yp": yp, "score": score, "g": g, "gtype": rng.choice(["str", "int"]), "cf": cf,
                   "k": k, "k2": k2, "pos": pos, "cont": cont, "dict_metrics": dm, "call_metric": cm,
                   "call_score": cm == "mp" and rng.random() < 0.7, "named": named, "named1": rng.choice(NAMED),
                   "method": rng.choice(["between", "overall"]), "agg": rng.choice(["worst", "mean"]),
                   "derived": rng.random() < 0.4}

    def exhaustive(self, tier):
        # every dataset of 1..3 rows over {0,1}, two groups, weights in {1,2,3} for the first row (single weighted rows)
        import itertools
        for n in (1, 2, 3):
            for yt in itertools.product([0, 1], repeat=n):
                for yp in itertools.product([0, 1], repeat=n):
                    for g in itertools.product([0, 1], repeat=n):
                        if g[0] != 0:
                            continue
                        for k0 in (2, 3):
                            yield {"enc": "01", "yt": list(yt), "yp": list(yp), "score": ["1/2"] * n, "g": list(g),
                                   "gtype": "str", "cf": None, "k": [k0] + [1] * (n - 1), "k2": [1] * n, "pos": None,
                                   "cont": {"y": "list", "w": "list", "sf": "list"}, "dict_metrics": ["sel", "tpr", "fpr"],
                                   "call_metric": "sel", "call_score": False, "named": ["dpd", "eor"], "named1": "dpr",
                                   "method": "between", "agg": "worst"}

    def shrink(self, case):
        n = len(case["yt"])
        per_row = ("yt", "yp", "score", "g", "k", "k2")
        if n > 1:
            for i in range(n):
                c = dict(case)
                for f in per_row:
                    c[f] = case[f][:i] + case[f][i + 1:]
                if case["cf"] is not None:
                    c["cf"] = case["cf"][:i] + case["cf"][i + 1:]
                yield c
        if case["cf"] is not None:
            yield dict(case, cf=None)
        if any(v != "list" for v in case["cont"].values()):
            yield dict(case, cont={"y": "list", "w": "list", "sf": "list"})
            for key, v in case["cont"].items():
                if v != "list":
                    yield dict(case, cont=dict(case["cont"], **{key: "list"}))
        if case.get("derived"):
            yield dict(case, derived=False)
        for i in range(n):
            if case["k"][i] > 1:
                yield dict(case, k=case["k"][:i] + [case["k"][i] - 1] + case["k"][i + 1:])
        if len(set(case["g"])) > 1:
            top = max(case["g"])
            yield dict(case, g=[min(x, top - 1) for x in case["g"]])
        if case["gtype"] != "str":
            yield dict(case, gtype="str")

    # ---------------------------------------------------------------- implementation
    @staticmethod
    def _fns():
        import fairlearn.metrics as fm
        return {"tpr": fm.true_positive_rate, "fnr": fm.false_negative_rate, "fpr": fm.false_positive_rate,
                "tnr": fm.true_negative_rate, "sel": fm.selection_rate, "mp": fm.mean_prediction}

    @staticmethod
    def _named_fns():
        import fairlearn.metrics as fm
        return {"dpd": fm.demographic_parity_difference, "dpr": fm.demographic_parity_ratio,
                "eoppd": fm.equal_opportunity_difference, "eoppr": fm.equal_opportunity_ratio,
                "eod": fm.equalized_odds_difference, "eor": fm.equalized_odds_ratio}

    def _sf(self, case, mult):
        labs = GLAB[case["gtype"]]
        return box(rep([labs[x] for x in case["g"]], mult), case["cont"]["sf"], "sf")

    def _cf(self, case, mult):
        if case["cf"] is None:
            return None
        return box(rep([CLAB[x] for x in case["cf"]], mult), ("series_str" if case["cont"]["sf"] in SERIES_KINDS else "series") if case["cont"]["sf"] != "list" else "list", "cfeat")

    def _frame(self, case, metrics, weights, mult, y_pred_vals):
        """metrics: ordered dict name -> function (or a single (name, function) tuple for the callable form);
        weights: name -> weight vector | 'omit' | 'none'.  Returns the canonical frame."""
        import fairlearn.metrics as fm
        yt = box(rep(case["yt"], mult), case["cont"]["y"], "yt")
        yp = box(rep(y_pred_vals, mult), case["cont"]["y"], "yp")
        callable_form = isinstance(metrics, tuple)
        names = [metrics[0]] if callable_form else list(metrics)

        def sp_of(w):
            if isinstance(w, str):
                return None if w == "omit" else {"sample_weight": None}
            if (sum(case["g"]) + len(case["yt"])) % 2 == 0:
                # an unused (None-valued) sample parameter listed BEFORE the weights must not affect them
                return {"unused": None, "sample_weight": box(w, case["cont"]["w"], "w")}
            return {"sample_weight": box(w, case["cont"]["w"], "w")}
        if callable_form:
            sp = sp_of(weights[names[0]])
            mf = fm.MetricFrame(metrics=metrics[1], y_true=yt, y_pred=yp, sensitive_features=self._sf(case, mult),
                                control_features=self._cf(case, mult), sample_params=sp)
        else:
            sp = {nm: sp_of(weights[nm]) for nm in names if sp_of(weights[nm]) is not None}
            mf = fm.MetricFrame(metrics=dict(metrics), y_true=yt, y_pred=yp, sensitive_features=self._sf(case, mult),
                                control_features=self._cf(case, mult), sample_params=sp or None)
        return self._canon_frame(case, mf, names, callable_form)

    def _canon_frame(self, case, mf, names, callable_form):
        has_cf = case["cf"] is not None
        bg = mf.by_group
        types = {"by_group": type(bg).__name__}
        if isinstance(bg, pd.Series):
            bg = bg.to_frame(name=names[0])
        glabs = GLAB[case["gtype"]]
        slices = {}
        cf_levels = sorted(set(case["cf"])) if has_cf else [None]

        def table(x, what):
            """-> cf level -> metric -> canonical cell"""
            types[what] = type(x).__name__ if isinstance(x, (pd.Series, pd.DataFrame)) else "scalar"
            out = {}
            for c in cf_levels:
                out[c] = {}
                for nm in names:
                    if isinstance(x, pd.DataFrame):
                        v = x.loc[CLAB[c], nm]
                    elif isinstance(x, pd.Series):
                        v = x[nm] if not (callable_form and has_cf) else x[CLAB[c]]
                    else:
                        v = x
                    out[c][nm] = canon(v)
            return out
        tabs = {"overall": table(mf.overall, "overall"), "gmin": table(mf.group_min(), "gmin"),
                "gmax": table(mf.group_max(), "gmax"),
                "db": table(mf.difference(method="between_groups"), "db"),
                "do": table(mf.difference(method="to_overall"), "do"),
                "rb": table(mf.ratio(method="between_groups"), "rb"),
                "ro": table(mf.ratio(method="to_overall"), "ro")}
        for c in cf_levels:
            sub = bg.xs(CLAB[c], level=0) if has_cf else bg
            keys, vals, missing = [], {nm: [] for nm in names}, 0
            for lab in sorted(sub.index.tolist(), key=lambda z: glabs.index(z)):
                row = sub.loc[lab]
                cells = [canon(row[nm]) for nm in names]
                if all(cc == ["nan"] for cc in cells) and has_cf:
                    missing += 1  # combination absent from the data (MultiIndex.from_product fill)
                    continue
                keys.append(glabs.index(lab))
                for nm, cc in zip(names, cells):
                    vals[nm].append(cc)
            slices["-" if c is None else str(c)] = dict(keys=keys, vals=vals, missing=missing,
                                                        **{kk: tabs[kk][c] for kk in tabs})
        return {"types": types, "slices": slices}

    @staticmethod
    def _q(case):
        """the second per-sample parameter: 8*score + 1 (integers 1..9)"""
        return [8 * F(x) + 1 for x in case["score"]]

    def _two_frame(self, case, v):
        import fairlearn.metrics as fm
        from . import mfcommon as mc
        mult = case["k"] if v == "R" else None
        a = [float(x) for x in case["k"]] if v == "W" else [1.0] * sum(case["k"])
        ids = rep([float(x) for x in self._q(case)], mult)
        yt = box(rep(case["yt"], mult), case["cont"]["y"], "yt")
        yp = box(rep(case["yp"], mult), case["cont"]["y"], "yp")
        mf = fm.MetricFrame(metrics=mc.fp_par, y_true=yt, y_pred=yp, sensitive_features=self._sf(case, mult),
                            control_features=self._cf(case, mult),
                            sample_params={"a": box(a, case["cont"]["w"], "a"), "ids": np.array(ids)})
        has_cf = case["cf"] is not None
        ov = mf.overall
        return {"by_group": mc.series_table(mf.by_group, 2 if has_cf else 1),
                "overall": mc.series_table(ov, 1) if has_cf else [[[], mc.tok(ov)]]}

    def _two_oracle(self, case):
        """first principles: sum over the k physical copies of a*ids = sum k_i q_i per (control, group) combination"""
        from . import mfcommon as mc
        q = self._q(case)
        n = len(case["yt"])
        has_cf = case["cf"] is not None
        gl = [mc.enc_level(GLAB[case["gtype"]][x]) for x in case["g"]]
        cl = [CLAB[x] for x in case["cf"]] if has_cf else None
        by, ov = {}, {}
        for c in (sorted(set(cl)) if has_cf else [None]):
            rows = [i for i in range(n) if not has_cf or cl[i] == c]
            ov[(c,) if has_cf else ()] = sum((case["k"][i] * q[i] for i in rows), F(0))
            for g in sorted(set(gl)):
                sel = [i for i in rows if gl[i] == g]
                by[(c, g) if has_cf else (g,)] = sum((case["k"][i] * q[i] for i in sel), F(0)) if sel else "nan"
        return by, ov

    def _two_lines(self, case):
        from . import mfcommon as mc
        out = []
        q = self._q(case)
        has_cf = case["cf"] is not None
        for v in ("W", "R"):
            mult = case["k"] if v == "R" else None
            ys, ps = rep(case["yt"], mult), rep(case["yp"], mult)
            p0 = list(case["k"]) if v == "W" else [1] * sum(case["k"])
            cols = []
            if has_cf:
                cols.append(rep([CLAB[x] for x in case["cf"]], mult))
            cols.append(rep([mc.enc_level(GLAB[case["gtype"]][x]) for x in case["g"]], mult))
            out.append((("two", v), f"frame.eval fppar {1 if has_cf else 0} {proto.lst(ys)} {proto.lst(ps)} {proto.lst(p0)} "
                        f"{proto.lst(rep(q, mult))} " + " ".join(proto.strs(c) for c in cols)))
        return out

    def impl(self, case):
        fns, nfn = self._fns(), self._named_fns()
        out = {"base": {}, "dict": {}, "call": {}, "mix": None, "named": {}}
        score = [float(F(s)) for s in case["score"]]

        def guarded(f):
            try:
                return f()
            except (ValueError, ZeroDivisionError, TypeError, IndexError, KeyError) as e:
                return {"exc": type(e).__name__}

        def cg(f):
            r = guarded(f)
            return r if isinstance(r, dict) else canon(r)
        # -- base metrics ------------------------------------------------------------------
        for v in VARIANTS:
            mult, w = weights_of(case, v)
            yt = box(rep(case["yt"], mult), "series" if case["cont"]["y"] == "frame" else case["cont"]["y"], "yt")
            yp = box(rep(case["yp"], mult), "series" if case["cont"]["y"] == "frame" else case["cont"]["y"], "yp")
            sc = box(rep(score, mult), case["cont"]["y"] if case["cont"]["y"] != "frame" else "array", "sc")
            kw = {} if w == "omit" else {"sample_weight": None if w == "none" else box(w, case["cont"]["w"], "w")}
            o = {}
            for m in BASE:
                if m == "mp":
                    o[m] = cg(lambda: fns[m](yt, sc, **kw))
                elif m == "sel":
                    pk = {} if case["pos"] is None else {"pos_label": case["pos"]}
                    o[m] = cg(lambda: fns[m](yt, yp, **pk, **kw))
                else:
                    o[m] = cg(lambda: fns[m](yt, yp, pos_label=case["pos"], **kw))
            out["base"][v] = o
        # -- dict MetricFrame on W and R ---------------------------------------------------------
        dm = {nm: fns[nm] for nm in case["dict_metrics"]}
        for v in ("W", "R"):
            mult, w = weights_of(case, v)
            out["dict"][v] = guarded(lambda: self._frame(case, dm, {nm: w for nm in dm}, mult, case["yp"]))
        # -- callable MetricFrame on W, S3, S4, N, Nn, O ------------------------------------------
        cm = case["call_metric"]
        ypv = score if case["call_score"] else case["yp"]
        for v in ("W", "S3", "S4", "N", "Nn", "O"):
            mult, w = weights_of(case, v)
            out["call"][v] = guarded(lambda: self._frame(case, (cm, fns[cm]), {cm: w}, mult, ypv))
        # -- dict MetricFrame whose metrics get *different* weights --------------------------------
        a, b, c = case["dict_metrics"]
        wk = {a: weights_of(case, "W", "k")[1], b: weights_of(case, "W", "k2")[1], c: "omit"}
        out["mix"] = guarded(lambda: self._frame(case, dm, wk, None, case["yp"]))
        # -- ONE metric with TWO sample parameters: a (weight-like) and ids (a second per-sample parameter that must be
        #    replicated with its row): sum(a*ids) on W (a = k) and on R (rows repeated, a = 1, ids repeated)
        out["two"] = {}
        for v in ("W", "R"):
            out["two"][v] = guarded(lambda: self._two_frame(case, v))
        # -- named fairness metrics -----------------------------------------------------------------
        meth = {"between": "between_groups", "overall": "to_overall"}[case["method"]]
        aggv = {"worst": "worst_case", "mean": "mean"}[case["agg"]]

        def named(nm, v):
            mult, w = weights_of(case, v)
            kw = {"method": meth}
            if nm in ("eod", "eor"):
                kw["agg"] = aggv
            if w != "omit":
                kw["sample_weight"] = None if w == "none" else box(w, case["cont"]["w"], "w")
            yt = box(rep(case["yt"], mult), case["cont"]["y"], "yt")
            yp = box(rep(case["yp"], mult), case["cont"]["y"], "yp")
            fn = nfn[nm]
            if case.get("derived") and nm in DERIVED:
                # the same quantity through the public make_derived_metric entry point
                import fairlearn.metrics as fm
                base, transform = DERIVED[nm]
                fn = fm.make_derived_metric(metric=getattr(fm, base), transform=transform)
            return cg(lambda: fn(yt, yp, sensitive_features=self._sf(case, mult), **kw))
        for v in ("W", "R"):
            out["named"][v] = {nm: named(nm, v) for nm in case["named"]}
        for v in ("S3", "S4", "N", "Nn", "O"):
            out["named"][v] = {case["named1"]: named(case["named1"], v)}
        if case["named1"] not in out["named"]["W"]:
            out["named"]["W"][case["named1"]] = named(case["named1"], "W")
        return out

    # the dict-frame metrics as names of the metric pool of the FULL MetricFrame model (Model/Frame.lean + MetricPool.lean)
    POOL = {"tpr": "tpr", "fnr": "fnr", "fpr": "fpr", "tnr": "tnr", "sel": "selrate", "mp": "meanpred"}

    def _full_lines(self, case):
        """The dict-frame metrics evaluated by the FULL MetricFrame model (op `frame.eval` = `Frame.byGroup` / `Frame.overall`
        over `MetricPool.eval`, control and sensitive columns together, empty combinations re-indexed to NaN) on the weighted
        and on the physically replicated rows: exactly the two sides of C11.metricframe_rates_weight_is_multiplicity (rates)
        and C11.metricframe_two_params_weight_is_multiplicity (selection rate, mean prediction)."""
        from . import mfcommon as mc
        out = []
        has_cf = case["cf"] is not None
        for v in ("W", "R"):
            mult = case["k"] if v == "R" else None
            ys, ps = rep(case["yt"], mult), rep(case["yp"], mult)
            p0 = list(case["k"]) if v == "W" else [1] * sum(case["k"])
            cols = []
            if has_cf:
                cols.append(rep([CLAB[x] for x in case["cf"]], mult))
            cols.append(rep([mc.enc_level(GLAB[case["gtype"]][x]) for x in case["g"]], mult))
            for m in case["dict_metrics"]:
                out.append((("full", v, m), f"frame.eval {self.POOL[m]} {1 if has_cf else 0} {proto.lst(ys)} {proto.lst(ps)} "
                            f"{proto.lst(p0)} {proto.lst([0] * len(ys))} " + " ".join(proto.strs(c) for c in cols)))
        return out

    def _full_oracle(self, case, m):
        """replicate-and-count value of metric m per (control, group) combination of the product index, "nan" where empty"""
        from . import mfcommon as mc
        n = len(case["yt"])
        has_cf = case["cf"] is not None
        gl = [mc.enc_level(GLAB[case["gtype"]][x]) for x in case["g"]]
        cl = [CLAB[x] for x in case["cf"]] if has_cf else None
        rows = self._rows(case, "W", None, "yp")
        by, ov = {}, {}
        for c in (sorted(set(cl)) if has_cf else [None]):
            idx = [i for i in range(n) if not has_cf or cl[i] == c]
            ov[(c,) if has_cf else ()] = o_metric(m, [rows[i] for i in idx], 1)
            for g in sorted(set(gl)):
                sel = [i for i in idx if gl[i] == g]
                by[(c, g) if has_cf else (g,)] = o_metric(m, [rows[i] for i in sel], 1) if sel else "nan"
        return by, ov

    # ---------------------------------------------------------------- model lines
    def _slices(self, case):
        """cf level token -> row indices"""
        if case["cf"] is None:
            return {"-": list(range(len(case["yt"])))}
        return {str(c): [i for i, x in enumerate(case["cf"]) if x == c] for c in sorted(set(case["cf"]))}

    def _plan(self, case):
        """deterministic list of (descriptor, protocol line)"""
        n = len(case["yt"])
        idx_all = list(range(n))

        def toks(idx, pred_vals, variant, which="k"):
            mode, w = model_w(dict(case, **{which: [case[which][i] for i in idx]}), variant, which)
            return mode, (f"{proto.lst([case['g'][i] for i in idx])} {proto.lst([case['yt'][i] for i in idx])} "
                          f"{proto.lst([case['yp'][i] for i in idx])} {proto.lst([F(pred_vals[i]) for i in idx])} {w}")

        def mtok(m, pos):
            if m == "sel":
                return f"sel {1 if pos is None else pos}"
            if m == "mp":
                return "meanpred none"
            return f"{m} {'none' if pos is None else pos}"
        plan = []
        for v in VARIANTS:
            for m in BASE:
                mode, t = toks(idx_all, case["score"], v)
                plan.append((("base", v, m), f"w.metric {mode} {mtok(m, case['pos'])} {t}"))
        yp_as_pred = [str(x) for x in case["yp"]]
        for v in ("W", "R"):
            for ck, idx in self._slices(case).items():
                for m in case["dict_metrics"]:
                    mode, t = toks(idx, yp_as_pred, v)
                    plan.append((("dict", v, ck, m), f"w.frame {mode} {mtok(m, None)} {t}"))
        cm = case["call_metric"]
        pv = case["score"] if case["call_score"] else yp_as_pred
        for v in ("W", "S3", "S4", "N", "Nn", "O"):
            for ck, idx in self._slices(case).items():
                mode, t = toks(idx, pv, v)
                plan.append((("call", v, ck, cm), f"w.frame {mode} {mtok(cm, None)} {t}"))
        a, b, c = case["dict_metrics"]
        for ck, idx in self._slices(case).items():
            for m, (v, which) in ((a, ("W", "k")), (b, ("W", "k2")), (c, ("N", "k"))):
                mode, t = toks(idx, yp_as_pred, v, which)
                plan.append((("mix", "W", ck, m), f"w.frame {mode} {mtok(m, None)} {t}"))
        for v in ("W", "R", "S3", "S4", "N", "Nn", "O"):
            names = list(case["named"]) if v in ("W", "R") else [case["named1"]]
            if v == "W" and case["named1"] not in names:
                names.append(case["named1"])
            for nm in names:
                mode, t = toks(idx_all, yp_as_pred, v)
                plan.append((("named", v, nm), f"w.named {mode} {nm} {case['method']} {case['agg']} {t}"))
        plan.extend(self._two_lines(case))
        plan.extend(self._full_lines(case))
        return plan

    def lines(self, case, impl_out):
        return [ln for _, ln in self._plan(case)]

    # ---------------------------------------------------------------- judging
    def _rows(self, case, variant, idx=None, pred="score", which="k"):
        mult = mult_of(case, variant, which)
        idx = range(len(case["yt"])) if idx is None else idx
        pv = case["score"] if pred == "score" else case["yp"]
        return [(case["yt"][i], case["yp"][i], F(pv[i]), mult[i]) for i in idx]

    def judge(self, case, o, mo):
        P = []
        if "crash" in o:
            return [Problem("correspondence", f"implementation crashed: {o}", "impl-total")]
        model = {}
        if mo is not None:
            for (d, _), tok in zip(self._plan(case), mo):
                model[d] = tok
        pos_rate = 1 if case["pos"] is None else case["pos"]

        def rel(kind, what, a, b, name):
            if not same(a, b):
                P.append(Problem("property", f"{what}: {kind} {a} vs {b}", name))

        # ---------- base metrics ------------------------------------------------------------------
        B = o["base"]
        for m in BASE:
            def get(v):
                c = B[v][m]
                return ["exc", c["exc"]] if isinstance(c, dict) else c
            rel("weighted vs replicated", f"{m}", get("W"), get("R"), "C11.weight_is_multiplicity")
            rel("weights*3 vs weights", f"{m}", get("S3"), get("W"), "C11.scale_invariant")
            rel("weights/4 vs weights", f"{m}", get("S4"), get("W"), "C11.scale_invariant")
            rel("omitted vs ones", f"{m}", get("N"), get("O"), "C11.none_eq_ones")
            rel("omitted vs sample_weight=None", f"{m}", get("N"), get("Nn"), "C11.none_eq_ones")
            for v in VARIANTS:
                want = o_metric(m, self._rows(case, v), pos_rate)
                c = get(v)
                if c[0] == "exc":
                    P.append(Problem("property", f"{m}[{v}] raised {c} on valid input", "C11.accepts"))
                elif c[0] != "s":
                    P.append(Problem("property", f"{m}[{v}] is not a scalar: {c} (expected {want})", "C11.scalar_result"))
                elif not close(c, want):
                    P.append(Problem("property", f"{m}[{v}] = {c[1]!r}, replicate-and-count value {want}", "C11.value"))
                if mo is not None:
                    tok = model[("base", v, m)]
                    if not model_tok_ok(tok, want):
                        P.append(Problem("harness", f"model {m}[{v}] = {tok} vs oracle {want}"))
        # ---------- frames -------------------------------------------------------------------------
        sl = self._slices(case)

        def frame_cells(fr):
            """flatten a canonical frame into {path: cell}"""
            if "exc" in fr:
                return {"exc": ["exc", fr["exc"]]}
            d = {("types",): ["t", sorted(fr["types"].items())]}
            for ck, s in fr["slices"].items():
                d[(ck, "keys")] = ["k", s["keys"], s["missing"]]
                for nm, vs in s["vals"].items():
                    for key, cc in zip(s["keys"], vs):
                        d[(ck, "by_group", nm, key)] = cc
                for kk in ("overall",) + AGG_KEYS:
                    for nm, cc in s[kk].items():
                        d[(ck, kk, nm)] = cc
            return d

        def rel_frames(what, fa, fb, name, kind):
            if ("exc" in fa) != ("exc" in fb):
                P.append(Problem("property", f"{what}: {kind}: one side raised ({fa.get('exc')} / {fb.get('exc')}), the other returned",
                                 name))
                return
            da, db_ = frame_cells(fa), frame_cells(fb)
            for path in sorted(set(da) | set(db_), key=str):
                x, y = da.get(path), db_.get(path)
                if not same(x, y):
                    P.append(Problem("property", f"{what} {path}: {kind} {x} vs {y}", name))
                    return

        def check_frame(tag, v, fr, metric_specs):
            """metric_specs: name -> (variant for weights, which, pred)"""
            if "exc" in fr:
                P.append(Problem("property", f"{tag}[{v}] raised {fr['exc']} on valid input", "C11.accepts"))
                return
            for ck, idx in sl.items():
                s = fr["slices"].get(ck)
                if s is None:
                    P.append(Problem("property", f"{tag}[{v}] lacks control level {ck}", "C11.frame_shape"))
                    continue
                gs = [case["g"][i] for i in idx]
                for nm, (vv, which, pred) in metric_specs.items():
                    want = o_frame(nm, self._rows(case, vv, idx, pred, which), gs, 1)
                    if s["keys"] != want["keys"]:
                        P.append(Problem("property", f"{tag}[{v}] {ck} groups {s['keys']} expected {want['keys']}", "C11.by_group_keys"))
                        continue
                    for key, cc, wv in zip(s["keys"], s["vals"][nm], want["vals"]):
                        if cc[0] not in ("s",):
                            P.append(Problem("property", f"{tag}[{v}] {ck} by_group[{nm}][{key}] is not a scalar: {cc} (expected {wv})",
                                             "C11.scalar_result"))
                        elif not close(cc, wv):
                            P.append(Problem("property", f"{tag}[{v}] {ck} by_group[{nm}][{key}] = {cc[1]!r}, replicate-and-count {wv}",
                                             "C11.by_group_value"))
                    for kk in ("overall",) + AGG_KEYS:
                        if not close(s[kk][nm], want[kk]):
                            P.append(Problem("property", f"{tag}[{v}] {ck} {kk}[{nm}] = {s[kk][nm]}, replicate-and-count {want[kk]}",
                                             "C11.aggregate_value"))
                    if mo is not None:
                        tok = model[(tag, v, ck, nm)]
                        parts = tok.split(" ")
                        if len(parts) != 9:
                            P.append(Problem("harness", f"model {tag}[{v}] {ck} {nm}: {tok}"))
                            continue
                        mk = [int(x) for x in proto.p_list(parts[0], int)]
                        okm = mk == want["keys"] and proto.p_list(parts[1]) == want["vals"] and all(
                            model_tok_ok(parts[2 + j], want[kk]) for j, kk in enumerate(("overall",) + AGG_KEYS))
                        if not okm:
                            P.append(Problem("harness", f"model {tag}[{v}] {ck} {nm}: {tok} vs oracle {want}"))
                        # implementation vs model on the cells the oracle leaves undefined (nan / inf)
                        for j, kk in enumerate(("overall",) + AGG_KEYS):
                            if not cell_vs_tok(s[kk][nm], parts[2 + j]):
                                P.append(Problem("correspondence", f"{tag}[{v}] {ck} {kk}[{nm}] = {s[kk][nm]} vs model {parts[2 + j]}",
                                                 "C11.frame-model"))

        pred_dict = "yp"
        for v in ("W", "R"):
            check_frame("dict", v, o["dict"][v], {nm: (v, "k", pred_dict) for nm in case["dict_metrics"]})
        rel_frames("dict frame", o["dict"]["W"], o["dict"]["R"], "C11.weight_is_multiplicity_frame", "weighted vs replicated")
        cm = case["call_metric"]
        cpred = "score" if case["call_score"] else "yp"
        for v in ("W", "S3", "S4", "N", "Nn", "O"):
            check_frame("call", v, o["call"][v], {cm: (v, "k", cpred)})
        rel_frames("callable frame", o["call"]["S3"], o["call"]["W"], "C11.scale_invariant_frame", "weights*3 vs weights")
        rel_frames("callable frame", o["call"]["S4"], o["call"]["W"], "C11.scale_invariant_frame", "weights/4 vs weights")
        rel_frames("callable frame", o["call"]["N"], o["call"]["O"], "C11.none_eq_ones", "omitted vs ones")
        rel_frames("callable frame", o["call"]["N"], o["call"]["Nn"], "C11.none_eq_ones", "omitted vs None")
        a, b, c = case["dict_metrics"]
        check_frame("mix", "W", o["mix"], {a: ("W", "k", "yp"), b: ("W", "k2", "yp"), c: ("N", "k", "yp")})
        # ---------- one metric, two sample parameters (C11.metricframe_two_params_weight_is_multiplicity) -------------
        from . import mfcommon as mc
        two = o.get("two", {})
        if two:
            by_w, ov_w = self._two_oracle(case)
            tabs = {}
            for v in ("W", "R"):
                fr = two[v]
                if "exc" in fr:
                    P.append(Problem("property", f"two-parameter frame [{v}] raised {fr['exc']} on valid input", "C11.accepts"))
                    continue
                tabs[v] = fr
                for label, tab, want in (("by_group", fr["by_group"], by_w), ("overall", fr["overall"], ov_w)):
                    got = {tuple(k): val for k, val in tab}
                    if set(got) != set(want):
                        P.append(Problem("property", f"two-parameter frame [{v}] {label} index {sorted(got)} expected {sorted(want)}",
                                         "C11.by_group_keys"))
                        continue
                    for k_, val in got.items():
                        if not mc.same(val, want[k_], TOL):
                            P.append(Problem("property", f"two-parameter frame [{v}] {label}{list(k_)} = {val}, replicate-and-count "
                                             f"{want[k_]}", "C11.metricframe_two_params"))
                if mo is not None:
                    t = model[("two", v)].split(" ")
                    if len(t) != 4:
                        P.append(Problem("harness", f"model two[{v}]: {model[('two', v)]}"))
                        continue
                    mby = dict(zip([tuple(k_) for k_ in mc.parse_keys(t[0])], mc.parse_cells(t[1])))
                    mov = dict(zip([tuple(k_) for k_ in mc.parse_keys(t[2])], mc.parse_cells(t[3])))
                    if case["cf"] is None:
                        mov = {(): x for x in mov.values()}
                    if mby != by_w or mov != ov_w:
                        P.append(Problem("harness", f"model two[{v}] {mby} {mov} vs oracle {by_w} {ov_w}"))
            if len(tabs) == 2 and not any(p.relation == "C11.metricframe_two_params" for p in P):
                for label in ("by_group", "overall"):
                    a_, b_ = tabs["W"][label], tabs["R"][label]
                    if [k_ for k_, _ in a_] != [k_ for k_, _ in b_] or any(
                            not (x == y or (not isinstance(x, str) and not isinstance(y, str) and abs(x - y) <= REL_ULP * max(1, abs(x))))
                            for (_, x), (_, y) in zip(a_, b_)):
                        P.append(Problem("property", f"two-parameter frame {label}: weighted {a_} vs replicated {b_}",
                                         "C11.metricframe_two_params"))
        # ---------- the dict-frame metrics in the FULL MetricFrame model (the functions of the metricframe_* theorems) ------
        if mo is not None:
            for m in case["dict_metrics"]:
                by_f, ov_f = self._full_oracle(case, m)
                for v in ("W", "R"):
                    tok = model.get(("full", v, m))
                    t = (tok or "").split(" ")
                    if len(t) != 4:
                        P.append(Problem("harness", f"model full[{v}] {m}: {tok}"))
                        continue
                    mby = dict(zip([tuple(k_) for k_ in mc.parse_keys(t[0])], mc.parse_cells(t[1])))
                    mov = dict(zip([tuple(k_) for k_ in mc.parse_keys(t[2])], mc.parse_cells(t[3])))
                    if case["cf"] is None:
                        mov = {(): x for x in mov.values()}
                    if mby != by_f or mov != ov_f:
                        P.append(Problem("harness", f"full-frame model {m}[{v}] {mby} {mov} vs oracle {by_f} {ov_f}"))
        # ---------- named metrics ------------------------------------------------------------------
        N = o["named"]
        gs_all = case["g"]

        def nget(v, nm):
            c_ = N[v][nm]
            return ["exc", c_["exc"]] if isinstance(c_, dict) else c_
        for nm in case["named"]:
            rel("weighted vs replicated", f"{nm}({case['method']},{case['agg']})", nget("W", nm), nget("R", nm),
                "C11.weight_is_multiplicity_named")
        n1 = case["named1"]
        rel("weights*3 vs weights", n1, nget("S3", n1), nget("W", n1), "C11.scale_invariant_named")
        rel("weights/4 vs weights", n1, nget("S4", n1), nget("W", n1), "C11.scale_invariant_named")
        rel("omitted vs ones", n1, nget("N", n1), nget("O", n1), "C11.none_eq_ones")
        rel("omitted vs None", n1, nget("N", n1), nget("Nn", n1), "C11.none_eq_ones")
        for v in N:
            for nm in N[v]:
                want = o_named(nm, case["method"], case["agg"], self._rows(case, v, None, "yp"), gs_all)
                c_ = nget(v, nm)
                if c_[0] == "exc":
                    P.append(Problem("property", f"named {nm}[{v}] raised {c_} on valid input", "C11.accepts"))
                elif not close(c_, want):
                    P.append(Problem("property", f"{nm}[{v}]({case['method']},{case['agg']}) = {c_}, replicate-and-count value {want}",
                                     "C11.named_value"))
                if mo is not None:
                    tok = model[("named", v, nm)]
                    if want is not None and not model_tok_ok(tok, want):
                        P.append(Problem("harness", f"model {nm}[{v}] = {tok} vs oracle {want}"))
                    if c_[0] != "exc" and not cell_vs_tok(c_, tok):
                        P.append(Problem("correspondence", f"{nm}[{v}] = {c_} vs model {tok}", "C11.named-model"))
        # model: weighted == replicated (instances of the theorems, sanity of the driver)
        if mo is not None:
            for d, tok in model.items():
                if d[1] == "R":
                    dw = (d[0], "W") + d[2:]
                    if dw in model and model[dw] != tok:
                        P.append(Problem("harness", f"model weighted {model[dw]} != model replicated {tok} at {d}"))
        return P

    def known(self, case, problem, entries):
        """F9 (repaired in /repo by d5b1a8a, so known_findings.json no longer lists it and this matches nothing;
        kept so that re-listing F9 would again scope the finding exactly): one data row + sensitive_features passed
        as a numpy array -> MetricFrame raised ValueError (np.squeeze made the feature 0-d).  Only the MetricFrame /
        named-metric call sites on the un-replicated variants were affected; everything else is still judged."""
        for e in entries:
            if e.get("id") != "F9":
                continue
            if len(case["yt"]) != 1 or case["cont"]["sf"] != "array":
                continue
            m = problem.msg
            frame_site = m.startswith(("dict[", "call[", "mix[", "named ", "dict frame", "callable frame")) or \
                problem.relation in ("C11.weight_is_multiplicity_named", "C11.scale_invariant_named")
            if frame_site and "ValueError" in m and problem.relation in (
                    "C11.accepts", "C11.weight_is_multiplicity_frame", "C11.weight_is_multiplicity_named"):
                return e
        return None

    def signature(self, case, o):
        n = len(case["yt"])
        g = case["g"]
        sizes = [g.count(x) for x in set(g)]
        lone_weighted = any(g.count(g[i]) == 1 and case["k"][i] > 1 for i in range(n))
        tags = [f"n={n}", f"groups={len(set(g))}", f"enc={case['enc']}", f"gtype={case['gtype']}",
                f"y={case['cont']['y']}", f"w={case['cont']['w']}", f"sf={case['cont']['sf']}",
                "control_feature" if case["cf"] is not None else "no_control_feature",
                f"maxk={max(case['k'])}", f"replicated_rows={sum(case['k'])}",
                "single_row_group" if 1 in sizes else "no_single_row_group",
                f"call_metric={case['call_metric']}", f"method={case['method']}", f"agg={case['agg']}",
                "entry=make_derived_metric" if case.get("derived") and any(x in DERIVED for x in list(case["named"]) + [case["named1"]])
                else "entry=named_functions_only",
                "w_index=" + ("labelled" if case["cont"]["w"] in SERIES_KINDS[1:] else "positional_container"),
                "pair:y,w=%s,%s" % (case["cont"]["y"], case["cont"]["w"])]
        if lone_weighted:
            tags.append("single_weighted_row_group")
        for nm in case["named"]:
            tags.append(f"named={nm}")
        try:
            if any(c == ["nan"] for v in o["named"].values() for c in v.values() if isinstance(c, list)):
                tags.append("named_result_nan")
        except Exception:  # noqa: BLE001
            pass
        key = (case["enc"], tuple(case["yt"]), tuple(case["yp"]), tuple(case["score"]), tuple(g), case["gtype"],
               tuple(case["cf"] or ()), tuple(case["k"]), tuple(case["k2"]), case["pos"], tuple(sorted(case["cont"].items())),
               tuple(case["dict_metrics"]), case["call_metric"], tuple(case["named"]), case["method"], case["agg"],
               bool(case.get("derived")))
        return key, any(x > 1 for x in case["k"]), tags
