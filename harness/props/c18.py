"""C18 — bootstrap intervals are reproducible, ordered and shaped like the estimates.

The resample positions are recovered WITHOUT a hook by replaying the seed stream exactly as
fairlearn/metrics/_bootstrap.py derives it:

    rs = np.random.default_rng(seed=random_state).integers(0, iinfo(uint32).max, size=n_boot, dtype=uint32)
    sample i = DataFrame.sample(frac=1, replace=True, random_state=rs[i], axis=0, ignore_index=True)

applied to an index-only frame.  With the positions known, every `*_ci` value is recomputed from first
principles twice: by an exact Fraction oracle in this file and by the compiled Lean model (`boot.ci`).
Where the metric dict contains the recording metric `spy` (a `count` that also receives the row ids through
`sample_params`), the rows each resample really consisted of are observed through the public API and compared
to the replay.
"""
from fractions import Fraction as F
import math

import numpy as np
import pandas as pd

from .. import proto
from ..core import Check, Problem, register
from .c11 import o_metric, o_div, o_sub_one, box

# review R2: measured on the clean tree (quick + thorough generators, 35 000 float-vs-exact comparisons, n_boot up to 40):
# max |float - exact| / (1 + |exact|) = 6.7e-16; ordering inversions between quantiles: none (max 0.0).
TOL = 5e-14        # < 100 x the measured maximum (was 1e-9)
ORDER_TOL = 1e-14  # slack of the "non-decreasing in the quantile" test (was 1e-12; measured inversions: none)
SF = ["a", "b", "c"]
SF_INT = [3, 10, 20]
SF2 = ["x", "y"]
CF = ["p", "q"]
WEIGHTABLE = ("sel", "tpr", "fpr", "mp")
POOL_DICT = ("sel", "tpr", "fpr", "mp", "count", "const", "spy")
POOL_CALL = ("sel", "tpr", "mp", "count", "const")
QPOOL = (0.025, 0.05, 0.1, 0.25, 0.5, 0.75, 0.9, 0.95, 0.975, 0.3, 0.01, 0.99)
STATS = ("overall", "gmin", "gmax", "db", "do", "rb", "ro")
ACCESSORS = ("overall_ci", "by_group_ci", "group_min_ci", "group_max_ci", "difference_ci_between",
             "difference_ci_overall", "ratio_ci_between", "ratio_ci_overall")
POINT_OF = {"overall_ci": "overall", "by_group_ci": "by_group", "group_min_ci": "group_min", "group_max_ci": "group_max",
            "difference_ci_between": "difference_between", "difference_ci_overall": "difference_overall",
            "ratio_ci_between": "ratio_between", "ratio_ci_overall": "ratio_overall"}
STAT_OF = {"overall_ci": "overall", "group_min_ci": "gmin", "group_max_ci": "gmax", "difference_ci_between": "db",
           "difference_ci_overall": "do", "ratio_ci_between": "rb", "ratio_ci_overall": "ro"}


# ------------------------------------------------------------------------------------------- replay of the seed stream
def replay_indices(seed, n_boot, n):
    rs = np.random.default_rng(seed=seed).integers(low=0, high=np.iinfo(np.uint32).max, size=n_boot, dtype=np.uint32)
    probe = pd.DataFrame({"i": np.arange(n)})
    return [[int(x) for x in probe.sample(frac=1, replace=True, random_state=r, axis=0, ignore_index=True)["i"]] for r in rs]


def replay_plan(seed, n_boot, n, plan):
    """the resample positions under the plan LIFTED FROM THE SOURCE (driver op `bootsrc.plan`): draw count, replacement,
    loop count and which seed-stream entry seeds sample i.  None if the plan cannot be replayed."""
    try:
        rs = np.random.default_rng(seed=seed).integers(low=0, high=np.iinfo(np.uint32).max, size=n_boot, dtype=np.uint32)
        probe = pd.DataFrame({"i": np.arange(n)})
        out = []
        seeds = [] if plan["seeds"] == "-" else plan["seeds"].split(",")
        if len(seeds) != int(plan["loops"]):
            return None
        for tok in seeds:
            r = seed if tok == "u" else rs[int(tok)]
            out.append([int(x) for x in probe.sample(n=int(plan["draw"]), replace=plan["replace"] == "1", random_state=r,
                                                    axis=int(plan["axis"]), ignore_index=plan["ignore_index"] == "1")["i"]])
        return out
    except Exception:  # noqa: BLE001
        return None


# ------------------------------------------------------------------------------------------- oracle (exact Fractions)
def o_quantile(vals, q):
    """numpy 'linear' method on exact values; q an exact Fraction"""
    s = sorted(vals)
    k = len(s)
    h = (k - 1) * q
    j = math.floor(h)
    g = h - j
    lo, hi = s[j], s[min(j + 1, k - 1)]
    return lo + (hi - lo) * g


def o_column(vals, q, skip):
    """vals: Fractions or None (=NaN).  Series path (skip=False): NaN if any NaN; DataFrame path: NaNs skipped."""
    if skip:
        vals = [v for v in vals if v is not None]
        return None if not vals else o_quantile(vals, q)
    if any(v is None for v in vals):
        return None
    return o_quantile(vals, q)


def o_eval(m, rows, const):
    """rows: (yt, yp, pred, weight)"""
    if m in ("count", "spy"):
        return F(len(rows))
    if m == "const":
        return F(const)
    return o_metric(m, rows, 1)


def o_frame18(m, rows, gs, const):
    keys = sorted(set(gs))
    vals = [o_eval(m, [r for r, g in zip(rows, gs) if g == key], const) for key in keys]
    ov = o_eval(m, rows, const)
    lo, hi = min(vals), max(vals)
    ros = [x for x in (o_sub_one(o_div(v, ov)) for v in vals) if x is not None]
    fr = {"keys": keys, "vals": dict(zip(keys, vals)), "overall": ov, "gmin": lo, "gmax": hi, "db": hi - lo,
          "do": max(abs(v - ov) for v in vals), "rb": o_div(lo, hi), "ro": min(ros) if ros else None}
    for kk in ("rb", "ro"):
        if isinstance(fr[kk], float):
            raise RuntimeError("infinite ratio: outside the modelled domain")
    return fr


def cellf(v):
    try:
        f = float(v)
    except (TypeError, ValueError):
        return ["obj", type(v).__name__]
    if math.isnan(f):
        return "nan"
    return f


def flatten(obj, callable_form, name):
    """pandas object / scalar -> {"t": type, "cols": [...], "rows": {index key: {metric: cell}}}"""
    if isinstance(obj, pd.DataFrame):
        rows = {}
        for idx, row in obj.iterrows():
            key = "|".join(str(x) for x in (idx if isinstance(idx, tuple) else (idx,)))
            rows[key] = {str(c): cellf(row[c]) for c in obj.columns}
        return {"t": "DataFrame", "cols": [str(c) for c in obj.columns], "rows": rows, "names": [str(x) for x in obj.index.names]}
    if isinstance(obj, pd.Series):
        if callable_form:
            rows = {}
            for idx, v in obj.items():
                key = "|".join(str(x) for x in (idx if isinstance(idx, tuple) else (idx,)))
                rows[key] = {name: cellf(v)}
            return {"t": "Series", "cols": [str(obj.name)], "rows": rows, "names": [str(x) for x in obj.index.names]}
        return {"t": "Series", "cols": [str(x) for x in obj.index], "rows": {"-": {str(k): cellf(v) for k, v in obj.items()}},
                "names": []}
    return {"t": "scalar", "cols": [name], "rows": {"-": {name: cellf(obj)}}, "names": []}


@register
class CHECK(Check):
    pid = "C18"
    technique = ("Lean 4 theorems over the Bootstrap model (numpy linear quantile, CI entry lists, resample row counts) + "
                 "hook-free replay of the seed stream and exact recomputation of every *_ci value")
    level_text = ("Theorems (all sample lists / data / resample index lists / quantile lists): the linear quantile is monotone "
                  "in q, constant on constant samples and between min and max; every *_ci list has one entry per quantile and "
                  "is ordered like the quantiles; by_group_ci is indexed by exactly the groups hit by a resample; a resample of "
                  "n positions has n rows so count's overall CI is n; constant metric => all quantiles equal; non-constant "
                  "samples => positive width for wide quantile pairs; the mean is strictly inside (min,max). Tie: resample "
                  "positions replayed from the integer seed, all *_ci accessors recomputed exactly by a Fraction oracle and "
                  "by the compiled Lean model; same-seed identity, type/columns/index vs the point estimates, spy metric. "
                  "SOURCE TIE (harness/lifters/bootstrap.py -> Generated/BootstrapSrc.lean): the data.sample keywords, the seed of "
                  "sample i, the loop count, the numpy quantile function / method / axis / q order of the Series and the DataFrame "
                  "path, the assembly of entry i and the quantile argument at every *_ci call site are lifted from the ast; "
                  "Model/BootstrapSrc.lean builds ciSrc / drawCount / validResample / seedIndex from them and src_* theorems prove "
                  "ciSrc = ci, drawCount n = n, with replacement, per-sample seeds, order as given (so quantile_mono, "
                  "ci_length_and_order, count_is_n hold of the code as lifted); bootsrc.ci / bootsrc.plan are compared with the "
                  "pinned model and the property's own resampling on every case.")
    design_ref = "DESIGN.md section 4, C18"
    quick_cases = 260
    thorough_cases = 1500
    quick_budget_s = 115
    thorough_budget_s = 1200
    workers_thorough = 6
    rule = ("datasets of 2..10 rows, labels {0,1}, 1..3 sensitive groups (optional second sensitive feature, optional 2-level "
            "control feature), optional integer sample weights passed through sample_params, dict (1..3 of sel,tpr,fpr,mp,count,"
            "const,spy) or callable metrics, n_boot in {1,2,3,5,8,12} (thorough up to 40), 1..4 quantiles from a pool in (0,1) in "
            "arbitrary order, integer seeds (0, small, 31-bit, >32-bit); every case builds the bootstrapped MetricFrame twice "
            "with the same seed and once with another seed; distinct = distinct (data, layout, metrics, n_boot, quantiles, "
            "seed); non-trivial = n_boot >= 2 and the overall value of some metric differs between two resamples. Further "
            "generator restrictions: predictions are labels {0,1} (10% of the cases constant) or, for a callable mean_prediction, "
            "scores k/8; the constant metric returns k/4 in [-1,3]; weights are integers 1..3; group labels are 'a','b','c' or "
            "3,10,20; the relations count_is_n / constant_metric / nonconstant_gives_width are evaluated on the overall_ci of "
            "frames WITHOUT control features only (with control features the per-level row count is random)")
    explanation = ("theorems over the Lean model Bootstrap (all inputs; the RNG is an input of the model); correspondence: all *_ci "
                   "accessors vs exact recomputation from the replayed resample positions (Fraction oracle and compiled driver, "
                   "|float - exact| <= 5e-14 (1 + |exact|); measured max 6.7e-16), list lengths, types/columns/index vs point estimates, ordering, same-seed bitwise identity, "
                   "second seed recomputed too, spy-observed resample rows vs replay. PARTIAL: that resamples of varying data "
                   "differ is a statement about the RNG; it is observed per case (tag varying_samples), not proved")
    trusted = ("harness/lifters/bootstrap.py lifts call shapes (keywords of data.sample, np.(nan)quantile, loop / seed "
               "expressions) from the ast; that numpy / pandas honour those keywords is trusted",
               "numpy default_rng(seed).integers and pandas DataFrame.sample(random_state=uint32) are deterministic functions of "
               "the seed (the replay calls the same two library functions on an index-only frame)",
               "np.quantile / np.nanquantile default method 'linear' (modelled by quantileLinear, checked by correspondence)",
               "pandas index union/reindex in _align_sample_indices (modelled as union of group keys with NaN filling)",
               "feature values are mapped order-preservingly to integers before entering the model")
    assumptions = ("random_state is a Python int", "metrics return finite scalars on every non-empty group",
                   "quantiles are floats in (0,1)", "n_boot >= 1")

    # ---------------------------------------------------------------- generation
    def generate(self, rng, tier):
        while True:
            n = rng.choice([2, 3, 3, 4, 4, 5, 6, 7, 8, 10])
            yt = [rng.randint(0, 1) for _ in range(n)]
            yp = [rng.randint(0, 1) for _ in range(n)]
            if rng.random() < 0.1:
                yp = [yp[0]] * n
            score = [str(F(rng.randint(0, 8), 8)) for _ in range(n)]
            ng = rng.choice([1, 2, 2, 3, 3])
            g = [rng.randrange(ng) for _ in range(n)]
            sf2 = [rng.randrange(2) for _ in range(n)] if rng.random() < 0.15 else None
            cf = [rng.randrange(2) for _ in range(n)] if rng.random() < 0.25 else None
            w = [rng.randint(1, 3) for _ in range(n)] if rng.random() < 0.25 else None
            if rng.random() < 0.7:
                form = "dict"
                metrics = rng.sample(POOL_DICT, rng.choice([1, 2, 2, 3]))
            else:
                form = "callable"
                metrics = [rng.choice(POOL_CALL)]
            nb_pool = [1, 2, 3, 3, 5, 5, 8, 12] if tier == "quick" else [1, 2, 3, 5, 8, 12, 20, 40]
            qs = [rng.choice(QPOOL) for _ in range(rng.choice([1, 2, 2, 3, 4]))]
            seed = rng.choice([0, 1, 42, rng.randrange(2 ** 31), rng.randrange(2 ** 31), rng.randrange(2 ** 32, 2 ** 40)])
            yield {"yt": yt, "yp": yp, "score": score, "g": g, "gtype": rng.choice(["str", "int"]), "sf2": sf2, "cf": cf, "w": w,
                   "form": form, "metrics": metrics, "const": str(F(rng.randint(-4, 12), 4)),
                   "call_score": form == "callable" and metrics[0] == "mp" and rng.random() < 0.7,
                   "n_boot": rng.choice(nb_pool), "qs": qs, "seed": seed, "seed2": seed + 1 + rng.randrange(1000),
                   "cont": {"y": rng.choice(["list", "array", "series"]), "sf": rng.choice(["list", "array", "series", "frame", "dict"])}}

    def exhaustive(self, tier):
        """small scope: every 2- and 3-row dataset over {0,1} with every grouping into <= 2 groups, seeds 0/1, n_boot 1/3"""
        import itertools
        for n in (2, 3):
            for yt in itertools.product([0, 1], repeat=n):
                for yp in itertools.product([0, 1], repeat=n):
                    for g in itertools.product([0, 1], repeat=n):
                        if g[0] != 0:
                            continue
                        for seed in (0, 1):
                            for nb in (1, 3):
                                yield {"yt": list(yt), "yp": list(yp), "score": ["1/2"] * n, "g": list(g), "gtype": "str", "sf2": None,
                                       "cf": None, "w": None, "form": "dict", "metrics": ["sel", "count"], "const": "1",
                                       "call_score": False, "n_boot": nb, "qs": [0.9, 0.1], "seed": seed, "seed2": seed + 7,
                                       "cont": {"y": "list", "sf": "list"}}

    def shrink(self, case):
        n = len(case["yt"])
        if case["n_boot"] > 1:
            yield dict(case, n_boot=case["n_boot"] - 1)
            yield dict(case, n_boot=1)
        if len(case["qs"]) > 1:
            for i in range(len(case["qs"])):
                yield dict(case, qs=case["qs"][:i] + case["qs"][i + 1:])
        if len(case["metrics"]) > 1:
            for i in range(len(case["metrics"])):
                yield dict(case, metrics=case["metrics"][:i] + case["metrics"][i + 1:])
        for f in ("cf", "sf2", "w"):
            if case[f] is not None:
                yield dict(case, **{f: None})
        if n > 2:
            for i in range(n):
                c = dict(case)
                for f in ("yt", "yp", "score", "g"):
                    c[f] = case[f][:i] + case[f][i + 1:]
                for f in ("cf", "sf2", "w"):
                    if case[f] is not None:
                        c[f] = case[f][:i] + case[f][i + 1:]
                yield c
        if any(v != "list" for v in case["cont"].values()):
            yield dict(case, cont={"y": "list", "sf": "list"})
        if len(set(case["g"])) > 1:
            top = max(case["g"])
            yield dict(case, g=[min(x, top - 1) for x in case["g"]])

    # ---------------------------------------------------------------- implementation
    def _labels(self, case):
        sfl = SF if case["gtype"] == "str" else SF_INT
        return sfl

    def _features(self, case):
        sfl = self._labels(case)
        s1 = [sfl[x] for x in case["g"]]
        kind = case["cont"]["sf"]
        if case["sf2"] is None:
            sf = box(s1, kind, "sf")
        else:
            s2 = [SF2[x] for x in case["sf2"]]
            if kind in ("frame", "series"):
                sf = pd.DataFrame({"sf": s1, "sf2": s2})
            elif kind == "dict":
                sf = {"sf": s1, "sf2": s2}
            else:
                sf = np.array([s1, s2], dtype=object).T
        cf = None if case["cf"] is None else box([CF[x] for x in case["cf"]], "series" if kind != "list" else "list", "cfeat")
        return sf, cf

    def _build(self, case, seed, rec):
        import fairlearn.metrics as fm
        n = len(case["yt"])
        const = float(F(case["const"]))

        def const_metric(y_true, y_pred):
            return const

        def spy(y_true, y_pred, rid):
            rec.append([int(x) for x in rid])
            return float(len(y_true))
        fns = {"sel": fm.selection_rate, "tpr": fm.true_positive_rate, "fpr": fm.false_positive_rate,
               "mp": fm.mean_prediction, "count": fm.count, "const": const_metric, "spy": spy}
        yp_vals = [float(F(s)) for s in case["score"]] if case["call_score"] else case["yp"]
        yt = box(case["yt"], case["cont"]["y"], "yt")
        yp = box(yp_vals, case["cont"]["y"], "yp")
        sf, cf = self._features(case)

        def sp_of(m):
            if m == "spy":
                return {"rid": list(range(n))}
            if m in WEIGHTABLE and case["w"] is not None:
                return {"sample_weight": [float(x) for x in case["w"]]}
            return None
        if case["form"] == "callable":
            m = case["metrics"][0]
            return fm.MetricFrame(metrics=fns[m], y_true=yt, y_pred=yp, sensitive_features=sf, control_features=cf,
                                  sample_params=sp_of(m), n_boot=case["n_boot"], ci_quantiles=list(case["qs"]), random_state=seed)
        sp = {m: sp_of(m) for m in case["metrics"] if sp_of(m) is not None}
        return fm.MetricFrame(metrics={m: fns[m] for m in case["metrics"]}, y_true=yt, y_pred=yp, sensitive_features=sf,
                              control_features=cf, sample_params=sp or None, n_boot=case["n_boot"], ci_quantiles=list(case["qs"]),
                              random_state=seed)

    def _name(self, case):
        m = case["metrics"][0]
        return {"sel": "selection_rate", "tpr": "true_positive_rate", "mp": "mean_prediction", "count": "count",
                "const": "const_metric"}.get(m, m)

    def _dump(self, case, mf, full=True):
        cform = case["form"] == "callable"
        nm = case["metrics"][0] if cform else None

        def fl(x):
            return flatten(x, cform, nm)
        out = {"ci": {}, "point": {}}
        acc = {"overall_ci": lambda: mf.overall_ci, "by_group_ci": lambda: mf.by_group_ci}
        if full:
            acc.update({"group_min_ci": mf.group_min_ci, "group_max_ci": mf.group_max_ci,
                        "difference_ci_between": lambda: mf.difference_ci(method="between_groups"),
                        "difference_ci_overall": lambda: mf.difference_ci(method="to_overall"),
                        "ratio_ci_between": lambda: mf.ratio_ci(method="between_groups"),
                        "ratio_ci_overall": lambda: mf.ratio_ci(method="to_overall")})
        for k, f in acc.items():
            v = f()
            out["ci"][k] = {"is_list": isinstance(v, list), "entries": [fl(x) for x in v]}
        if full:
            pts = {"overall": mf.overall, "by_group": mf.by_group, "group_min": mf.group_min(), "group_max": mf.group_max(),
                   "difference_between": mf.difference(method="between_groups"), "difference_overall": mf.difference(method="to_overall"),
                   "ratio_between": mf.ratio(method="between_groups"), "ratio_overall": mf.ratio(method="to_overall")}
            out["point"] = {k: fl(v) for k, v in pts.items()}
        return out

    def impl(self, case):
        n = len(case["yt"])
        try:
            rec1, rec2, rec3 = [], [], []
            run1 = self._dump(case, self._build(case, case["seed"], rec1))
            run2 = self._dump(case, self._build(case, case["seed"], rec2))
            run3 = self._dump(case, self._build(case, case["seed2"], rec3), full=False)
        except (ValueError, AssertionError, TypeError, KeyError, IndexError, ZeroDivisionError) as e:
            return {"exc": type(e).__name__, "detail": str(e)[:200]}
        return {"run1": run1, "run2": run2, "run3": run3, "spy": rec1,
                "idx": replay_indices(case["seed"], case["n_boot"], n), "idx2": replay_indices(case["seed2"], case["n_boot"], n)}

    # ---------------------------------------------------------------- model lines
    def _gkey(self, case, i):
        return case["g"][i] * 4 + case["sf2"][i] if case["sf2"] is not None else case["g"][i]

    def _gkey_label(self, case, key):
        sfl = self._labels(case)
        if case["sf2"] is not None:
            return f"{sfl[key // 4]}|{SF2[key % 4]}"
        return str(sfl[key])

    def _levels(self, case):
        if case["cf"] is None:
            return {"-": list(range(len(case["yt"])))}
        return {CF[c]: [i for i, x in enumerate(case["cf"]) if x == c] for c in sorted(set(case["cf"]))}

    def _mtok(self, case, m):
        if m == "sel":
            return "sel 1"
        if m == "mp":
            return "meanpred none"
        if m in ("count", "spy"):
            return "count none"
        if m == "const":
            return f"const {proto.rat(F(case['const']))}"
        return f"{m} none"

    def _plan(self, case, idxs, tag):
        plan = []
        skip = "1" if case["cf"] is not None else "0"
        pred = case["score"] if case["call_score"] else case["yp"]
        for lev, rows in self._levels(case).items():
            pos_of = {r: j for j, r in enumerate(rows)}
            sub = [[pos_of[i] for i in idx if i in pos_of] for idx in idxs]
            itok = ";".join(proto.lst(s) if s else "e" for s in sub)
            w = "none" if case["w"] is None else proto.lst([case["w"][i] for i in rows])
            for m in case["metrics"]:
                wt = w if m in WEIGHTABLE else "none"
                plan.append(((tag, lev, m),
                             f"boot.ci {skip} {self._mtok(case, m)} {proto.lst([self._gkey(case, i) for i in rows])} "
                             f"{proto.lst([case['yt'][i] for i in rows])} {proto.lst([case['yp'][i] for i in rows])} "
                             f"{proto.lst([F(pred[i]) for i in rows])} {wt} {itok} {proto.lst([F(q) for q in case['qs']])}"))
        return plan

    def lines(self, case, impl_out):
        if "idx" not in impl_out:
            return []
        p1 = self._plan(case, impl_out["idx"], "s1")
        base = [ln for _, ln in p1 + self._plan(case, impl_out["idx2"], "s2")]
        # the same computation from the pieces lifted from the source, and the lifted resampling plan
        out = base + ["bootsrc.ci" + ln[len("boot.ci"):] for _, ln in p1] + [f"bootsrc.plan {len(case['yt'])} {case['n_boot']}"]
        # control features: the per-level CI computed by the Lean model from the UNSPLIT data (theorems
        # level_resample_is_filtered_resample / no_cross_talk_between_levels are about this function)
        return out + self._ciat_lines(case, impl_out["idx"])

    def _ciat_lines(self, case, idxs):
        if case["cf"] is None:
            return []
        n = len(case["yt"])
        pred = case["score"] if case["call_score"] else case["yp"]
        rows = list(range(n))
        itok = ";".join(proto.lst(idx) for idx in idxs)
        w = "none" if case["w"] is None else proto.lst(case["w"])
        out = []
        for c in sorted(set(case["cf"])):
            for m in case["metrics"]:
                wt = w if m in WEIGHTABLE else "none"
                out.append(f"boot.ciat {c} {proto.lst(case['cf'])} {self._mtok(case, m)} {proto.lst([self._gkey(case, i) for i in rows])} "
                           f"{proto.lst(case['yt'])} {proto.lst(case['yp'])} {proto.lst([F(pred[i]) for i in rows])} {wt} {itok} "
                           f"{proto.lst([F(q) for q in case['qs']])}")
        return out

    # ---------------------------------------------------------------- oracle
    def _oracle(self, case, idxs):
        """-> {(level, metric): {"keys": [...], stat: [per quantile], "bg": {key: [per quantile]}, "samples": [overall values]}}"""
        skip = case["cf"] is not None
        pred = case["score"] if case["call_score"] else case["yp"]
        qs = [F(q) for q in case["qs"]]
        out = {}
        for lev, rows in self._levels(case).items():
            rowset = set(rows)
            for m in case["metrics"]:
                frames = []
                for idx in idxs:
                    sub = [i for i in idx if i in rowset]
                    if not sub:
                        frames.append(None)
                        continue
                    wts = case["w"] if (case["w"] is not None and m in WEIGHTABLE) else [1] * len(case["yt"])
                    data = [(case["yt"][i], case["yp"][i], F(pred[i]), wts[i]) for i in sub]
                    frames.append(o_frame18(m, data, [self._gkey(case, i) for i in sub], case["const"]))
                keys = sorted({k for fr in frames if fr for k in fr["keys"]})
                res = {"keys": keys, "bg": {}, "samples": [None if fr is None else fr["overall"] for fr in frames]}
                for st in STATS:
                    col = [None if fr is None else fr[st] for fr in frames]
                    res[st] = [o_column(col, q, skip) for q in qs]
                for key in keys:
                    col = [None if (fr is None or key not in fr["vals"]) else fr["vals"][key] for fr in frames]
                    res["bg"][key] = [o_column(col, q, True) for q in qs]
                out[(lev, m)] = res
        return out

    # ---------------------------------------------------------------- judging
    @staticmethod
    def _near(c, want):
        if want is None:
            return c == "nan"
        return isinstance(c, float) and abs(c - float(want)) <= TOL * (1 + abs(float(want)))

    @staticmethod
    def _tok_near(c, tok):
        if tok == "nan":
            return c == "nan"
        try:
            q = proto.p_rat(tok)
        except Exception:  # noqa: BLE001
            return False
        return isinstance(c, float) and abs(c - float(q)) <= TOL * (1 + abs(float(q)))

    def _cell(self, case, flat, lev, key, m):
        """look a cell up in a flattened object; key None = overall-like object"""
        cform = case["form"] == "callable"
        if key is None:
            rk = lev if (case["cf"] is not None) else "-"
        else:
            gl = self._gkey_label(case, key)
            rk = gl if case["cf"] is None else f"{lev}|{gl}"
        row = flat["rows"].get(rk)
        if row is None:
            return None
        return row.get(m)

    def judge(self, case, o, mo):
        P = []
        if "crash" in o:
            return [Problem("correspondence", f"implementation crashed: {o}", "impl-total")]
        if "exc" in o:
            return [Problem("property", f"bootstrapped MetricFrame raised {o['exc']} on valid input ({o.get('detail', '')[:80]})",
                            "C18.accepts")]
        nq, B, n = len(case["qs"]), case["n_boot"], len(case["yt"])
        r1, r2, r3 = o["run1"], o["run2"], o["run3"]
        metrics = case["metrics"]
        cform = case["form"] == "callable"
        levels = self._levels(case)
        # ---- (a) list length, (b) type / columns / index like the point estimate ---------------------------
        for acc in ACCESSORS:
            ci = r1["ci"][acc]
            if not ci["is_list"] or len(ci["entries"]) != nq:
                P.append(Problem("property", f"{acc}: expected a list of {nq} entries, got {len(ci['entries'])}", "C18.ci_length"))
                continue
            pt = r1["point"][POINT_OF[acc]]
            for qi, e in enumerate(ci["entries"]):
                if e["t"] != pt["t"]:
                    P.append(Problem("property", f"{acc}[{qi}] has type {e['t']}, point estimate {pt['t']}", "C18.ci_type"))
                elif e["cols"] != pt["cols"]:
                    P.append(Problem("property", f"{acc}[{qi}] columns {e['cols']} vs point estimate {pt['cols']}", "C18.ci_columns"))
                elif e["names"] != pt["names"]:
                    P.append(Problem("property", f"{acc}[{qi}] index names {e['names']} vs {pt['names']}", "C18.ci_index"))
                elif not set(e["rows"]) <= set(pt["rows"]):
                    P.append(Problem("property", f"{acc}[{qi}] index {sorted(e['rows'])} not within point-estimate index {sorted(pt['rows'])}",
                                     "C18.ci_index"))
        if P:
            return P
        # ---- (d) same seed => identical ---------------------------------------------------------------------
        if r1["ci"] != r2["ci"]:
            P.append(Problem("property", "two runs with the same integer random_state give different *_ci results", "C18.same_seed"))
        # ---- exact recomputation from the replayed positions -----------------------------------------------------
        try:
            orc = {"s1": self._oracle(case, o["idx"]), "s2": self._oracle(case, o["idx2"])}
        except RuntimeError as e:
            return P + [Problem("harness", f"oracle: {e}")]
        model = {}
        if mo is not None:
            plan = self._plan(case, o["idx"], "s1") + self._plan(case, o["idx2"], "s2")
            for (d, _), tok in zip(plan, mo):
                model[d] = tok
            # ---- source-derived model == pinned model; lifted resampling plan == the property's resampling --------------
            n1 = len(self._plan(case, o["idx"], "s1"))
            extra = mo[len(plan):]
            ciat = extra[n1 + 1:]
            extra = extra[:n1 + 1]
            if case["cf"] is not None:
                # Lean's own split of the unsplit data (ciAt) == the per-level lines this harness built (same order: level, metric)
                if len(ciat) != n1 or any(a != b for a, b in zip(mo[:n1], ciat)):
                    P.append(Problem("harness", f"boot.ciat (per-level CI from the unsplit data) {ciat[:2]} != boot.ci on the split "
                                                f"rows {mo[:2]}"))
            if len(extra) != n1 + 1 or "bad-op" in extra:
                P.append(Problem("harness", f"driver rejected the source-derived lines: {extra[:3]}"))
            else:
                for (d, _), a, b in zip(plan[:n1], mo[:n1], extra[:n1]):
                    if a != b:
                        P.append(Problem("correspondence", f"{d}: *_ci computed from the quantile call / q order / alignment "
                                         f"LIFTED FROM THE SOURCE = {b[:160]} but the modelled computation (np.quantile / "
                                         f"np.nanquantile, linear, order as given) = {a[:160]}", "C18.src-ci-model"))
                        break
                pl = dict(kv.split("=", 1) for kv in extra[n1].split(" "))
                ridx = replay_plan(case["seed"], B, n, pl)
                if ridx != o["idx"] or pl.get("stream") != "1":
                    P.append(Problem("correspondence", f"resampling plan lifted from the source ({extra[n1]}) replays to "
                                     f"{str(ridx)[:120]}, the property's resampling (n rows with replacement, sample i seeded "
                                     f"by stream entry i) to {str(o['idx'])[:120]}", "C18.src_plan"))
        for tag, run in (("s1", r1), ("s2", r3)):
            for lev in levels:
                for m in metrics:
                    want = orc[tag][(lev, m)]
                    mparts = None
                    if mo is not None:
                        tok = model[(tag, lev, m)]
                        mparts = tok.split(" ")
                        if len(mparts) != 9:
                            P.append(Problem("harness", f"model {tag} {lev} {m}: {tok}"))
                            mparts = None
                        else:
                            mkeys = proto.p_list(mparts[0], int)
                            if mkeys != want["keys"]:
                                P.append(Problem("harness", f"model keys {mkeys} vs oracle {want['keys']}"))
                            mstat = {st: mparts[j].split(",") for st, j in zip(STATS, (1, 3, 4, 5, 6, 7, 8))}
                            mbg = [] if mparts[2] == "-" else [r.split(",") for r in mparts[2].split(";")]
                            for st in STATS:
                                for qi in range(nq):
                                    wv = want[st][qi]
                                    if (mstat[st][qi] == "nan") != (wv is None) or (wv is not None and proto.p_rat(mstat[st][qi]) != wv):
                                        P.append(Problem("harness", f"model {tag} {lev} {m} {st}[{qi}] = {mstat[st][qi]} vs oracle {wv}"))
                            for ki, key in enumerate(want["keys"]):
                                for qi in range(nq):
                                    wv = want["bg"][key][qi]
                                    mt = mbg[ki][qi] if ki < len(mbg) else "?"
                                    if (mt == "nan") != (wv is None) or (wv is not None and mt != "?" and proto.p_rat(mt) != wv):
                                        P.append(Problem("harness", f"model {tag} {lev} {m} by_group[{key}][{qi}] = {mt} vs oracle {wv}"))
                    accs = ACCESSORS if tag == "s1" else ("overall_ci", "by_group_ci")
                    for acc in accs:
                        entries = run["ci"][acc]["entries"]
                        if len(entries) != nq:
                            P.append(Problem("property", f"{acc} (second seed): {len(entries)} entries for {nq} quantiles", "C18.ci_length"))
                            continue
                        for qi in range(nq):
                            if acc == "by_group_ci":
                                # index: exactly the groups hit by some resample (rows that are NaN everywhere = product fill)
                                have = set()
                                prefix = "" if case["cf"] is None else f"{lev}|"
                                for rk, row in entries[qi]["rows"].items():
                                    if case["cf"] is not None and not rk.startswith(prefix):
                                        continue
                                    if row.get(m) != "nan":
                                        have.add(rk)
                                wantk = {prefix + self._gkey_label(case, k) for k in want["keys"]}
                                if have != wantk and not any(v is None for k in want["keys"] for v in want["bg"][k]):
                                    P.append(Problem("property", f"{acc}[{qi}] {m}: groups with a value {sorted(have)} but the resamples hit "
                                                                 f"{sorted(wantk)}", "C18.ci_shape"))
                                for key in want["keys"]:
                                    c = self._cell(case, entries[qi], lev, key, m)
                                    wv = want["bg"][key][qi]
                                    if c is None or not self._near(c, wv):
                                        P.append(Problem("property", f"{acc}[{qi}] {lev} group {self._gkey_label(case, key)} {m} = {c}, "
                                                                     f"recomputed from the resamples {wv}", "C18.ci_value"))
                                    if mparts is not None and c is not None:
                                        ki = want["keys"].index(key)
                                        if ki < len(mbg) and not self._tok_near(c, mbg[ki][qi]):
                                            P.append(Problem("correspondence", f"{acc}[{qi}] {lev} {key} {m} = {c} vs model {mbg[ki][qi]}",
                                                             "C18.ci-model"))
                            else:
                                st = STAT_OF[acc]
                                c = self._cell(case, entries[qi], lev, None, m)
                                wv = want[st][qi]
                                if c is None and case["cf"] is not None and all(s is None for s in want["samples"]):
                                    continue  # control level never drawn: absent from the union index
                                if c is None or not self._near(c, wv):
                                    P.append(Problem("property", f"{acc}[{qi}] {lev} {m} = {c}, recomputed from the resamples {wv}",
                                                     "C18.ci_value"))
                                if mparts is not None and c is not None and not self._tok_near(c, mstat[st][qi]):
                                    P.append(Problem("correspondence", f"{acc}[{qi}] {lev} {m} = {c} vs model {mstat[st][qi]}", "C18.ci-model"))
        # ---- (c) ordering in the quantile ----------------------------------------------------------------------------------
        for acc in ACCESSORS:
            entries = r1["ci"][acc]["entries"]
            for i in range(nq):
                for j in range(nq):
                    if case["qs"][i] <= case["qs"][j] and i != j:
                        for rk, row in entries[i]["rows"].items():
                            for col, a in row.items():
                                b = entries[j]["rows"].get(rk, {}).get(col)
                                if a == "nan" or b == "nan":
                                    if a != b:
                                        P.append(Problem("property", f"{acc} {rk} {col}: NaN at one quantile only ({a}, {b})", "C18.ci_order"))
                                elif isinstance(a, float) and isinstance(b, float) and a > b + ORDER_TOL * (1 + abs(b)):
                                    P.append(Problem("property", f"{acc} {rk} {col}: q={case['qs'][i]} gives {a} > q={case['qs'][j]} gives {b}",
                                                     "C18.ci_order"))
        # ---- (e) count is n, (f) constant metric ----------------------------------------------------------------------------
        if case["cf"] is None:
            for m in metrics:
                ov = [self._cell(case, e, "-", None, m) for e in r1["ci"]["overall_ci"]["entries"]]
                pt = self._cell(case, r1["point"]["overall"], "-", None, m)
                if m in ("count", "spy"):
                    if any(not (isinstance(v, float) and v == float(n)) for v in ov):
                        P.append(Problem("property", f"overall_ci of {m} is {ov}, every resample must have n={n} rows", "C18.count_is_n"))
                samples = orc["s1"][("-", m)]["samples"]
                if len(set(samples)) == 1 and isinstance(pt, float) and abs(pt - float(samples[0])) <= TOL:
                    # the metric is constant over the resamples and equals the point estimate
                    if any(not (isinstance(v, float) and abs(v - pt) <= TOL * (1 + abs(pt))) for v in ov):
                        P.append(Problem("property", f"{m} is constant ({pt}) over all resamples but overall_ci = {ov}", "C18.constant_metric"))
                if m == "const":
                    cv = float(F(case["const"]))
                    if any(not (isinstance(v, float) and abs(v - cv) <= TOL * (1 + abs(cv))) for v in ov):
                        P.append(Problem("property", f"constant metric {cv}: overall_ci = {ov}", "C18.constant_metric"))
                # ---- (h) positive width for wide pairs on varying samples
                if len(set(samples)) > 1:
                    for i in range(nq):
                        for j in range(nq):
                            qi, qj = F(case["qs"][i]), F(case["qs"][j])
                            if qi < qj and qi * (B - 1) < 1 and qj * (B - 1) > B - 2:
                                if not (isinstance(ov[i], float) and isinstance(ov[j], float) and ov[j] - ov[i] > 1e-12):
                                    P.append(Problem("property", f"{m}: resample values vary ({sorted(set(samples))[:3]}..) but overall_ci "
                                                                 f"width between q={case['qs'][i]} and q={case['qs'][j]} is {ov[i]}..{ov[j]}",
                                                     "C18.nonconstant_gives_width"))
        # ---- (i) spy: rows each resample really consisted of --------------------------------------------------------------------
        if "spy" in metrics:
            flat = [x for call in o["spy"] for x in call]
            if len(flat) != 2 * n * (B + 1):
                P.append(Problem("property", f"spy saw {len(flat)} row visits, expected 2*n*(n_boot+1) = {2 * n * (B + 1)}: some resample "
                                             f"does not have exactly n = {n} rows", "C18.resample_has_n_rows"))
            else:
                for b in range(B):
                    chunk = flat[2 * n * (b + 1): 2 * n * (b + 1) + n]
                    if any(not (0 <= x < n) for x in chunk):
                        P.append(Problem("property", f"resample {b} contains a row id outside the data: {chunk}", "C18.resample_has_n_rows"))
                    elif sorted(chunk) != sorted(o["idx"][b]) or (case["cf"] is None and chunk != o["idx"][b]):
                        P.append(Problem("correspondence", f"resample {b}: rows observed through the spy metric {chunk} differ from the replayed "
                                                           f"positions {o['idx'][b]}", "C18.replay"))
        return P

    def signature(self, case, o):
        n = len(case["yt"])
        tags = [f"n={n}", f"n_boot={case['n_boot']}", f"quantiles={len(case['qs'])}", f"form={case['form']}",
                "control_feature" if case["cf"] is not None else "no_control_feature",
                "two_sensitive_features" if case["sf2"] is not None else "one_sensitive_feature",
                "weights" if case["w"] is not None else "no_weights", f"groups={len(set(case['g']))}",
                f"sf={case['cont']['sf']}", f"y={case['cont']['y']}",
                "quantiles_sorted" if list(case["qs"]) == sorted(case["qs"]) else "quantiles_unsorted",
                "seed>=2^32" if case["seed"] >= 2 ** 32 else ("seed=0" if case["seed"] == 0 else "seed<2^32")]
        for m in case["metrics"]:
            tags.append(f"metric={m}")
        varying = False
        if "idx" in o:
            try:
                orc = self._oracle(case, o["idx"])
                varying = any(len({s for s in v["samples"] if s is not None}) > 1 for v in orc.values())
                tags.append("varying_samples" if varying else "constant_samples")
                if any(any(x is None for x in v["rb"] + v["ro"]) for v in orc.values()):
                    tags.append("nan_ratio_ci")
                full = {self._gkey(case, i) for i in range(n)}
                if any(set(v["keys"]) != {self._gkey(case, i) for i in self._levels(case)[lev]} for (lev, _), v in orc.items()):
                    tags.append("group_never_resampled")
                if o["idx"] != o["idx2"]:
                    tags.append("second_seed_differs")
                if any(len(set(idx)) < len(idx) for idx in o["idx"]):
                    tags.append("resample_has_duplicates")
            except Exception:  # noqa: BLE001
                tags.append("oracle_failed")
        else:
            tags.append("impl_raised")
        key = (tuple(case["yt"]), tuple(case["yp"]), tuple(case["score"]), tuple(case["g"]), case["gtype"], tuple(case["sf2"] or ()),
               tuple(case["cf"] or ()), tuple(case["w"] or ()), case["form"], tuple(case["metrics"]), case["const"], case["n_boot"],
               tuple(case["qs"]), case["seed"], tuple(sorted(case["cont"].items())))
        return key, (case["n_boot"] >= 2 and varying), tags
