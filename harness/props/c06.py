"""C06 — constraint moments measure exactly the documented parity violations."""
import itertools
import math
import re
from fractions import Fraction as F

import numpy as np
import pandas as pd

from .. import proto
from ..core import Check, Problem, register

# measured on the clean tree (review R1, 1500 generated cases): max |impl - exact| = 2.2e-16 over gamma / bound / losses /
# config values; 1e-12 is > 1000x that and the agreed floor for binary64 paths
TOL = 1e-12
MOMENTS = {
    "dp": "DemographicParity",
    "tpr": "TruePositiveRateParity",
    "fpr": "FalsePositiveRateParity",
    "eo": "EqualizedOdds",
    "erp": "ErrorRateParity",
}
RATIOS = ["1", "1/2", "4/5", "1/4"]
EPS = ["0", "1/100", "1/8", "1/4", "1/2"]
LOSS_RANGES = [("0", "1"), ("-1", "1"), ("0", "2"), ("1/4", "3/4")]
# the loss constructors validate nothing: equal and inverted bounds are accepted too (kind "loss" only)
LOSS_RANGES_ALL = LOSS_RANGES + [("1/2", "1/2"), ("1", "0"), ("3/4", "-1/4"), ("2", "-1")]


def fr(x):
    return None if x is None else F(x)


def fl(x):
    return None if x is None else float(F(x))


# ------------------------------------------------------------------ first-principles oracle
def spec_config(db, rb, slack):
    """(eps, ratio) or an error token, from the documented constructor contract"""
    if db is not None and rb is not None:
        return "err:bothbounds"
    if db is None and rb is None:
        return (F(1, 100), F(1))
    if db is not None:
        # "difference_bound and ratio_bound_slack must be non-negative" (fairlearn c80f72a, finding F24)
        return "err:negslack" if F(db) < 0 else (F(db), F(1))
    r = F(rb)
    if not (0 < r <= 1):
        return "err:ratio"
    return "err:negslack" if F(slack) < 0 else (F(slack), r)


def spec_event(moment, y, c):
    """event of a row per the property text: the label class the constraint conditions on, within the
    control stratum; None = the row belongs to no event"""
    if moment in ("dp", "erp"):
        base = "all"
    elif moment == "tpr":
        base = "label=1" if y == 1 else None
    elif moment == "fpr":
        base = "label=0" if y == 0 else None
    else:
        base = f"label={y}"
    if base is None:
        return None
    return base if c is None else f"control={c},{base}"


def spec_utility(moment, y, h):
    """u: the prediction, or the (expected) error indicator for error-rate parity"""
    if moment == "erp":
        return h if y == 0 else 1 - h
    return h


def spec_parity(moment, ys, gs, cs, hs, ratio):
    """dict key -> value for every (sign, event, group) that must exist, from first principles"""
    n = len(ys)
    ev = [spec_event(moment, ys[i], None if cs is None else cs[i]) for i in range(n)]
    u = [spec_utility(moment, ys[i], hs[i]) for i in range(n)]
    out = {}
    for e, g in sorted({(ev[i], gs[i]) for i in range(n) if ev[i] is not None}):
        in_e = [i for i in range(n) if ev[i] == e]
        in_eg = [i for i in in_e if gs[i] == g]
        m_e = sum(u[i] for i in in_e) / len(in_e)
        m_eg = sum(u[i] for i in in_eg) / len(in_eg)
        out[("+", e, g)] = ratio * m_eg - m_e
        out[("-", e, g)] = ratio * m_e - m_eg
    return out, ev


def spec_order(keys):
    return sorted(keys, key=lambda k: (0 if k[0] == "+" else 1, k[1], k[2]))


def clip(x, lo, hi):
    return min(hi, max(x, lo))


def spec_loss(loss, lo, hi, y, p):
    d = clip(y, lo, hi) - clip(p, lo, hi)
    return d * d if loss == "square" else abs(d)


def spec_bgl(loss, lo, hi, ys, gs, hs):
    out = {}
    for g in sorted(set(gs)):
        idx = [i for i in range(len(ys)) if gs[i] == g]
        out[g] = sum(spec_loss(loss, lo, hi, ys[i], hs[i]) for i in idx) / len(idx)
    return out


def spec_err(fp, fn, ys, hs):
    n = len(ys)
    return sum(fn * hs_y * (1 - h) + fp * (1 - hs_y) * h for hs_y, h in zip(ys, hs)) / n


def costs_ok(fp, fn):
    return fp >= 0 and fn >= 0 and fp + fn > 0


# ------------------------------------------------------------------ helpers shared with C07
def canon_event(e):
    """event labels are compared as tokens; a float-typed y renders 'label=1.0' (glue, not the property)"""
    return re.sub(r"label=([01])\.0\b", r"label=\1", str(e))


def make_inputs(case):
    """build the containers the case asks for; returns X, y, sf, cf"""
    n = len(case["y"])
    cont = case.get("container", "list")
    yv = [int(v) if F(v).denominator == 1 and case["kind"] != "bgl" else float(F(v)) for v in case["y"]]
    gv = list(case["g"])
    _GINV.clear()
    if case.get("gtype") == "int":
        gv = [int(v) for v in gv]
        if case.get("gmap"):
            gm = list(case["gmap"])
            gv = [gm[v] for v in gv]
            _GINV.update({str(gm[i]): str(i) for i in range(len(gm))})
    cv = None if case.get("c") is None else list(case["c"])
    if cv is not None and case.get("ctype") == "int":
        cv = [int(v) for v in cv]
    X = np.arange(n, dtype=float).reshape(-1, 1)
    if cont == "list":
        y, sf, cf = yv, gv, cv
    elif cont == "ndarray":
        y, sf, cf = np.array(yv), np.array(gv), None if cv is None else np.array(cv)
    elif cont == "ndarray_float":
        y, sf, cf = np.array(yv, dtype=float), np.array(gv), None if cv is None else np.array(cv)
    elif cont == "series":
        y, sf, cf = pd.Series(yv), pd.Series(gv), None if cv is None else pd.Series(cv)
        X = pd.DataFrame(X, columns=["f"])
    else:  # dataframe
        y, sf = pd.DataFrame({"y": yv}), pd.DataFrame({"s": gv})
        cf = None if cv is None else pd.DataFrame({"c": cv})
        X = pd.DataFrame(X, columns=["f"])
    return X, y, sf, cf


def make_predictor(hs, style):
    arr = np.array([float(F(v)) for v in hs])
    if style == "col":
        return lambda X: arr.reshape(-1, 1)
    if style == "series":
        return lambda X: pd.Series(arr)
    return lambda X: arr


# ------------------------------------------------------------------ is the translator tie intact?
# sha1 of the generated files the compiled Moments / Oracle model computes with, as lifted from the pinned tree.  A
# model-vs-oracle disagreement is a bug of this machinery (HARNESS-ERROR) only while these files have the pinned content AND
# no lifter behind a generated file of the property's import closure refused the tree under test (after a refusal the
# file on disk is STALE: the model still follows the old text).  Otherwise it is a broken tie: a correspondence problem.
PINNED_GENERATED = {
    "MomentsSrc.lean": "ed9507e5fbdbe06c76eba46fca14333b5491ac00",
    "LossRange.lean": "6be446ddd8548f558dee6434c1374eaafc3d488c",
    "ProjectLambdaSrc.lean": "da3c0da380a16d666e93922128cb2caf1fe1347b",
    "ValidationTables.lean": "26ec6e4d9b5ed5db709093f0a93035e3d9b202bd",
    "OracleSrc.lean": "906344d5dc3d031ce859d707a060656da682078b",
}
_TIE = {}


def tie_changes(module, pinned=None):
    """generated files whose text differs from the pinned one, plus lifter refusals that concern `module` (cached)"""
    key = module
    if key not in _TIE:
        import hashlib
        import os
        from .. import core, translate
        pinned = PINNED_GENERATED if pinned is None else pinned
        ch = []
        try:
            info = translate.run(core.REPO)
            deps = translate.generated_deps(module)
            for fn, msg in (info.get("_refused") or {}).items():
                if fn in deps or fn in pinned or fn.startswith("?"):
                    ch.append(f"{fn}: lifter refused ({str(msg)[:100]})")
        except Exception as e:  # noqa: BLE001  (a crashing lifter is a broken tie as well)
            ch.append(f"translator failed: {type(e).__name__}: {str(e)[:100]}")
        for fn, sha in pinned.items():
            try:
                with open(os.path.join(translate.GEN_DIR, fn), "rb") as f:
                    cur = hashlib.sha1(f.read()).hexdigest()
            except OSError:
                cur = None
            if cur != sha:
                ch.append(f"{fn}: generated text changed")
        _TIE[key] = ch
    return _TIE[key]


def demote_harness(probs, module, relation):
    """model-vs-oracle disagreements become correspondence problems (broken tie) once the tie is not intact"""
    if not any(p.kind == "harness" for p in probs):
        return probs
    ch = tie_changes(module)
    if not ch:
        return probs
    return [Problem("correspondence", p.msg + f"; the translator tie is broken: {ch[:3]}", relation) if p.kind == "harness" else p
            for p in probs]


# ------------------------------------------------------------------ a moment object may have a PREVIOUS LIFE
# Moment objects are re-loadable (`load_data` may be called again, and the mitigators do call it on user-supplied objects).
# With probability ~0.3 the object under test has first been loaded on an AUXILIARY data set of a different length and
# group set and queried (gamma, signed_weights, project_lambda, bound) before the `load_data` of the case's own data.
# Everything the checks assert is about the data loaded LAST, so the judges are unchanged; state that survives a reload
# (a cache that `load_data` does not clear, seeded change C07a) now produces a concrete failing input.
HISTORY_P = 0.3
NO_HISTORY_KINDS = ("cfg", "errcfg", "loss")


def gen_history(rng, case):
    n0 = len(case.get("y") or [])
    n = rng.choice([k for k in (3, 4, 5, 7, 9) if k != n0])
    groups = rng.choice([["p", "q"], ["p", "q", "r"], ["q", "zz"]])
    g = [groups[i % len(groups)] for i in range(n)]
    rng.shuffle(g)
    y = [str(i % 2) for i in range(n)]
    rng.shuffle(y)
    c = None
    if case.get("c") is not None:
        c = [rng.choice(["s", "t"]) for _ in range(n)]
    return {"kind": "reloaded", "y": y, "g": g, "c": c, "h": [str(F(rng.randint(0, 4), 4)) for _ in range(n)],
            "lam": [str(F(rng.randint(0, 6), 2)) for _ in range(12)]}


def with_history(gen, rng):
    """wrap a case generator: attach a previous life to ~30 % of the cases that load data into a moment"""
    for case in gen:
        if isinstance(case, dict) and case.get("kind") not in NO_HISTORY_KINDS and "history" not in case \
                and rng.random() < HISTORY_P:
            case = dict(case, history=gen_history(rng, case))
        yield case


def previous_life(obj, case):
    """run the previous life of `case` (if it has one) on the moment object `obj`; returns `obj`"""
    h = case.get("history") if isinstance(case, dict) else None
    if not h or h.get("kind") != "reloaded":
        return obj
    import inspect
    n = len(h["y"])
    X = np.arange(100, 100 + n, dtype=float).reshape(-1, 1)
    kw = {"sensitive_features": list(h["g"])}
    if h.get("c") is not None and "control_features" in inspect.signature(obj.load_data).parameters:
        kw["control_features"] = list(h["c"])
    obj.load_data(X, [int(v) for v in h["y"]], **kw)
    arr = np.array([float(F(v)) for v in h["h"]])
    obj.gamma(lambda X_: arr)
    idx = obj.index
    lam = pd.Series([float(F(h["lam"][i % len(h["lam"])])) for i in range(len(idx))], index=idx)
    if type(obj).__name__ == "ErrorRate":
        obj.signed_weights()
        obj.signed_weights(lam)
    else:
        obj.signed_weights(lam)
    if len(idx):
        try:
            obj.project_lambda(lam)
        except NotImplementedError:         # the abstract default of `Moment`
            pass
    try:
        obj.bound()
    except NotImplementedError:             # ErrorRate has no bound()
        pass
    except ValueError:                      # BoundedGroupLoss(upper_bound=None).bound(): "No Upper Bound" (documented)
        if getattr(obj, "upper_bound", 0) is not None:
            raise
    return obj


def history_tag(case):
    h = case.get("history") if isinstance(case, dict) else None
    return "history=reloaded" if h and h.get("kind") == "reloaded" else "history=fresh"


def make_moment(case):
    import fairlearn.reductions as red
    cls = getattr(red, MOMENTS[case["moment"]])
    kw = {}
    if case["db"] is not None:
        kw["difference_bound"] = fl(case["db"])
    if case["rb"] is not None:
        kw["ratio_bound"] = fl(case["rb"])
        kw["ratio_bound_slack"] = fl(case["slack"])
    return previous_life(cls(**kw), case)


_GINV = {}


def gl(x):
    """canonical name of a group label that came back from fairlearn (inverse of the case's `gmap`, if any)"""
    return _GINV.get(str(x), str(x))


def index_keys(index):
    return [[str(k[0]), canon_event(k[1]), gl(k[2])] for k in index]


def gen_dataset(rng, tier, moment=None):
    n = rng.choice([4, 5, 6, 6, 8, 8, 10, 12, 15, 20, 30])
    ng = rng.choice([2, 2, 3, 3, 4])
    gtype = rng.choice(["str", "str", "int"])
    gnames = ["a", "b", "c", "d"][:ng] if gtype == "str" else ["0", "1", "2", "3"][:ng]
    gw = [rng.choice([1, 1, 2, 3]) for _ in range(ng)]
    g = [rng.choices(gnames, gw)[0] for _ in range(n)]
    for i, name in enumerate(gnames):  # every group occurs (the quantifier speaks of 2..4 groups)
        if name not in g and i < n:
            g[rng.randrange(n)] = name
    if len(set(g)) < 2:
        g[0], g[1] = gnames[0], gnames[1]
    py = rng.choice([0.2, 0.5, 0.5, 0.8])
    y = [1 if rng.random() < py else 0 for _ in range(n)]
    c, ctype = None, "str"
    if rng.random() < 0.55:
        ns = rng.choice([1, 2, 2, 3])
        ctype = rng.choice(["str", "str", "int"])
        cn = ["x", "y", "z"][:ns] if ctype == "str" else ["7", "8", "9"][:ns]
        c = [rng.choice(cn) for _ in range(n)]
    if rng.random() < 0.5:
        h = [str(rng.randint(0, 1)) for _ in range(n)]
    else:
        h = [str(F(rng.randint(0, 8), 8)) for _ in range(n)]
    gmap = None
    if gtype == "int" and rng.random() < 0.5:
        # integer group labels whose STRING order differs from their numeric order (e.g. 2, 9, 10): pandas keeps the
        # numeric order, a stringifying shortcut does not.  The case keeps the canonical names "0".."3"; `gmap` is the
        # increasing table canonical -> real label, applied in make_inputs and inverted on every label that comes back
        gmap = rng.choice([[-3, 2, 9, 10], [2, 9, 10, 11], [5, 12, 100, 1000], [-2, -1, 3, 20]])[:ng]
    return {"gmap": gmap, "y": [str(v) for v in y], "g": g, "c": c, "h": h, "gtype": gtype, "ctype": ctype,
            "container": rng.choice(["list", "ndarray", "ndarray", "ndarray_float", "series", "dataframe"]),
            "pstyle": rng.choice(["flat", "flat", "col", "series"])}


def gen_bounds(rng):
    r = rng.random()
    if r < 0.4:
        return {"db": rng.choice(EPS), "rb": None, "slack": "0"}
    if r < 0.9:
        return {"db": None, "rb": rng.choice(RATIOS), "slack": rng.choice(EPS)}
    return {"db": None, "rb": None, "slack": "0"}


def strata_stats(case):
    """(some stratum lacks a group, some stratum lacks a label)"""
    cs = case["c"] if case.get("c") is not None else ["-"] * len(case["y"])
    allg = set(case["g"])
    miss_g = miss_l = False
    for s in set(cs):
        idx = [i for i in range(len(cs)) if cs[i] == s]
        if {case["g"][i] for i in idx} != allg:
            miss_g = True
        if len({case["y"][i] for i in idx}) < 2:
            miss_l = True
    return miss_g, miss_l


def close(a, b, tol=TOL):
    return a is not None and not (isinstance(a, float) and math.isnan(a)) and abs(a - float(b)) <= tol


@register
class CHECK(Check):
    pid = "C06"
    module = "FairModel.Properties.C06X"  # base file + composition theorems (same namespace)
    cross = (("grid", {"X1.constraint-vs-metric", "X1.gamma-dictionary"}),)
    technique = ("Lean 4 theorems over the Moments model (index, U, gamma, bound, loss moments; U/gamma arithmetic lifted "
                 "from the Python source by the translator) + compiled-driver correspondence with Moment.load_data/"
                 "index/gamma/bound")
    level_text = ("Theorems (all datasets, all event assignments, any ratio, no size bound): the index has exactly one + "
                  "and one - entry per observed (event, group) pair; gamma+ = r*mean_{e,g}(u) - mean_e(u), gamma- = "
                  "r*mean_e(u) - mean_{e,g}(u); rows without event are inert; bound() is the slack on every entry; "
                  "BoundedGroupLoss/ErrorRate closed forms; for r=1 the + entries equal BaseMetrics' group rate minus "
                  "overall rate; the P(g|e)-weighted sum of an event's + (and -) entries is (r-1)*mean_e(u); gamma is "
                  "affine in the predictor (gamma of any mixture with weights summing to 1 is the mixture of the gammas); "
                  "a constant predictor c has (r-1)*c in every entry; the clipped losses lie in the loss object's own "
                  "[min, max] for ALL bounds on numpy arrays and on pandas Series (two lifted clip semantics, finding F21 "
                  "witness), and so does every BoundedGroupLoss.gamma entry; gamma_exact (whole first sentence in one statement), "
                  "index_denominators_pos (no x/0 on an index entry), rate instances for TPR/FPR/EO/DP/ERP with and without "
                  "strata against BaseMetrics, C06X instances discharging the selector hypotheses for the real event rules. Tie: translator-lifted expressions "
                  "(Generated/MomentsSrc.lean, Generated/LossRange.lean) + Moment / loss objects vs the compiled Lean "
                  "model on generated datasets; independent Fraction oracle decides violations.")
    design_ref = "DESIGN.md section 4, C06"
    quick_cases = 2000
    thorough_cases = 30000
    quick_budget_s = 120
    thorough_budget_s = 900
    workers_thorough = 4
    rule = ("binary datasets of 4..30 rows, 2..4 groups (str or int valued; every group occurs), slack >= 0, optional control feature with 1..3 strata, "
            "the five parity moments x {difference_bound, ratio_bound in {1,1/2,4/5,1/4} with slack, default bound}, "
            "hard or dyadic soft predictions in [0,1], containers list/ndarray/float ndarray/Series/DataFrame, predictor "
            "output (n,), (n,1) or Series; plus BoundedGroupLoss/MeanLoss with Square/Absolute/ZeroOne loss on dyadic "
            "labels, the loss objects themselves (eval on ndarrays and on Series, min/max attributes, gamma) with ordered, "
            "equal and inverted bounds, ErrorRate with costs, and malformed configurations (both bounds, ratio outside (0,1], bad costs, "
            "non-binary labels) that must be rejected. distinct = distinct full case; non-trivial = at least one "
            "(event, group) pair observed / a loss or cost case with >= 2 rows; thorough additionally enumerates all "
            "label/group/stratum assignments of 4 rows for TPR/FPR/EO")
    explanation = ("theorems over Model/Moments.lean (arithmetic lifted from the source into Generated/MomentsSrc.lean); "
                   "correspondence: index (incl. order), gamma, bound of the loaded Moment vs the compiled driver within "
                   "1e-12 absolute; oracle: per-(event, group) means in Fractions; for ratio 1 and hard predictions the + entries are "
                   "also compared with MetricFrame(by_group - overall) of the matching rate computed by fairlearn.metrics")
    trusted = ("pandas groupby/concat ordering is modelled as 'sorted observed pairs, + block then - block' (checked by "
               "correspondence)",
               "event labels are compared as canonical tokens: a float-typed y renders 'label=1.0', mapped to 'label=1'",
               "int-valued groups / control values are mapped to their str() (order-preserving single digits)")
    assumptions = ("labels are 0/1 for the parity moments and ErrorRate", "predictions lie in [0,1] for ErrorRate",
                   "control feature values are non-null")

    # ------------------------------------------------------------------ generation
    def generate(self, rng, tier):
        return with_history(self._generate(rng, tier), rng)

    def _generate(self, rng, tier):
        while True:
            r = rng.random()
            if r < 0.76:
                case = {"kind": "parity", "moment": rng.choice(["dp", "tpr", "tpr", "fpr", "fpr", "eo", "eo", "erp"])}
                case.update(gen_dataset(rng, tier))
                case.update(gen_bounds(rng))
                yield case
            elif r < 0.80:
                n = rng.choice([1, 2, 3, 5, 8])
                lo, hi = rng.choice(LOSS_RANGES_ALL)
                loss = rng.choice(["square", "absolute", "zeroone"])
                if loss == "zeroone":
                    lo, hi = "0", "1"
                ng = rng.choice([1, 2])
                yield {"kind": "loss", "loss": loss, "lo": lo, "hi": hi,
                       "y": [str(F(rng.randint(-12, 20), 8)) for _ in range(n)],
                       "h": [str(F(rng.randint(-12, 20), 8)) for _ in range(n)],
                       "g": [rng.choice(["a", "b"][:ng]) for _ in range(n)]}
            elif r < 0.86:
                n = rng.choice([2, 3, 4, 6, 8, 12, 20])
                lo, hi = rng.choice(LOSS_RANGES)
                loss = rng.choice(["square", "absolute", "zeroone"])
                if loss == "zeroone":
                    lo, hi = "0", "1"
                ng = rng.choice([1, 2, 3])
                yield {"kind": "bgl", "loss": loss, "lo": lo, "hi": hi,
                       "y": [str(F(rng.randint(-8, 16), 8)) for _ in range(n)],
                       "g": [rng.choice(["a", "b", "c"][:ng]) for _ in range(n)],
                       "h": [str(F(rng.randint(-8, 16), 8)) for _ in range(n)],
                       "ub": rng.choice([None, "1/4", "1/2"]),
                       "container": rng.choice(["list", "ndarray", "series"])}
            elif r < 0.94:
                n = rng.choice([1, 2, 3, 4, 6, 8, 12])
                hard = rng.random() < 0.5
                yield {"kind": "err", "fp": str(F(rng.randint(0, 8), 4)), "fn": str(F(rng.randint(0, 8), 4)),
                       "costs": rng.choice(["given", "given", "default"]),
                       "y": [str(rng.randint(0, 1)) for _ in range(n)],
                       "g": [rng.choice(["a", "b"]) for _ in range(n)],
                       "h": [str(rng.randint(0, 1)) if hard else str(F(rng.randint(0, 8), 8)) for _ in range(n)],
                       "container": rng.choice(["list", "ndarray", "series"])}
            else:
                k = rng.random()
                if k < 0.35:
                    yield {"kind": "cfg", "moment": rng.choice(list(MOMENTS)), "db": rng.choice(EPS),
                           "rb": rng.choice(RATIOS), "slack": "0"}
                elif k < 0.5:
                    # the constructor branches one by one (lifted into Moments.mkConfig): difference bound alone incl. a
                    # negative one, ratio bound with a negative / zero / positive slack, neither
                    yield {"kind": "cfg", "moment": rng.choice(list(MOMENTS)),
                           "db": rng.choice(EPS + ["-1/8", "-1", "-1/1024"]), "rb": None, "slack": rng.choice(["0", "-1/4", "1/8"])}
                elif k < 0.7:
                    yield {"kind": "cfg", "moment": rng.choice(list(MOMENTS)), "db": None,
                           "rb": rng.choice(["0", "-1/2", "3/2", "2", "1", "1/8", None]),
                           "slack": rng.choice(EPS + ["-1/8", "-1/1024"])}
                elif k < 0.85:
                    yield {"kind": "errcfg", "fp": rng.choice(["-1", "0", "1"]), "fn": rng.choice(["-1/2", "0", "2"]),
                           "shape": rng.choice(["ok", "ok", "missing_key", "extra_key"])}
                else:
                    n = rng.choice([3, 4, 5])
                    y = [str(rng.randint(0, 1)) for _ in range(n)]
                    y[rng.randrange(n)] = rng.choice(["2", "-1"])
                    yield {"kind": "badlabels", "moment": rng.choice(list(MOMENTS)), "y": y,
                           "g": [rng.choice(["a", "b"]) for _ in range(n)]}

    def exhaustive(self, tier):
        # the loss objects on a grid of bounds (ordered, equal, inverted) x labels x predictions, both containers
        vals = ["-1/2", "0", "1/4", "1/2", "1", "3/2"]
        for loss in ("square", "absolute"):
            for lo in ("-1/2", "0", "1/2", "1"):
                for hi in ("-1/2", "0", "1/2", "1"):
                    yield {"kind": "loss", "loss": loss, "lo": lo, "hi": hi,
                           "y": [a for a in vals for _ in vals], "h": [b for _ in vals for b in vals],
                           "g": ["a" if (i // 6) % 2 == 0 else "b" for i in range(36)]}
        yield {"kind": "loss", "loss": "zeroone", "lo": "0", "hi": "1", "y": [a for a in vals for _ in vals],
               "h": [b for _ in vals for b in vals], "g": ["a"] * 18 + ["b"] * 18}
        for moment in ("tpr", "fpr", "eo"):
            for y in itertools.product("01", repeat=4):
                for g in itertools.product("ab", repeat=4):
                    if len(set(g)) < 2:
                        continue
                    for c in (None,) + tuple(itertools.product("xy", repeat=4)):
                        yield {"kind": "parity", "moment": moment, "y": list(y), "g": list(g),
                               "c": None if c is None else list(c), "h": ["1", "0", "1/2", "1"], "gtype": "str",
                               "ctype": "str", "container": "list", "pstyle": "flat", "db": None, "rb": "1/2",
                               "slack": "0"}

    def shrink(self, case):
        if case["kind"] not in ("parity", "bgl", "err", "loss"):
            return
        n = len(case["y"])
        for i in range(n):
            if n > (2 if case["kind"] == "parity" else 1):   # one row is squeezed to 0-d by the input validation
                c = dict(case)
                for k in ("y", "g", "h", "c"):
                    if case.get(k) is not None:
                        c[k] = case[k][:i] + case[k][i + 1:]
                yield c
        if case["kind"] == "parity":
            if case.get("c") is not None:
                yield dict(case, c=None)
                if len(set(case["c"])) > 1:
                    yield dict(case, c=[case["c"][0]] * n)
            if case.get("container") != "list" or case.get("pstyle") != "flat":
                yield dict(case, container="list", pstyle="flat")
            if case.get("gtype") == "int":
                yield dict(case, gtype="str", gmap=None, g=["abcd"[int(v)] for v in case["g"]])
            if case["rb"] is not None and case["rb"] != "1":
                yield dict(case, rb="1")
            if any(F(v).denominator != 1 for v in case["h"]):
                yield dict(case, h=[str(int(F(v) >= F(1, 2))) for v in case["h"]])

    # ------------------------------------------------------------------ implementation
    def impl(self, case):
        import fairlearn.reductions as red
        kind = case["kind"]
        if kind == "cfg":
            try:
                m = make_moment(case)
                return {"cfg": ["ok", float(m.eps), float(m.ratio)]}
            except ValueError:
                return {"cfg": ["exc", "ValueError"]}
        if kind == "errcfg":
            costs = {"fp": fl(case["fp"]), "fn": fl(case["fn"])}
            if case["shape"] == "missing_key":
                costs.pop("fn")
            elif case["shape"] == "extra_key":
                costs["tp"] = 1.0
            try:
                red.ErrorRate(costs=costs)
                return {"errcfg": ["ok"]}
            except ValueError:
                return {"errcfg": ["exc", "ValueError"]}
        if kind == "loss":
            lo, hi = fl(case["lo"]), fl(case["hi"])
            loss = {"square": lambda: red.SquareLoss(lo, hi), "absolute": lambda: red.AbsoluteLoss(lo, hi),
                    "zeroone": lambda: red.ZeroOneLoss()}[case["loss"]]()
            ya = np.array([float(F(v)) for v in case["y"]])
            pa = np.array([float(F(v)) for v in case["h"]])
            out = {"min": float(loss.min), "max": float(loss.max), "min_val": float(loss.min_val),
                   "max_val": float(loss.max_val),
                   "arr": [float(v) for v in np.asarray(loss.eval(ya, pa)).reshape(-1)],
                   "ser": [float(v) for v in np.asarray(loss.eval(pd.Series(ya), pd.Series(pa))).reshape(-1)]}
            if len(case["y"]) >= 2:     # one row is squeezed to 0-d by the input validation
                m = previous_life(red.BoundedGroupLoss(loss, upper_bound=0.5), case)
                X = pd.DataFrame({"x": list(range(len(ya)))})
                m.load_data(X, pd.Series(ya), sensitive_features=pd.Series(case["g"]))
                gam = m.gamma(lambda X: pa)
                out["gamma_index"] = [str(k) for k in gam.index]
                out["gamma"] = [float(v) for v in gam.values]
            return out
        if kind == "badlabels":
            m = getattr(red, MOMENTS[case["moment"]])()
            n = len(case["y"])
            try:
                m.load_data(np.zeros((n, 1)), [int(v) for v in case["y"]], sensitive_features=list(case["g"]))
                return {"load": ["ok"]}
            except ValueError:
                return {"load": ["exc", "ValueError"]}
        X, y, sf, cf = make_inputs(case)
        if kind == "parity":
            try:
                m = make_moment(case)
            except ValueError:
                return {"cfg": ["exc", "ValueError"]}
            out = {"cfg": ["ok", float(m.eps), float(m.ratio)]}
            if cf is None:
                m.load_data(X, y, sensitive_features=sf)
            else:
                m.load_data(X, y, sensitive_features=sf, control_features=cf)
            out["index"] = index_keys(m.index)
            gam = m.gamma(make_predictor(case["h"], case.get("pstyle", "flat")))
            out["gamma_index"] = index_keys(gam.index)
            out["gamma"] = [float(v) for v in gam.values]
            b = m.bound()
            out["bound_index"] = index_keys(b.index)
            out["bound"] = [float(v) for v in b.values]
            out["metricframe"] = self._metricframe(case)
            return out
        if kind == "bgl":
            lo, hi = fl(case["lo"]), fl(case["hi"])
            loss = {"square": lambda: red.SquareLoss(lo, hi), "absolute": lambda: red.AbsoluteLoss(lo, hi),
                    "zeroone": lambda: red.ZeroOneLoss()}[case["loss"]]()
            m = previous_life(red.BoundedGroupLoss(loss, upper_bound=fl(case["ub"])), case)
            m.load_data(X, y, sensitive_features=sf)
            pred = make_predictor(case["h"], "flat")
            gam = m.gamma(pred)
            out = {"index": [gl(k) for k in m.index], "gamma_index": [gl(k) for k in gam.index],
                   "gamma": [float(v) for v in gam.values]}
            try:
                b = m.bound()
                out["bound"] = ["ok", [gl(k) for k in b.index], [float(v) for v in b.values]]
            except ValueError:
                out["bound"] = ["exc", "ValueError"]
            obj = m.default_objective()
            obj.load_data(X, y, sensitive_features=sf)
            og = obj.gamma(pred)
            out["mean_index"] = [str(k) for k in og.index]
            out["mean_gamma"] = [float(v) for v in og.values]
            return out
        if kind == "err":
            if case["costs"] == "default":
                m = previous_life(red.ErrorRate(), case)
            else:
                try:
                    m = previous_life(red.ErrorRate(costs={"fp": fl(case["fp"]), "fn": fl(case["fn"])}), case)
                except ValueError:
                    return {"cfg": ["exc", "ValueError"]}
            m.load_data(X, y, sensitive_features=sf)
            gam = m.gamma(make_predictor(case["h"], "flat"))
            return {"cfg": ["ok"], "index": [str(k) for k in m.index], "gamma_index": [str(k) for k in gam.index],
                    "gamma": [float(v) for v in gam.values]}
        raise ValueError(kind)

    def _metricframe(self, case):
        """by_group - overall of the matching rate, computed by fairlearn.metrics (ratio 1, hard predictions)"""
        if any(F(v).denominator != 1 for v in case["h"]):
            return None
        import fairlearn.metrics as fm
        from sklearn.metrics import zero_one_loss
        ys = np.array([int(v) for v in case["y"]])
        hs = np.array([int(v) for v in case["h"]])
        gs = np.array([str(v) for v in case["g"]])
        cs = None if case["c"] is None else np.array([str(v) for v in case["c"]])
        fns = {"dp": {"all": fm.selection_rate}, "tpr": {"label=1": fm.true_positive_rate},
               "fpr": {"label=0": fm.false_positive_rate},
               "eo": {"label=1": fm.true_positive_rate, "label=0": fm.false_positive_rate},
               "erp": {"all": zero_one_loss}}[case["moment"]]
        out = []
        try:
            for base, fn in sorted(fns.items()):
                kw = {} if cs is None else {"control_features": cs}
                mf = fm.MetricFrame(metrics=fn, y_true=ys, y_pred=hs, sensitive_features=gs, **kw)
                bg, ov = mf.by_group, mf.overall
                for key, v in bg.items():
                    if cs is None:
                        e, g, o = base, str(key), float(ov)
                    else:
                        e, g, o = f"control={key[0]},{base}", str(key[1]), float(ov[key[0]])
                    out.append([e, g, float(v) - o])
        except Exception as e:  # noqa: BLE001  MetricFrame is not the subject here; an error is recorded, not judged
            return ["exc", type(e).__name__]
        return out

    # ------------------------------------------------------------------ model lines
    def _plan(self, case):
        kind = case["kind"]
        if kind in ("cfg", "parity"):
            plan = [("cfg", f"mom.cfg {case['db'] or 'none'} {case['rb'] or 'none'} {case['slack']}")]
            if kind == "cfg":
                return plan
            cfg = spec_config(case["db"], case["rb"], case["slack"])
            if isinstance(cfg, str):
                return plan
            eps, ratio = cfg
            data = f"{proto.lst(case['y'])} {proto.strs(case['g'])} {'none' if case['c'] is None else proto.strs(case['c'])}"
            modes = ["spec"]
            if case["moment"] in ("tpr", "fpr") and case["c"] is not None:
                modes.append("coded")
            for mode in modes:
                plan.append((f"index.{mode}", f"mom.index {case['moment']} {mode} {data}"))
                plan.append((f"gamma.{mode}", f"mom.gamma {case['moment']} {mode} {proto.rat(ratio)} {data} "
                                               f"{proto.lst([F(v) for v in case['h']])}"))
                plan.append((f"bound.{mode}", f"mom.bound {case['moment']} {mode} {proto.rat(eps)} {data}"))
            return plan
        if kind == "errcfg":
            return [("costs", f"mom.err.costs {case['fp']} {case['fn']}")]
        if kind == "loss":
            ys, hs = proto.lst([F(v) for v in case["y"]]), proto.lst([F(v) for v in case["h"]])
            pre = f"{case['loss']} {case['lo']} {case['hi']}"
            plan = [("range", f"mom.loss.range {pre}"), ("arr", f"mom.loss.eval {pre} arr {ys} {hs}"),
                    ("ser", f"mom.loss.eval {pre} ser {ys} {hs}")]
            if len(case["y"]) >= 2:
                plan.append(("gamma", f"mom.bgl.gamma {pre} {ys} {proto.strs(case['g'])} {hs}"))
            return plan
        if kind == "bgl":
            ys, gs, hs = proto.lst([F(v) for v in case["y"]]), proto.strs(case["g"]), proto.lst([F(v) for v in case["h"]])
            return [("index", f"mom.bgl.index {gs}"),
                    ("gamma", f"mom.bgl.gamma {case['loss']} {case['lo']} {case['hi']} {ys} {gs} {hs}"),
                    ("mean", f"mom.bgl.gamma {case['loss']} {case['lo']} {case['hi']} {ys} "
                             f"{proto.strs(['all'] * len(case['y']))} {hs}")]
        if kind == "err":
            fp, fn = (case["fp"], case["fn"]) if case["costs"] == "given" else ("1", "1")
            return [("costs", f"mom.err.costs {fp} {fn}"),
                    ("gamma", f"mom.err.gamma {fp} {fn} {proto.lst([F(v) for v in case['y']])} "
                              f"{proto.lst([F(v) for v in case['h']])}")]
        return []

    def lines(self, case, impl_out):
        return [ln for _, ln in self._plan(case)]

    @staticmethod
    def _p_keys(tok):
        if tok == "-":
            return []
        out = []
        for t in tok.split(","):
            s, e, g = t.split(":")
            out.append(["+" if s == "P" else "-", proto.p_s(e), proto.p_s(g)])
        return out

    # ------------------------------------------------------------------ judging
    def judge(self, case, o, mo):
        if "crash" in o:
            return [Problem("correspondence", f"implementation crashed: {o}", "impl-total")]
        model = None
        if mo is not None:
            model = {tag: out for (tag, _), out in zip(self._plan(case), mo)}
            bad = [t for t, v in model.items() if v == "bad-op"]
            if bad:
                return demote_harness([Problem("harness", f"driver rejected lines {bad}")], self.module,
                                      "C06.generated-model-vs-spec")
        kind = case["kind"]
        return demote_harness(getattr(self, "_judge_" + kind)(case, o, model), self.module, "C06.generated-model-vs-spec")

    def _judge_cfg(self, case, o, model):
        probs = []
        want = spec_config(case["db"], case["rb"], case["slack"])
        got = o["cfg"]
        if isinstance(want, str):
            if got[0] != "exc":
                probs.append(Problem("property", f"configuration must be rejected ({want}) but was accepted: {got}",
                                     "C06.config_cases"))
        else:
            if got[0] == "exc":
                probs.append(Problem("property", f"valid configuration rejected: {got}", "C06.config_cases"))
            elif not (close(got[1], want[0]) and close(got[2], want[1])):
                probs.append(Problem("property", f"(eps, ratio) = {got[1:]}, configured {want}", "C06.config_cases"))
        if model is not None and not probs:
            ms = model["cfg"]
            exp = want if isinstance(want, str) else f"ok {proto.rat(want[0])} {proto.rat(want[1])}"
            if ms != exp:
                probs.append(Problem("harness", f"cfg: model {ms} vs oracle {exp}"))
        return probs

    def _judge_errcfg(self, case, o, model):
        probs = []
        ok = case["shape"] == "ok" and costs_ok(F(case["fp"]), F(case["fn"]))
        got = o["errcfg"]
        if ok and got[0] != "ok":
            probs.append(Problem("property", f"valid costs rejected: {got}", "C06.costs"))
        if not ok and got[0] == "ok":
            probs.append(Problem("property", "invalid costs accepted", "C06.costs"))
        if model is not None and not probs and case["shape"] == "ok":
            if model["costs"] != ("1" if ok else "0"):
                probs.append(Problem("harness", f"costs: model {model['costs']} vs oracle {ok}"))
        return probs

    def _judge_badlabels(self, case, o, model):
        if o["load"][0] != "exc":
            return [Problem("property", "non-binary labels were accepted by load_data", "C06.binary_labels")]
        return []

    def _judge_parity(self, case, o, model):
        probs = self._judge_cfg(case, o, model)
        cfg = spec_config(case["db"], case["rb"], case["slack"])
        if isinstance(cfg, str) or o["cfg"][0] == "exc":
            return probs
        eps, ratio = cfg
        ys = [int(v) for v in case["y"]]
        hs = [F(v) for v in case["h"]]
        gs = [str(v) for v in case["g"]]
        cs = None if case["c"] is None else [str(v) for v in case["c"]]
        want, ev = spec_parity(case["moment"], ys, gs, cs, hs, ratio)
        want_order = spec_order(want.keys())
        got_keys = [tuple(k) for k in o["index"]]
        # ---- the index (property: exactly one + and one - entry per observed pair, nothing else)
        extra = [k for k in got_keys if k not in want]
        missing = [k for k in want_order if k not in got_keys]
        dup = sorted({k for k in got_keys if got_keys.count(k) > 1})
        f3 = False
        if extra:
            # is it exactly the F3 shape?  (tpr/fpr + control features: events 'control=c,nan' for rows outside the class)
            nan_ev = {(s, f"control={cs[i]},nan", gs[i]) for i in range(len(ys)) if ev[i] is None for s in "+-"} \
                if cs is not None and case["moment"] in ("tpr", "fpr") else set()
            f3 = bool(nan_ev) and set(extra) == nan_ev and not missing and not dup
            rows = sorted({i for i in range(len(ys)) if ev[i] is None and any(k[1:] == (f"control={cs[i]},nan", gs[i])
                                                                              for k in extra)}) if f3 else []
            probs.append(Problem(
                "property",
                f"index contains {len(extra)} constraint(s) for rows that belong to no event: {extra[:4]}"
                + (f" (rows {rows[:6]} lie outside the conditioned label class)" if f3 else ""),
                "C06.index_exact.F3" if f3 else "C06.index_exact"))
        if missing:
            probs.append(Problem("property", f"index lacks constraints for observed pairs: {missing[:4]}", "C06.index_exact"))
        if dup:
            probs.append(Problem("property", f"duplicate constraints: {dup[:4]}", "C06.index_nodup"))
        if o["gamma_index"] != o["index"] or o["bound_index"] != o["index"]:
            probs.append(Problem("property", "gamma()/bound() are not indexed by Moment.index", "C06.gamma_entries"))
        if not extra and not missing and not dup and got_keys != want_order:
            probs.append(Problem("correspondence", f"index order {got_keys[:4]}.. differs from sorted +/- blocks",
                                 "Moments.index order"))
        # ---- gamma and bound on every entry the property speaks about
        gam = dict(zip(got_keys, o["gamma"]))
        bnd = dict(zip(got_keys, o["bound"]))
        for k in want_order:
            if k in gam and not close(gam[k], want[k]):
                rel = "C06.gamma_plus" if k[0] == "+" else "C06.gamma_minus"
                probs.append(Problem("property", f"gamma{list(k)} = {gam[k]!r}, documented value {want[k]} "
                                                 f"(ratio {ratio})", rel))
                break
        for k in got_keys:
            if not close(bnd[k], eps):
                probs.append(Problem("property", f"bound{list(k)} = {bnd[k]!r}, configured slack {eps}", "C06.bound_const"))
                break
        # ---- ratio 1: + entries coincide with MetricFrame by_group - overall
        mf = o.get("metricframe")
        if ratio == 1 and isinstance(mf, list) and (not mf or mf[0] != "exc"):
            for e, g, v in mf:
                k = ("+", e, g)
                if k in want and k in gam and not math.isnan(v) and abs(gam[k] - v) > TOL:
                    probs.append(Problem("property", f"gamma{list(k)} = {gam[k]!r} but MetricFrame by_group - overall = {v!r}",
                                         "C06.gamma_plus_eq_rate"))
                    break
        # ---- model
        if model is not None:
            probs.extend(self._model_parity(case, o, model, want, want_order, eps, f3, bool(probs)))
        return probs

    def _model_parity(self, case, o, model, want, want_order, eps, f3, impl_bad):
        probs = []
        mkeys = [tuple(k) for k in self._p_keys(model["index.spec"])]
        mg = proto.p_list(model["gamma.spec"])
        mb = proto.p_list(model["bound.spec"])
        model_ok = (mkeys == want_order and len(mg) == len(mkeys) and all(mg[i] == want[k] for i, k in enumerate(mkeys))
                    and mb == [eps] * len(mkeys))
        if not model_ok and not impl_bad:
            probs.append(Problem("harness", f"model (spec) {mkeys[:3]} {mg[:3]} {mb[:2]} differs from the oracle "
                                            f"{want_order[:3]} {[want[k] for k in want_order[:3]]}"))
        if f3 and "index.coded" in model:
            # the deviation must be *exactly* what the as-coded event rule predicts, else it is not (only) F3
            ck = [tuple(k) for k in self._p_keys(model["index.coded"])]
            cg = proto.p_list(model["gamma.coded"])
            got_keys = [tuple(k) for k in o["index"]]
            if ck != got_keys or any(not close(a, b) for a, b in zip(o["gamma"], cg)):
                probs.append(Problem("correspondence", "index/gamma differ from both the documented and the as-coded event rule",
                                     "Moments.eventOfAsCoded"))
        return probs

    def _judge_bgl(self, case, o, model):
        probs = []
        ys, hs = [F(v) for v in case["y"]], [F(v) for v in case["h"]]
        lo, hi = F(case["lo"]), F(case["hi"])
        loss = "square" if case["loss"] == "square" else "absolute"
        want = spec_bgl(loss, lo, hi, ys, case["g"], hs)
        if o["index"] != sorted(want) or o["gamma_index"] != o["index"]:
            probs.append(Problem("property", f"index {o['index']} is not the set of groups {sorted(want)}", "C06.bgl_gamma"))
        else:
            for g, v in zip(o["index"], o["gamma"]):
                if not close(v, want[g]):
                    probs.append(Problem("property", f"BoundedGroupLoss.gamma[{g}] = {v!r}, mean clipped loss {want[g]}",
                                         "C06.bgl_gamma"))
                    break
        mean = sum(spec_loss(loss, lo, hi, y, h) for y, h in zip(ys, hs)) / len(ys)
        if o["mean_index"] != ["all"] or not close(o["mean_gamma"][0], mean):
            probs.append(Problem("property", f"MeanLoss.gamma = {o['mean_gamma']}, mean loss {mean}", "C06.bgl_gamma"))
        if case["ub"] is None:
            if o["bound"][0] != "exc":
                probs.append(Problem("property", "bound() without upper_bound did not raise", "C06.bound_const"))
        elif o["bound"][0] != "ok" or o["bound"][1] != o["index"] or any(not close(v, F(case["ub"])) for v in o["bound"][2]):
            probs.append(Problem("property", f"bound() = {o['bound']}, configured {case['ub']}", "C06.bound_const"))
        if model is not None and not probs:
            if proto.p_strs(model["index"]) != sorted(want) or \
                    proto.p_list(model["gamma"]) != [want[g] for g in sorted(want)] or proto.p_list(model["mean"]) != [mean]:
                probs.append(Problem("harness", f"bgl: model {model} vs oracle {want} {mean}"))
        return probs

    def _judge_loss(self, case, o, model):
        """direct `loss.eval` on numpy arrays and on pandas Series, the loss object's declared range, and gamma (Series
        path).  Oracle: for min_val <= max_val the clipped square / absolute difference; for every bounds the declared
        range [loss.min, loss.max] (that is all the property can say when the bounds are inverted)."""
        probs = []
        ys, hs = [F(v) for v in case["y"]], [F(v) for v in case["h"]]
        lo, hi = F(case["lo"]), F(case["hi"])
        loss = "square" if case["loss"] == "square" else "absolute"
        where = f"{case['loss']}({lo}, {hi})"
        dmax = (hi - lo) ** 2 if loss == "square" else abs(hi - lo)
        if not close(o["min"], 0) or not close(o["max"], dmax) or not close(o["min_val"], lo) or not close(o["max_val"], hi):
            probs.append(Problem("property", f"{where}: min/max = {o['min']}, {o['max']} (bounds {o['min_val']}, {o['max_val']}), "
                                             f"documented 0 and {dmax}", "C06.loss_in_declared_range"))
        for cont in ("arr", "ser"):
            for i, v in enumerate(o[cont]):
                if lo <= hi and not close(v, spec_loss(loss, lo, hi, ys[i], hs[i])):
                    probs.append(Problem("property", f"{where}.eval on {'numpy arrays' if cont == 'arr' else 'pandas Series'}: "
                                                     f"loss({ys[i]}, {hs[i]}) = {v!r}, clipped {loss} difference "
                                                     f"{spec_loss(loss, lo, hi, ys[i], hs[i])}", "C06.loss_values"))
                    break
                if not (o["min"] - TOL <= v <= o["max"] + TOL):
                    probs.append(Problem("property", f"{where}.eval({ys[i]}, {hs[i]}) = {v!r} lies outside the loss object's own "
                                                     f"[min, max] = [{o['min']}, {o['max']}]", "C06.loss_in_declared_range"))
                    break
        if "gamma" in o:
            gs = sorted(set(case["g"]))
            if o["gamma_index"] != gs:
                probs.append(Problem("property", f"gamma index {o['gamma_index']} is not the set of groups {gs}", "C06.bgl_gamma"))
            else:
                for g, v in zip(gs, o["gamma"]):
                    idx = [i for i in range(len(ys)) if case["g"][i] == g]
                    mean_ser = sum(o["ser"][i] for i in idx) / len(idx)
                    if not close(v, mean_ser, TOL * (1 + abs(mean_ser))):
                        probs.append(Problem("property", f"BoundedGroupLoss.gamma[{g}] = {v!r} is not the mean {mean_ser!r} of "
                                                         f"{where}.eval over the group's rows", "C06.bgl_gamma"))
                        break
        if model is not None and not probs:
            mmin, mmax = (proto.p_rat(t) for t in model["range"].split(" "))
            marr, mser = proto.p_list(model["arr"]), proto.p_list(model["ser"])
            if (mmin, mmax) != (F(0), dmax) or (lo <= hi and (marr != [spec_loss(loss, lo, hi, y, h) for y, h in zip(ys, hs)]
                                                             or mser != marr)):
                probs.append(Problem("harness", f"loss: model {model} vs oracle"))
            if not close(o["min"], mmin) or not close(o["max"], mmax):
                probs.append(Problem("correspondence", f"{where}: min/max {o['min']}, {o['max']} vs model {mmin}, {mmax}",
                                     "LossRange"))
            for cont, mv, rel in (("arr", marr, "Moments.Loss.eval"), ("ser", mser, "Moments.Loss.evalS")):
                if len(mv) != len(o[cont]) or any(not close(a, b) for a, b in zip(o[cont], mv)):
                    probs.append(Problem("correspondence", f"{where}.eval on {cont}: implementation {o[cont][:5]} vs model "
                                                           f"{[str(v) for v in mv[:5]]}", rel))
            if "gamma" in o and "gamma" in model:
                mg = proto.p_list(model["gamma"])
                if len(mg) != len(o["gamma"]) or any(not close(a, b) for a, b in zip(o["gamma"], mg)):
                    probs.append(Problem("correspondence", f"{where}: gamma {o['gamma']} vs model {[str(v) for v in mg]}",
                                         "Moments.bglGamma"))
        return probs

    def _judge_err(self, case, o, model):
        probs = []
        fp, fn = (F(case["fp"]), F(case["fn"])) if case["costs"] == "given" else (F(1), F(1))
        ok = costs_ok(fp, fn)
        if not ok:
            if o["cfg"][0] != "exc":
                probs.append(Problem("property", "invalid costs accepted", "C06.costs"))
            return probs
        if o["cfg"][0] == "exc":
            return [Problem("property", "valid costs rejected", "C06.costs")]
        want = spec_err(fp, fn, [F(v) for v in case["y"]], [F(v) for v in case["h"]])
        if o["index"] != ["all"] or o["gamma_index"] != ["all"] or not close(o["gamma"][0], want):
            probs.append(Problem("property", f"ErrorRate.gamma = {o['gamma']} (index {o['index']}), cost-weighted error {want}",
                                 "C06.errorRate_gamma"))
        if model is not None and not probs:
            if model["costs"] != "1" or proto.p_rat(model["gamma"]) != want:
                probs.append(Problem("harness", f"err: model {model} vs oracle {want}"))
        return probs

    # ------------------------------------------------------------------ bookkeeping
    def signature(self, case, o):
        kind = case["kind"]
        tags = [f"kind={kind}"]
        if kind not in NO_HISTORY_KINDS:
            tags.append(history_tag(case))
        nontriv = True
        if kind == "parity":
            n = len(case["y"])
            mg, ml = strata_stats(case)
            bk = "default" if case["db"] is None and case["rb"] is None else ("diff" if case["rb"] is None else f"ratio={case['rb']}")
            hard = all(F(v).denominator == 1 for v in case["h"])
            tags += [f"moment={case['moment']}", f"n={'4-6' if n <= 6 else '7-12' if n <= 12 else '13-30'}",
                     f"groups={len(set(case['g']))}", f"strata={0 if case['c'] is None else len(set(case['c']))}",
                     f"bound={bk}", "pred=hard" if hard else "pred=soft", f"container={case['container']}",
                     f"pstyle={case.get('pstyle')}", f"gtype={case.get('gtype')}" + ("(str-order!=numeric-order)" if case.get("gmap") else "")]
            if mg:
                tags.append("some-stratum-lacks-a-group")
            if ml:
                tags.append("some-stratum-lacks-a-label")
            if case["c"] is not None and case["moment"] in ("tpr", "fpr"):
                lab = 1 if case["moment"] == "tpr" else 0
                if any(int(v) != lab for v in case["y"]):
                    tags.append("F3-shape(tpr/fpr+control+rows-outside-class)")
            if isinstance(o, dict) and isinstance(o.get("metricframe"), list) and hard and (case["rb"] in (None, "1")):
                mfv = o["metricframe"]
                # a MetricFrame error is recorded, not judged: make the skipped comparison visible in the evidence
                tags.append("metricframe-exc(not-compared)" if mfv and mfv[0] == "exc" else "metricframe-compared")
            nontriv = isinstance(o, dict) and bool(o.get("index"))
        elif kind == "loss":
            lo, hi = F(case["lo"]), F(case["hi"])
            tags += [f"loss={case['loss']}", "bounds=" + ("ordered" if lo < hi else "equal" if lo == hi else "inverted")]
            if isinstance(o, dict) and "arr" in o and any(abs(a - b) > TOL for a, b in zip(o["arr"], o["ser"])):
                tags.append("F21-shape(eval differs between ndarray and Series)")
            nontriv = True
        elif kind in ("bgl", "err"):
            tags.append(f"n={len(case['y'])}")
            if kind == "bgl":
                tags += [f"loss={case['loss']}", f"range={case['lo']}..{case['hi']}"]
            nontriv = len(case["y"]) >= 2
        if isinstance(o, dict):
            for k in ("cfg", "errcfg", "load", "bound"):
                if isinstance(o.get(k), list) and o[k] and o[k][0] == "exc":
                    tags.append(f"rejected:{k}")
        import json
        return json.dumps(case, sort_keys=True), nontriv, tags

    def known(self, case, problem, entries):
        for e in entries:
            if e.get("match") == "C06.F3" and problem.relation == "C06.index_exact.F3":
                return e
        return None
