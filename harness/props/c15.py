"""C15 — CorrelationRemover output is uncorrelated with every sensitive column."""
from fractions import Fraction as F

import numpy as np

from .. import proto
from ..core import Check, Problem, register

# review R2 — tolerances re-based on measurements on the clean tree (4 x 3000 generated cases, seeds 0..3, incl. the
# near-collinear kind; the one F10 blow-up among them excluded).  Float lstsq errors grow with the conditioning of the centred
# sensitive block, so the oracle tolerances are stated PER UNIT OF `amp` = max(1, largest exact coefficient, condition proxy)
# (Spec.amp, computed exactly).  Measured maxima:
#   |fit_transform / alpha=1 output - exact least-squares residual| / (scale amp)       4.1e-15
#   |cov(output, sensitive)| / (scale^2 n amp)                                            3.6e-16
#   normal-equation residual of the fitted beta_ / (scale^2 n amp max|beta_|)             9.1e-16
#   |transform(new) - exact map| / (scale amp^2)                                          3.8e-15   (beta_ errors ~ eps cond^2)
#   |transform(new) - map with the FITTED beta_| / (scale max|beta_|)                     2.9e-16
#   |fit_transform - model transform(mean_, beta_, alpha)| / (scale max|beta_|)           1.5e-16 ; sensitive_mean_: 0
REL_TOL = 4e-13         # values vs the exact oracle, per unit of scale*amp (new data: scale*amp^2)   (was 1e-9*scale, no amp)
REL_TOL2 = 1e-13        # covariances / normal equations, per unit of scale^2*n*amp                   (was 1e-9)
REL_TOL_MODEL = 3e-14   # implementation vs the Lean model / the map evaluated on the FITTED state, per unit of scale*max|beta_|
NAMES = ["age", "b", "zip", "s0", "x1", "a", "income", "f", "c2", "g"]
ALPHAS = ["1", "1", "1", "0", "1/4", "1/2", "3/4"]

# sha256 of the definitions (comments and blank lines stripped) of lean/FairModel/Generated/CorrRemoverSrc.lean as lifted
# from the pinned tree: while it matches, lifted-model-vs-oracle disagreements are bugs of this machinery (exit 2);
# after a source edit that changed the lifted text they are a broken tie (exit 1).
PINNED_SRC_SHA256 = "1870ff372778be5cada0e9ab5e15d16641bbc552caa5d4f2d642a663d1d16843"
_SRC_STATE = {}


def src_fingerprint():
    import hashlib
    import os
    from .. import leanrun
    path = os.path.join(leanrun.LEAN, "FairModel", "Generated", "CorrRemoverSrc.lean")
    with open(path) as f:
        txt = leanrun.strip_comments(f.read())
    body = "\n".join(ln.rstrip() for ln in txt.splitlines() if ln.strip())
    return hashlib.sha256(body.encode()).hexdigest()


def src_changed():
    if "v" not in _SRC_STATE:
        try:
            _SRC_STATE["v"] = src_fingerprint() != PINNED_SRC_SHA256
        except OSError:
            _SRC_STATE["v"] = False
    return _SRC_STATE["v"]


def model_problem(msg):
    if src_changed():
        return Problem("correspondence", "the model re-built from the LIFTED source departs from the property's oracle: " + msg,
                       "C15.src_model_eq")
    return Problem("harness", msg)


# ------------------------------------------------------------------ exact linear algebra (oracle)
def fdot(a, b):
    return sum((x * y for x, y in zip(a, b)), F(0))


def columns(M, idx):
    return [[r[c] for r in M] for c in idx]


def orth_basis(cols):
    """exact Gram-Schmidt; returns an orthogonal basis of span(cols) (zero vectors dropped)"""
    basis = []
    for c in cols:
        v = list(c)
        for q in basis:
            k = fdot(v, q) / fdot(q, q)
            v = [a - k * b for a, b in zip(v, q)]
        if any(v):
            basis.append(v)
    return basis


def project(z, basis):
    p = [F(0)] * len(z)
    for q in basis:
        k = fdot(z, q) / fdot(q, q)
        p = [a + k * b for a, b in zip(p, q)]
    return p


def solve_normal(Sc_cols, Zcols, free=0):
    """some exact solution of (ScᵀSc) β = Scᵀ Z (free variables set to `free`); β as ms x mz list of rows"""
    ms, mz = len(Sc_cols), len(Zcols)
    A = [[fdot(Sc_cols[a], Sc_cols[b]) for b in range(ms)] + [fdot(Sc_cols[a], z) for z in Zcols] for a in range(ms)]
    piv, r = [], 0
    for c in range(ms):
        p = next((i for i in range(r, ms) if A[i][c] != 0), None)
        if p is None:
            continue
        A[r], A[p] = A[p], A[r]
        d = A[r][c]
        A[r] = [x / d for x in A[r]]
        for i in range(ms):
            if i != r and A[i][c] != 0:
                k = A[i][c]
                A[i] = [x - k * y for x, y in zip(A[i], A[r])]
        piv.append(c)
        r += 1
    beta = [[F(free)] * mz for _ in range(ms)]
    fr = [c for c in range(ms) if c not in piv]
    for i, c in enumerate(piv):
        beta[c] = [v - sum(A[i][f] * F(free) for f in fr) for v in A[i][ms:]]
    return beta, len(piv)


def cov_num(a, b):
    n = len(a)
    ma, mb = sum(a, F(0)) / n, sum(b, F(0)) / n
    return sum(((x - ma) * (y - mb) for x, y in zip(a, b)), F(0))


class Spec:
    """first-principles description of what the property demands on one case (exact Fractions)"""

    def __init__(self, case):
        X = [[F(v) for v in r] for r in case["X"]]
        Xn = [[F(v) for v in r] for r in case["Xnew"]]
        ids = list(case["ids"])
        m = len(X[0])
        self.n, self.m, self.ids = len(X), m, ids
        self.ns = [c for c in range(m) if c not in ids]
        self.ms, self.mz = len(ids), len(self.ns)
        self.alpha = F(case["alpha"])
        self.S = columns(X, ids)                      # list of columns
        self.Z = columns(X, self.ns)
        self.smean = [sum(c, F(0)) / self.n for c in self.S]
        self.Sc = [[v - mu for v in c] for c, mu in zip(self.S, self.smean)]
        basis = orth_basis(self.Sc)
        self.rank = len(basis)
        self.P = [project(z, basis) for z in self.Z]
        self.R1 = [[a - b for a, b in zip(z, p)] for z, p in zip(self.Z, self.P)]      # alpha = 1 output columns
        self.out = [[a - self.alpha * b for a, b in zip(z, p)] for z, p in zip(self.Z, self.P)]
        self.beta, _ = solve_normal(self.Sc, self.Z)
        self.beta_alt, _ = solve_normal(self.Sc, self.Z, free=1)     # a DIFFERENT solution when the block is rank deficient
        self.Sn = columns(Xn, ids) if Xn else [[] for _ in ids]
        self.Zn = columns(Xn, self.ns) if Xn else [[] for _ in self.ns]
        self.nn = len(Xn)
        vals = [abs(v) for r in X + Xn for v in r]
        self.scale = float(max([F(1)] + vals))
        # review R2: error amplification of the least-squares problem, from exact quantities only: the largest exact
        # coefficient and the ratio of the largest to the smallest Gram-Schmidt residual norm of the centred sensitive
        # columns (a condition-number proxy).  Float lstsq errors grow like eps * amp; tolerances are stated per unit of amp.
        qq = [float(fdot(q, q)) for q in basis]
        cond = (max(qq) / min(qq)) ** 0.5 if qq else 1.0
        self.bmax = max([1.0] + [abs(float(v)) for r in self.beta for v in r])
        self.amp = max(1.0, self.bmax, cond)

    def new_out(self, beta):
        """Znew − alpha (Snew − smean) beta, as columns"""
        out = []
        for j in range(self.mz):
            col = []
            for i in range(self.nn):
                proj = sum(((self.Sn[k][i] - self.smean[k]) * beta[k][j] for k in range(self.ms)), F(0))
                col.append(self.Zn[j][i] - self.alpha * proj)
            out.append(col)
        return out


def to_rows(cols, n):
    return [[c[i] for c in cols] for i in range(n)]


def maxdiff(A, B):
    """max |a-b| over two equally shaped row-matrices (floats or Fractions); None if shapes differ"""
    if len(A) != len(B):
        return None
    d = 0.0
    for ra, rb in zip(A, B):
        if len(ra) != len(rb):
            return None
        for a, b in zip(ra, rb):
            d = max(d, abs(float(F(a) - F(b))))
    return d


def fl(M):
    return [[float(v) for v in r] for r in np.asarray(M, dtype=float).reshape(len(M), -1)] if len(M) else []


@register
class CHECK(Check):
    pid = "C15"
    technique = ("Lean 4 theorems over the CorrRemover model (normal equations => zero covariance, least-squares "
                 "minimality, alpha blend, affine map, column order) + compiled-driver correspondence with "
                 "CorrelationRemover.fit_transform/transform on exact dyadic matrices; translator tie: fit / transform / _split_X / "
                 "_create_lookup are inlined symbolically and LIFTED (harness/lifters/corr_remover.py -> Generated/CorrRemoverSrc.lean), "
                 "the model is re-built from the lifted text (Model/CorrLifted.lean) and the theorems are re-proved for it")
    level_text = ("Theorems (all matrices, any number of rows/sensitive/kept columns, any beta solving the normal equations): "
                  "covariance numerator of every output column with every sensitive column = normal-equation residual = 0; "
                  "beta minimises the squared error; output = alpha*residual + (1-alpha)*original, covariance scales by (1-alpha); "
                  "transform is a row-wise affine map with the stored means/coefficients; kept columns = complement of the ids in "
                  "increasing order. Tie: fitted sensitive_mean_/beta_ and the outputs of fit_transform/transform (training and new "
                  "data) vs the compiled Lean model; exact Fraction oracle (Gram-Schmidt projection, covariance) decides violations. "
                  "LIFTED text (per-column mean, `S - mean` operand order, lstsq operands, transform re-using the STORED mean and "
                  "beta_, entry-wise output alpha*(use - proj) + (1-alpha)*use, the two index comprehensions of _split_X, the by-name "
                  "and by-position lookup tables): `src_model_eq` proves the re-built model equal to the hand-written one and "
                  "`src_uncorrelated / src_alpha_blend / src_transform_new_data / src_drops_sensitive_keeps_order / "
                  "src_ids_by_position_or_name` restate the clauses for it. Rank deficiency (F10): `residual_unique` and "
                  "`output_independent_of_solution` (every solution of the normal equations gives the same output), "
                  "`normal_equations_unique_iff` (beta_ unique <=> Gram matrix nonsingular <=> centred columns independent).")
    design_ref = "DESIGN.md section 4, C15"
    quick_cases = 3000
    thorough_cases = 30000
    quick_budget_s = 80
    workers_thorough = 4
    thorough_budget_s = 900
    rule = ("matrices with 2..12 rows, 1..4 sensitive and 1..4 other columns, entries dyadic k/2^j (|k|<=12, j<=2) with "
            "per-column offsets; sensitive block generic / collinear / duplicated / constant / one-hot / more columns than rows; "
            "ids by position in random order (ndarray float or int) or by column LABEL (DataFrame; labels = shuffled strings, the default RangeIndex, or integers that "
            "differ from the positions: shifted 1..m / 2.. / 10.., a permutation of 0..m-1, sparse; the same labels on the new data; "
            "mixed str/int labels are rejected by sklearn and not generated), rarely a repeated id; alpha in {0,1/4,1/2,3/4,1}; new data of 1..6 rows; distinct = distinct (X, ids, alpha, container, Xnew); "
            "non-trivial = at least one non-constant sensitive column")
    explanation = ("theorems over the Lean model CorrRemover for all inputs; numpy.linalg.lstsq enters only through the normal "
                   "equations (checked on every case with the fitted beta_); correspondence: sensitive_mean_, fit_transform, "
                   "transform(train), transform(new) vs compiled driver within 3e-14*scale*max|beta_| (oracle relations per unit of the exact "
                   "amplification amp = max(1, max|exact beta|, condition proxy): 4e-13*scale*amp for values, 1e-13*scale^2*n*amp for "
                   "covariances / normal equations; measured maxima 4.1e-15 / 9.1e-16 / 2.9e-16), both for the hand-written model (`corr.*`) "
                   "and for the model re-built from the lifted source (`corrsrc.*`, incl. the lookup of ids by name / position); two "
                   "different exact solutions of rank-deficient problems are pushed through the model (same output); oracle: exact "
                   "Gram-Schmidt residual and sample covariance in Fractions. Lifted-model-vs-oracle disagreements are HARNESS-ERRORs "
                   "only while Generated/CorrRemoverSrc.lean has the pinned content, else broken tie `C15.src_model_eq`.")
    trusted = ("numpy.linalg.lstsq is modelled by its defining property (normal equations Scᵀ(Z − Sc·beta) = 0), whose residual "
               "is evaluated exactly by the driver for every fitted beta_; this is assumed ONLY for the lifted rcond = None (numpy's "
               "machine-precision cut-off; CorrL.lstsqAssumed, theorem lifted_lstsq_untruncated): an explicit numeric rcond in the source "
               "is lifted as `some q`, under which nothing is assumed and the src_* theorems no longer elaborate; any other rcond is "
               "refused; the rcond actually passed during fit is recorded and compared with the lifted one",
               "sklearn validate_data / DataFrame -> ndarray conversion (checked only through the correspondence)",
               "harness/lifters/corr_remover.py: symbolic inlining of fit / transform, entry-wise reading of numpy broadcasting "
               "(`S - mean` row-wise, `.dot(beta_)` as the row-by-matrix product, np.atleast_2d as identity on 2-d blocks), list / dict "
               "comprehensions of _split_X / _create_lookup; every other shape is refused")
    assumptions = ("n >= 2 rows, at least one sensitive and one other column, all values finite",
                   "float rounding of lstsq stays below 4e-13*scale*amp (measured <= 4.1e-15; F10 is the known exception)")

    # ---------------------------------------------------------------- generation
    def _val(self, rng):
        return F(rng.randint(-12, 12), rng.choice([1, 1, 2, 4]))

    def generate(self, rng, tier):
        while True:
            ms = rng.choice([1, 2, 2, 2, 3, 3, 4])
            mz = rng.choice([1, 1, 2, 2, 3, 4])
            n = rng.choice([2, 3, 3, 4, 4, 5, 6, 7, 8, 10, 12])
            m = ms + mz
            kind = rng.choice(["generic", "generic", "generic", "collinear", "duplicate", "constant", "onehot", "intlike",
                               "nearcollinear"])
            offs = [F(rng.randint(-6, 6)) for _ in range(ms)]
            if kind == "onehot":
                S = [[F(0)] * ms for _ in range(n)]
                for i in range(n):
                    S[i][rng.randrange(ms)] = F(1)
            elif kind == "intlike":
                S = [[F(rng.randint(0, 3)) + offs[k] for k in range(ms)] for _ in range(n)]
            else:
                S = [[self._val(rng) + offs[k] for k in range(ms)] for _ in range(n)]
            if kind == "collinear" and ms >= 2:
                t = rng.randrange(ms)
                co = [F(rng.randint(-2, 2)) for _ in range(ms)]
                c0 = F(rng.randint(-3, 3))
                for i in range(n):
                    S[i][t] = c0 + sum(co[k] * S[i][k] for k in range(ms) if k != t)
            near = None
            if kind == "nearcollinear" and ms >= 2:
                # review R2: ALMOST collinear (full rank, smallest singular value ~ delta): a mutant that truncates small
                # singular values (lstsq rcond = 1e-3, a ridge term, an early-stopped solver) survives exact collinearity
                t = rng.randrange(ms)
                co = [F(rng.randint(-2, 2)) for _ in range(ms)]
                c0 = F(rng.randint(-3, 3))
                delta = F(1, rng.choice([64, 256, 1024]))
                near = [F(rng.choice([-1, 0, 1])) for _ in range(n)]
                for i in range(n):
                    S[i][t] = c0 + sum(co[k] * S[i][k] for k in range(ms) if k != t) + delta * near[i]
            if kind == "duplicate" and ms >= 2:
                a, b = rng.sample(range(ms), 2)
                for i in range(n):
                    S[i][b] = S[i][a]
            if kind == "constant":
                t = rng.randrange(ms)
                c0 = F(rng.randint(-5, 5))
                for i in range(n):
                    S[i][t] = c0
            # other columns: partly driven by the sensitive ones so that there is correlation to remove
            Z = []
            w = [[F(rng.randint(-2, 2), rng.choice([1, 2])) for _ in range(ms)] for _ in range(mz)]
            for i in range(n):
                Z.append([self._val(rng) + sum(w[j][k] * S[i][k] for k in range(ms)) * rng.choice([0, 1, 1])
                          + (near[i] * rng.choice([0, 1, 2]) if near is not None else 0) for j in range(mz)])
            pos = rng.sample(range(m), ms)
            if rng.random() < 0.5:
                pos.sort()
            X = [[None] * m for _ in range(n)]
            rest = [c for c in range(m) if c not in pos]
            for i in range(n):
                for k, c in enumerate(pos):
                    X[i][c] = S[i][k]
                for j, c in enumerate(rest):
                    X[i][c] = Z[i][j]
            ids = list(pos)
            if ms < 4 and rng.random() < 0.03:
                ids.append(rng.choice(pos))
            nn = rng.choice([1, 2, 3, 6])
            Xnew = [[self._val(rng) + F(rng.randint(-3, 3)) for _ in range(m)] for _ in range(nn)]
            allint = all(v.denominator == 1 for r in X + Xnew for v in r)
            container = rng.choice(["ndarray", "ndarray", "dataframe", "dataframe"])
            if container == "ndarray" and allint and rng.random() < 0.5:
                container = "ndarray_int"
            names = rng.sample(NAMES, m)
            case = {"X": [[str(v) for v in r] for r in X], "ids": ids, "alpha": rng.choice(ALPHAS),
                    "container": container, "names": names, "Xnew": [[str(v) for v in r] for r in Xnew], "kind": kind}
            if container == "dataframe":
                # column LABELS of the DataFrame (`sensitive_feature_ids` are given by label, for fit and for transform of new
                # data): strings, the default RangeIndex, and integer labels that differ from the positions -- shifted (1..m,
                # e.g. after an id column was dropped), a permutation of 0..m-1 (every label is ALSO a valid position of
                # another column), sparse integers.  (Mixed str / int labels are rejected by sklearn's validate_data.)
                lk = rng.choice(["str", "str", "range", "shifted", "shifted", "permuted", "permuted", "sparse"])
                case["label_kind"] = lk
                if lk == "shifted":
                    k0 = rng.choice([1, 1, 2, 10])
                    case["names"] = [k0 + c for c in range(m)]
                elif lk == "permuted":
                    perm = list(range(m))
                    for _ in range(4):
                        rng.shuffle(perm)
                        if perm != list(range(m)):
                            break
                    case["names"] = perm
                elif lk == "sparse":
                    case["names"] = rng.sample(range(0, 4 * m + 3), m)
            yield case

    def _relations(self, case):
        try:
            return {p.relation for p in self.judge(case, self.safe_impl(case), None) if p.kind == "property"}
        except Exception:  # noqa: BLE001
            return set()

    def shrink(self, case):
        """candidates that keep the most telling failure alive: if the current case shows a non-zero covariance
        (C15.uncorrelated), only candidates that still show it are proposed"""
        keep = "C15.uncorrelated" if "C15.uncorrelated" in self._relations(case) else None
        for cand in self._shrink_raw(case):
            if keep is None or keep in self._relations(cand):
                yield cand

    def _shrink_raw(self, case):
        X, Xn, ids = case["X"], case["Xnew"], case["ids"]
        n, m = len(X), len(X[0])
        if case["container"] != "ndarray":
            yield dict(case, container="ndarray")
        if case["container"] == "dataframe" and case.get("label_kind") in ("sparse", "permuted"):
            yield dict(case, label_kind="shifted", names=[1 + c for c in range(m)])
        if len(Xn) > 1:
            yield dict(case, Xnew=Xn[:1])
        for i in range(n):
            if n > 2:
                yield dict(case, X=X[:i] + X[i + 1:])
        for c in range(m):
            nons = [j for j in range(m) if j not in ids]
            removable = (c in nons and len(nons) > 1) or (c in ids and len(set(ids)) > 1)
            if removable:
                def cut(M):
                    return [r[:c] + r[c + 1:] for r in M]
                nid = [i - (1 if i > c else 0) for i in ids if i != c]
                yield dict(case, X=cut(X), Xnew=cut(Xn), ids=nid, names=case["names"][:c] + case["names"][c + 1:])
        if case["alpha"] != "1":
            yield dict(case, alpha="1")
        if sorted(ids) != ids:
            yield dict(case, ids=sorted(ids))
        # simplify values: round to integers, then move towards 0
        def mapv(M, f):
            return [[str(f(F(v))) for v in r] for r in M]
        if any(F(v).denominator != 1 for r in X + Xn for v in r):
            yield dict(case, X=mapv(X, lambda v: F(round(v))), Xnew=mapv(Xn, lambda v: F(round(v))))
        for i in range(n):
            for c in range(m):
                v = F(X[i][c])
                for nv in ([F(0)] if v != 0 else []) + ([v - 1 if v > 0 else v + 1] if abs(v) > 1 else []):
                    X2 = [list(r) for r in X]
                    X2[i][c] = str(nv)
                    yield dict(case, X=X2)

    # ---------------------------------------------------------------- implementation
    @staticmethod
    def _labels(case):
        """column labels of the DataFrame container, by position (strings or ints); the default RangeIndex for kind `range`"""
        if case.get("label_kind") == "range":
            return list(range(len(case["X"][0])))
        return list(case["names"])

    @staticmethod
    def _label_code(lbl):
        """labels as the code numbers the driver's `corrsrc.lookup df` works with (distinct labels -> distinct codes)"""
        if isinstance(lbl, int):
            return 1000 + lbl
        return NAMES.index(lbl) + 1 if lbl in NAMES else 100 + sum(map(ord, lbl))

    def _build(self, case, M):
        rows = [[float(F(v)) for v in r] for r in M]
        if case["container"] == "ndarray_int":
            return np.array([[int(F(v)) for v in r] for r in M], dtype=np.int64)
        if case["container"] == "dataframe":
            import pandas as pd
            if case.get("label_kind") == "range":
                return pd.DataFrame(rows)
            return pd.DataFrame(rows, columns=self._labels(case))
        return np.array(rows, dtype=float)

    def impl(self, case):
        from fairlearn.preprocessing import CorrelationRemover
        X, Xn = self._build(case, case["X"]), self._build(case, case["Xnew"])
        ids = [self._labels(case)[i] for i in case["ids"]] if case["container"] == "dataframe" else list(case["ids"])
        alpha = float(F(case["alpha"]))
        ms = len(ids)
        # the `rcond` np.linalg.lstsq is actually called with during fit (tie of the lifted `CorrRemoverSrc.lstsqRcond`)
        seen_rcond = []
        real_lstsq = np.linalg.lstsq

        def spy_lstsq(a, b, rcond=None, *args, **kw):
            seen_rcond.append("none" if rcond is None else repr(float(rcond)))
            return real_lstsq(a, b, rcond, *args, **kw)
        try:
            cr = CorrelationRemover(sensitive_feature_ids=ids, alpha=alpha)
            np.linalg.lstsq = spy_lstsq
            try:
                ft = cr.fit_transform(X)
            finally:
                np.linalg.lstsq = real_lstsq
            mean = np.broadcast_to(np.asarray(cr.sensitive_mean_, dtype=float), (ms,))
            out = {"ft": fl(ft), "mean": [float(v) for v in mean],
                   "mean_shape": list(np.shape(cr.sensitive_mean_)),
                   "beta": fl(np.asarray(cr.beta_, dtype=float).reshape(ms, -1)),
                   "tr": fl(cr.transform(X)), "new": fl(cr.transform(Xn)), "rcond": seen_rcond}
            if case["alpha"] != "1":
                out["ft1"] = fl(CorrelationRemover(sensitive_feature_ids=ids, alpha=1.0).fit_transform(X))
            else:
                # default alpha (the constructor default is the integer 1)
                out["ft1"] = fl(CorrelationRemover(sensitive_feature_ids=ids).fit(X).transform(X))
            return out
        except Exception as e:  # noqa: BLE001  (every case is a valid input: any exception is a result to judge)
            return {"exc": type(e).__name__, "msg": str(e)[:120]}

    # ---------------------------------------------------------------- model lines
    def lines(self, case, o):
        sp = Spec(case)
        X, Xn, ids = proto.mat([[F(v) for v in r] for r in case["X"]]), proto.mat([[F(v) for v in r] for r in case["Xnew"]]), proto.lst(case["ids"])
        ls = [f"corr.means {X} {ids}", f"corr.split {sp.m} {ids}"]
        eb, em = proto.mat(sp.beta), proto.lst(sp.smean)
        ls += [f"corr.normal {X} {ids} {em} {eb}", f"corr.cov {X} {ids} {em} {eb} 1",
               f"corr.transform {X} {ids} {em} {eb} {proto.rat(sp.alpha)}"]
        # the model re-built from the lifted source text (Generated/CorrRemoverSrc.lean), exact least-squares beta
        ls += [f"corrsrc.means {X} {ids}", f"corrsrc.split {sp.m} {ids}", f"corrsrc.normal {X} {ids} {eb}",
               f"corrsrc.transform {X} {ids} {em} {eb} {proto.rat(sp.alpha)}"]
        # `sensitive` of _split_X through the lifted _create_lookup table: by name (DataFrame) or by position (ndarray)
        if case["container"] == "dataframe":
            code, labels = self._label_code, self._labels(case)
            ls.append(f"corrsrc.lookup df {proto.lst([code(c) for c in labels])} {proto.lst([code(labels[i]) for i in case['ids']])}")
        else:
            ls.append(f"corrsrc.lookup arr {sp.m} {ids}")
        # theorem output_independent_of_solution on the driver: two exact solutions, same alpha = 1 output
        ls += [f"corr.transform {X} {ids} {em} {eb} 1", f"corr.transform {X} {ids} {em} {proto.mat(sp.beta_alt)} 1"]
        if "exc" in o or "crash" in o or not self._usable(o, sp):
            return ls + ["corrsrc.rcond"]           # always the LAST line
        mean, beta, a = proto.lst(o["mean"]), proto.mat(o["beta"]), proto.rat(sp.alpha)
        ls += [f"corr.normal {X} {ids} {mean} {beta}", f"corr.transform {X} {ids} {mean} {beta} {a}",
               f"corr.cov {X} {ids} {mean} {beta} {a}", f"corr.transform {Xn} {ids} {mean} {beta} {a}"]
        # lifted model with the fitted state
        ls += [f"corrsrc.normal {X} {ids} {beta}", f"corrsrc.transform {X} {ids} {mean} {beta} {a}",
               f"corrsrc.transform {Xn} {ids} {mean} {beta} {a}"]
        return ls + ["corrsrc.rcond"]               # always the LAST line

    @staticmethod
    def _usable(o, sp):
        b = o.get("beta")
        return (isinstance(b, list) and len(b) == sp.ms and all(len(r) == sp.mz for r in b)
                and len(o.get("mean", [])) == sp.ms
                and all(np.isfinite(v) for r in b for v in r) and all(np.isfinite(v) for v in o["mean"]))

    # ---------------------------------------------------------------- judging
    def judge(self, case, o, mo):
        sp = Spec(case)
        probs = []
        tol = REL_TOL * sp.scale * sp.amp
        tol2 = REL_TOL2 * sp.scale ** 2 * sp.n * sp.amp
        tolm = REL_TOL_MODEL * sp.scale
        # ---- model vs oracle (exact) ------------------------------------------------
        if mo is not None:
            if len(mo) < 12 or "bad-op" in mo[:5] or "bad-op" in mo[10:12]:
                return [Problem("harness", f"driver rejected a valid case: {mo[:12]}")]
            if mo[10] != mo[11] or proto.p_mat(mo[10]) != to_rows(sp.R1, sp.n):
                probs.append(Problem("harness", "two exact least-squares solutions give different alpha=1 outputs in the model "
                                     "(theorem `output_independent_of_solution`)"))
            if proto.p_list(mo[0]) != sp.smean:
                probs.append(Problem("harness", f"model column means {mo[0]} vs oracle {sp.smean}"))
            if [int(t) for t in proto.p_list(mo[1])] != sp.ns:
                probs.append(Problem("harness", f"model kept columns {mo[1]} vs oracle {sp.ns}"))
            if any(v != 0 for r in proto.p_mat(mo[2]) for v in r):
                probs.append(Problem("harness", f"exact beta does not satisfy the model's normal equations: {mo[2]}"))
            if any(v != 0 for r in proto.p_mat(mo[3]) for v in r):
                probs.append(Problem("harness", f"model covariance for an exact least-squares beta is not 0: {mo[3]} (theorem `uncorrelated`)"))
            if proto.p_mat(mo[4]) != to_rows(sp.out, sp.n):
                probs.append(Problem("harness", "model transform with exact beta differs from the exact projection residual"))
            # the lifted model against the same oracle
            if "bad-op" in mo[5:10]:
                probs.append(model_problem(f"the model re-built from the lifted source rejects a valid case: {mo[5:10]}"))
            elif proto.p_list(mo[5]) != sp.smean:
                probs.append(model_problem(f"lifted fit stores mean {mo[5]}, per-column means are {[str(v) for v in sp.smean]}"))
            elif [int(t) for t in proto.p_list(mo[6])] != sp.ns:
                probs.append(model_problem(f"lifted _split_X keeps columns {mo[6]}, the non-sensitive positions in order are {sp.ns}"))
            elif any(v != 0 for r in proto.p_mat(mo[7]) for v in r):
                probs.append(model_problem(f"the exact least-squares beta does not solve the problem lstsq is called with in the source: {mo[7]}"))
            elif proto.p_mat(mo[8]) != to_rows(sp.out, sp.n):
                probs.append(model_problem("lifted transform with the exact beta differs from alpha*residual + (1-alpha)*original"))
            # the rcond the source passes to lstsq (recorded during fit) vs the lifted `lstsqRcond` the model's assumption about
            # the lstsq result is indexed by (`CorrL.lstsqAssumed`; theorem `lifted_lstsq_untruncated` needs `none`)
            if isinstance(o, dict) and "rcond" in o:
                want_rc = mo[-1].strip()
                if want_rc == "bad-op":
                    probs.append(model_problem("driver does not know corrsrc.rcond"))
                else:
                    def same_rc(seen):
                        if seen == "none" or want_rc == "none":
                            return seen == want_rc
                        try:
                            return F(seen) == F(want_rc)
                        except (ValueError, ZeroDivisionError):
                            return False
                    if len(o["rcond"]) != 1 or not same_rc(o["rcond"][0]):
                        probs.append(Problem("correspondence", f"fit called np.linalg.lstsq with rcond {o['rcond']} (one call expected), the lifted "
                                             f"source says {want_rc} (the model assumes the normal equations only for rcond = None)",
                                             "C15.lifted_lstsq_untruncated"))
            if mo[9] == "bad-op" or [int(t) for t in proto.p_list(mo[9])] != list(case["ids"]):
                probs.append(model_problem(f"the lifted _create_lookup / _split_X resolve the sensitive ids to {mo[9]}, their positions are {case['ids']}"))
        # ---- implementation vs property oracle ---------------------------------------
        if "crash" in o:
            return probs + [Problem("correspondence", f"adapter crashed: {o}", "impl-total")]
        if "exc" in o:
            return probs + [Problem("property", f"valid input raised {o['exc']}: {o.get('msg')}", "C15.accepts")]
        ft, ft1 = o["ft"], o["ft1"]
        shape_ok = len(ft) == sp.n and all(len(r) == sp.mz for r in ft) and len(ft1) == sp.n and all(len(r) == sp.mz for r in ft1)
        if not shape_ok:
            probs.append(Problem("property", f"output shape {len(ft)}x{len(ft[0]) if ft else 0}, expected {sp.n}x{sp.mz} "
                                 "(sensitive columns dropped, others kept)", "C15.drops_sensitive_keeps_order"))
            return probs
        # (a) alpha = 1 output: zero sample covariance with every sensitive column
        worst = None
        for j in range(sp.mz):
            colj = [F(r[j]) for r in ft1]
            for k in range(sp.ms):
                c = cov_num(colj, sp.S[k]) / (sp.n - 1)
                if abs(float(c)) > tol2 and (worst is None or abs(c) > abs(worst[2])):
                    worst = (j, k, c)
        if worst:
            j, k, c = worst
            probs.append(Problem("property", f"alpha=1 output column {j} has sample covariance {float(c):.6g} with sensitive "
                                 f"column {k} (id {sp.ids[k]}); must be 0", "C15.uncorrelated"))
        # (b) alpha = 1 output is Z minus the least-squares projection on the per-column-centred block
        d = maxdiff(ft1, to_rows(sp.R1, sp.n))
        if d is None or d > tol:
            probs.append(Problem("property", f"alpha=1 output differs from Z - proj(Z | centred sensitive columns) by {d}",
                                 "C15.lstsq_minimises"))
        # (c) alpha blend
        d = maxdiff(ft, to_rows(sp.out, sp.n))
        if d is None or d > tol:
            probs.append(Problem("property", f"fit_transform(alpha={case['alpha']}) differs from alpha*residual+(1-alpha)*original by {d}",
                                 "C15.alpha_blend"))
        if case["alpha"] == "0" and maxdiff(ft, to_rows(sp.Z, sp.n)) != 0.0:
            probs.append(Problem("property", "alpha=0 does not return the kept columns unchanged, in order", "C15.alpha_zero"))
        # (d) transform(train) == fit_transform
        d = maxdiff(o["tr"], ft)
        if d is None or d > tol:
            probs.append(Problem("property", f"transform(X_train) differs from fit_transform(X_train) by {d}", "C15.transform_new_data"))
        # (e) new data: same affine map (training means, fitted coefficients)
        usable = self._usable(o, sp)
        beta_impl = [[F(v) for v in r] for r in o["beta"]] if usable else None
        if beta_impl is not None:
            bsc = max(1.0, max(abs(float(v)) for r in beta_impl for v in r))
            # (e1) review R2: beta_ must solve the least-squares problem of the centred block — checked on EVERY case now
            # (before: only on rank-deficient ones; full-rank ones were compared with the exact coefficients alone)
            nr = max(abs(float(fdot(sp.Sc[k], [sp.Z[j][i] - sum(sp.Sc[q][i] * beta_impl[q][j] for q in range(sp.ms))
                                               for i in range(sp.n)]))) for k in range(sp.ms) for j in range(sp.mz))
            if nr > tol2 * bsc:
                probs.append(Problem("property", f"beta_ does not solve the least-squares problem of the centred block (normal residual {nr:.3g})",
                                     "C15.isLstsq"))
            # (e2) transform(new) IS the affine map with the training means and the FITTED coefficients (tight: rounding only)
            d = maxdiff(o["new"], to_rows(sp.new_out(beta_impl), sp.nn))
            if d is None or d > tolm * bsc:
                probs.append(Problem("property", f"transform(new data) differs by {d} from Znew - alpha*(Snew - training means)*the fitted beta_",
                                     "C15.transform_affine"))
        if sp.rank == sp.ms or beta_impl is None:
            # (e3) full rank: the coefficients are unique, so the map must also agree with the EXACT least-squares coefficients;
            # the error of beta_ grows like eps*cond^2, hence amp^2
            d = maxdiff(o["new"], to_rows(sp.new_out(sp.beta), sp.nn))
            if d is None or d > tol * sp.amp:
                probs.append(Problem("property", f"transform(new data) differs by {d} from Znew - alpha*(Snew - training means)*the least-squares coefficients",
                                     "C15.transform_affine"))
        # ---- implementation vs model --------------------------------------------------
        if mo is not None and not any(p.kind == "harness" for p in probs):
            if not usable:
                probs.append(Problem("correspondence", f"fitted state has unexpected shape: mean {o.get('mean_shape')}, beta {np.shape(o.get('beta'))}",
                                     "C15.fitted_state"))
                return probs
            if len(mo) != 20 or "bad-op" in mo[12:16]:
                return probs + [Problem("harness", f"driver rejected the fitted state: {mo[12:]}")]
            if "bad-op" in mo[16:19] or "bad-op" in mo[5:10]:
                return probs + [model_problem(f"the model re-built from the lifted source rejects the fitted state: {mo[16:]}")]
            dm = max(abs(a - float(b)) for a, b in zip(o["mean"], sp.smean))
            mean_ok = dm <= tolm
            if not mean_ok:
                probs.append(Problem("correspondence", f"sensitive_mean_ {o['mean']} (shape {o['mean_shape']}) is not the vector of column means "
                                     f"{[float(v) for v in sp.smean]}", "C15.fitMean"))
            bscale = max(1.0, max(abs(v) for r in o["beta"] for v in r))
            nres = max([abs(float(v)) for r in proto.p_mat(mo[12]) for v in r] + [0.0])
            lstsq_ok = nres <= tol2 * bscale
            if not lstsq_ok:
                probs.append(Problem("correspondence", f"fitted beta_ violates the normal equations of (S - sensitive_mean_) by {nres:.3g} "
                                     "(hypothesis isLstsq of the theorems)", "C15.isLstsq"))
            d = maxdiff(ft, proto.p_mat(mo[13]))
            if d is None or d > tolm * bscale:
                probs.append(Problem("correspondence", f"fit_transform differs from the model's transform(mean_, beta_, alpha) by {d}",
                                     "C15.transform_entry"))
            d = maxdiff(o["new"], proto.p_mat(mo[15]))
            if d is None or d > tolm * bscale:
                probs.append(Problem("correspondence", f"transform(new) differs from the model's transform(mean_, beta_, alpha) by {d}",
                                     "C15.transform_new_data"))
            # the lifted model with the fitted state: normal equations of the operands lstsq is called with, transform of the
            # training batch and of new data
            nres_s = max([abs(float(v)) for r in proto.p_mat(mo[16]) for v in r] + [0.0])
            if nres_s > tol2 * bscale and lstsq_ok:
                probs.append(Problem("correspondence", f"fitted beta_ violates the normal equations of the lstsq operands lifted from the source by {nres_s:.3g}",
                                     "C15.src_uncorrelated"))
            d = maxdiff(ft, proto.p_mat(mo[17]))
            if d is None or d > tolm * bscale:
                probs.append(Problem("correspondence", f"fit_transform differs from the transform lifted from the source by {d}", "C15.src_alpha_blend"))
            d = maxdiff(o["new"], proto.p_mat(mo[18]))
            if d is None or d > tolm * bscale:
                probs.append(Problem("correspondence", f"transform(new) differs from the transform lifted from the source by {d}",
                                     "C15.src_transform_new_data"))
            if mean_ok and lstsq_ok:
                # theorem cov_alpha instance on the model: cov = (1 - alpha) * cov(Z, S) up to the lstsq residual
                cm = proto.p_mat(mo[14])
                for j in range(sp.mz):
                    for k in range(sp.ms):
                        want = (1 - sp.alpha) * cov_num(sp.Z[j], sp.S[k]) / (sp.n - 1)
                        if abs(float(cm[j][k] - want)) > 10 * tol2 * bscale:
                            probs.append(Problem("harness", f"model covariance [{j}][{k}] = {float(cm[j][k])} but theorem cov_alpha gives {float(want)}"))
        return probs

    def known(self, case, problem, entries):
        """F10: exactly collinear sensitive columns whose centred float representation is collinear only up to
        rounding; numpy.linalg.lstsq(rcond=None) then keeps the noise singular value and returns |beta_| ~ 1e14.
        Matched by: the centred block is rank deficient in exact arithmetic AND the fitted beta_ is huge."""
        # only the consequences of a wrong beta_ (theorems residual_unique / output_independent_of_solution: with ANY exact
        # solution these relations hold, so their failure on such a case is the float artefact); a wrong shape, a wrong
        # column order, transform(train) != fit_transform or a wrong mean on the same input are still reported
        if problem.relation not in ("C15.uncorrelated", "C15.lstsq_minimises", "C15.alpha_blend", "C15.transform_affine",
                                    "C15.isLstsq"):
            return None
        for e in entries:
            if e.get("match") != "rank_deficient_and_beta_blowup":
                continue
            o = self.safe_impl(case)
            b = o.get("beta") if isinstance(o, dict) else None
            if not b:
                continue
            sp = Spec(case)
            if sp.rank < sp.ms and max(abs(v) for r in b for v in r) > 1e8 * sp.scale:
                return e
        return None

    def signature(self, case, o):
        sp = Spec(case)
        means_differ = len(set(sp.smean)) > 1
        tags = [f"n={sp.n}", f"ms={sp.ms}", f"mz={sp.mz}", f"alpha={case['alpha']}", f"container={case['container']}",
                f"kind={case.get('kind', 'corpus')}", "rank=full" if sp.rank == sp.ms else "rank=deficient",
                "sensitive_means_differ" if means_differ else "sensitive_means_equal",
                "ids=sorted" if sorted(sp.ids) == sp.ids else "ids=unsorted",
                "n<=ms" if sp.n <= sp.ms else "n>ms"]
        if case["container"] == "dataframe":
            labels = self._labels(case)
            lk = case.get("label_kind", "str")
            tags.append("labels=" + lk)
            if any(isinstance(c, int) for c in labels):
                tags.append("int_labels=" + ("equal_positions" if labels == list(range(len(labels))) else
                                             "valid_other_positions" if any(labels[i] != i and 0 <= labels[i] < len(labels) for i in sp.ids)
                                             else "not_positions"))
        if len(set(sp.ids)) < len(sp.ids):
            tags.append("ids=repeated")
        if any(any(p) for p in sp.P):
            tags.append("correlation_present")
        if "exc" in o:
            tags.append("raised=" + o["exc"])
        key = (tuple(map(tuple, case["X"])), tuple(case["ids"]), case["alpha"], case["container"], tuple(map(tuple, case["Xnew"])),
               tuple(map(str, self._labels(case))) if case["container"] == "dataframe" else ())
        return key, sp.rank >= 1, tags
