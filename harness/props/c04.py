"""C04 — ThresholdOptimizer equalises the constrained metric exactly on the training data."""
import math
from fractions import Fraction as F

from .. import proto
from .. import thr_common as tc
from ..core import Check, Problem, register

TOL = tc.TOL


def common_judge(case, o, mo, pid):
    """Shared by C04/C05: returns (problems, ctx).  ctx carries the parsed model outputs and the implementation
    view so that C05 can add the optimality part."""
    probs = []
    ctx = {"view": None, "m0": None, "m1": None, "i_impl": None, "grid": case["grid"]}
    inq = tc.in_quantifier(case)
    qline = None
    if mo and case.get("query"):
        mo, qline = mo[:-1], mo[-1]          # last line = fit -> predict on the query rows (op thrp.*)
    if "crash" in o:
        if inq:
            # inside the quantifier fit / _pmf_predict / predict must succeed: a crash is a violation with this very input
            return [Problem("property", f"fit / predict crashed although every group has both labels: {o}",
                            f"{pid}.fit-accepts")], ctx
        return [Problem("correspondence", f"implementation crashed: {o}", f"{pid}.impl-total")], ctx
    if "error" in o:
        if inq:
            probs.append(Problem("property", f"fit raised {o['error']} although every group has both labels",
                                 f"{pid}.fit-accepts"))
        elif mo is not None and mo and mo[0] != "degenerate":
            probs.append(Problem("correspondence", f"implementation rejected the input, model says {mo[0][:40]}",
                                 f"{pid}.degenerate"))
        return probs, ctx
    if not inq:
        probs.append(Problem("correspondence", "a group lacks a label but fit did not raise", f"{pid}.degenerate"))
        return probs, ctx
    gs, rows = tc.groups_of(case)
    eo = case["constraint"] == "equalized_odds"
    xm, ym = tc.xy_metrics(case)
    # ---------------- oracle on the implementation's own outputs --------------------------------------
    if o["keys"] != sorted(str(tc.gname(case, g)) for g in gs):
        probs.append(Problem("property", f"interpolation_dict keys {o['keys']} are not the groups", f"{pid}.keys"))
        return probs, ctx
    # NaN / inf anywhere in the fitted rule or the reported pmf (0/0 in the interpolation, p_ignore, ...) is a violation
    # by itself: the rule is not a randomised threshold rule at all
    nonfinite = [f"group {g}: {k}={o['rules'][str(g)][k]!r}" for g in gs for k in ("p0", "p1", "p_ignore", "const")
                 if o["rules"][str(g)][k] is not None and not math.isfinite(o["rules"][str(g)][k])]
    nonfinite += [f"_pmf_predict row {k}: {v!r}" for k, v in enumerate(o["pmf1"]) if not math.isfinite(v)][:3]
    if nonfinite:
        probs.append(Problem("property", "fitted rule / pmf is not finite: " + "; ".join(nonfinite[:4]),
                             "C04.rule-is-mixture"))
        return probs, ctx
    view = tc.impl_view(case, o)
    ctx["view"] = view
    for g in gs:
        v = view[g]
        r = o["rules"][str(g)]
        if any(abs(a + b - 1) > TOL for a, b in zip(v["pmf"], v["pmf0"])) or \
                any(p < -TOL or p > 1 + TOL for p in v["pmf"]):
            probs.append(Problem("property", f"group {g}: _pmf_predict is not a probability vector: {v['pmf'][:4]}",
                                 "C04.pmf-valid"))
        if any(abs(a - b) > TOL for a, b in zip(v["pmf"], v["recomputed"])):
            probs.append(Problem("property", f"group {g}: _pmf_predict {v['pmf'][:4]} differs from the rule in "
                                 f"interpolation_dict {v['recomputed'][:4]}", "C04.pmf-matches-rule"))
        if abs(r["p0"] + r["p1"] - 1) > TOL or r["p0"] < -TOL or r["p1"] < -TOL:
            probs.append(Problem("property", f"group {g}: p0={r['p0']} p1={r['p1']} is not a mixture",
                                 "C04.rule-is-mixture"))
    if case.get("query") and "qpmf1" in o:
        probs += query_oracle(case, o)
    exs = [view[g]["ex"] for g in gs]
    if max(exs) - min(exs) > TOL:
        probs.append(Problem("property", f"expected {xm} differs between groups: " +
                             ", ".join(f"{g}:{view[g]['ex']:.12g}" for g in gs),
                             "C04.parity_EO" if eo else "C04.parity_simple"))
    if eo:
        eys = [view[g]["ey"] for g in gs]
        if max(eys) - min(eys) > TOL:
            probs.append(Problem("property", f"expected {ym} differs between groups: " +
                                 ", ".join(f"{g}:{view[g]['ey']:.12g}" for g in gs), "C04.parity_EO"))
    i_impl = int(round(exs[0] * case["grid"]))
    ctx["i_impl"] = i_impl
    if mo is None:
        return probs, ctx
    # ---------------- model sanity (model vs oracle) --------------------------------------------------
    ms = [tc.parse_model(l, eo) for l in mo]
    if any(isinstance(m, str) for m in ms):
        probs.append(tc.model_problem(f"model answered {[m for m in ms if isinstance(m, str)]} on a valid input", pid))
        return probs, ctx
    m0 = ms[0]
    m1 = ms[1] if len(ms) > 1 else (m0 if m0["i"] == i_impl else None)
    ctx["m0"], ctx["m1"] = m0, m1
    for m in ms:
        xg = F(m["i"], case["grid"])
        for j, g in enumerate(gs):
            pr = [tc.prob_of_rule(m["rules"][j], s) for s, _ in rows[g]]
            ex = tc.metric_from_probs(xm, rows[g], pr)
            ey = tc.metric_from_probs(ym, rows[g], pr)
            if (ex, ey) != m["expected"][j]:
                probs.append(tc.model_problem(f"model expectedMetric {m['expected'][j]} vs oracle {(ex, ey)}", pid))
            if ex != xg:
                probs.append(tc.model_problem(f"model rule of group {g} has {xm}={ex}, grid value {xg}", pid))
            if eo and ey != m["ybest"]:
                probs.append(tc.model_problem(f"model rule of group {g} has {ym}={ey}, y_best {m['ybest']}", pid))
            if any(p < 0 or p > 1 for p in pr):
                probs.append(tc.model_problem(f"model rule of group {g} has probabilities outside [0,1]", pid))
        if not m["supporting"]:
            probs.append(tc.model_problem("model hull is not supporting (monotone-chain invariant broken)", pid))
    if any(p.kind == "property" for p in probs):
        # the implementation itself fails the oracle on this input: a model that follows the (changed) source through
        # the translator is not a bug of this machinery
        probs = [p for p in probs if p.kind != "harness"]
    # ---------------- correspondence implementation vs model ------------------------------------------
    if m1 is None:
        probs.append(Problem("correspondence", f"implementation's grid index {i_impl} is outside the grid",
                             f"{pid}.argmax"))
        return probs, ctx
    if m1["i"] != m0["i"] and abs(float(m1["objective"] - m0["objective"])) > TOL:
        probs.append(Problem("correspondence", f"implementation chose grid index {i_impl} (objective "
                             f"{float(m1['objective']):.12g}), model arg-max {m0['i']} (objective "
                             f"{float(m0['objective']):.12g})", f"{pid}.argmax"))
    for j, g in enumerate(gs):
        v = view[g]
        mex, mey = m1["expected"][j]
        if abs(v["ex"] - float(mex)) > TOL or abs(v["ey"] - float(mey)) > TOL:
            probs.append(Problem("correspondence", f"group {g}: implementation achieves ({v['ex']:.12g},{v['ey']:.12g}), "
                                 f"model ({float(mex):.12g},{float(mey):.12g})", f"{pid}.achieved-point"))
            continue
        mp = [float(tc.prob_of_rule(m1["rules"][j], s)) for s, _ in rows[g]]
        if all(abs(a - b) <= TOL for a, b in zip(mp, v["pmf"])):
            ctx.setdefault("rule_identical", 0)
            ctx["rule_identical"] += 1
            continue
        # same achieved point with a different mixture: legitimate only if the implementation's operations lie
        # exactly on the line through the model's two hull vertices (collinear alternatives, decided by rounding)
        mr, ir = m1["rules"][j], o["rules"][str(g)]
        a = tc.point_of_op(rows[g], xm, ym, *mr["op0"])
        b = tc.point_of_op(rows[g], xm, ym, *mr["op1"])
        ok = True
        for w, op in ((ir["p0"], ir["op0"]), (ir["p1"], ir["op1"])):
            if abs(w) <= tc.WTOL:
                continue
            q = tc.point_of_op(rows[g], xm, ym, op[0] == ">", tc._thr_val(op[1]))
            if (b[0] - a[0]) * (q[1] - a[1]) - (b[1] - a[1]) * (q[0] - a[0]) != 0:
                ok = False
        if ok:
            ctx["collinear_alt"] = ctx.get("collinear_alt", 0) + 1
        else:
            probs.append(Problem("correspondence", f"group {g}: implementation rule {ir} vs model rule {mr}",
                                 f"{pid}.rule"))
    if qline is not None and "qpmf1" in o:
        probs += query_correspondence(case, o, m1, qline, pid, ctx)
    return probs, ctx


F18_MARK = "[fitted-threshold-equals-training-score]"
# F18 changes which training rows a stored operation selects, hence the achieved metric values, the implementation's
# apparent grid index, the achieved objective and the comparison of rules / predictions with the exact model.  It CANNOT
# make fit raise, change the dict keys, make _pmf_predict disagree with the stored rule, produce weights that are not a
# mixture or labels that do not follow the reported pmf: those relations are never attributed to the known finding.
F18_NEVER = ("fit-accepts", "keys", "pmf-valid", "pmf-matches-rule", "rule-is-mixture", "predict-shape",
             "predict-follows-pmf", "degenerate", "impl-total")


def mark_f18(case, o, probs):
    """append F18_MARK to the relation of every problem of a case in which the implementation's fitted rule of some group
    uses, with weight > WTOL, a finite threshold equal to one of that group's training scores"""
    if not probs or "rules" not in o:
        return probs
    gs, rows = tc.groups_of(case)
    hit = False
    for g in gs:
        r = o["rules"].get(str(g))
        if not r:
            continue
        scores = {s for s, _ in rows[g]}
        for w, op in ((r["p0"], r["op0"]), (r["p1"], r["op1"])):
            t = tc._thr_val(op[1])
            if isinstance(t, F) and math.isfinite(w) and abs(w) > tc.WTOL and t in scores:
                hit = True
    if hit:
        for p in probs:
            if p.kind in ("property", "correspondence") and not any(
                    (p.relation or "").endswith("." + r) for r in F18_NEVER):
                p.relation = (p.relation or "") + F18_MARK
    return probs


def query_oracle(case, o):
    """PREDICT path, implementation alone: `_pmf_predict` on rows the fit has not seen must be the fitted rule of the
    row's own group applied to the row's own score (0 for an unseen sensitive-feature value), rows must sum to 1, and
    `predict(random_state=s)` must be `[p >= u]` for the replayed draws, reproducibly."""
    probs = []
    q = case["query"]
    us = tc.query_draws(case)
    if len(o["qpmf1"]) != len(q) or len(o["qlabels"]) != len(q):
        return [Problem("property", f"predict path returned {len(o['qpmf1'])} pmf rows / {len(o['qlabels'])} labels for "
                        f"{len(q)} query rows", "C04.predict-shape")]
    for k, (g, s) in enumerate(q):
        p1, p0 = o["qpmf1"][k], o["qpmf0"][k]
        want = F(0) if g == -1 else tc.prob_of_rule(o["rules"][str(g)], tc.qscore(s))
        if not (math.isfinite(p1) and abs(p1 - float(want)) <= TOL):
            probs.append(Problem("property", f"query row {k} (group {g}, score {s}): _pmf_predict gives {p1!r}, the fitted rule "
                                 f"of its group {o['rules'].get(str(g))} gives {float(want)!r}", "C04.pmf-matches-rule"))
            break
        if abs(p0 + p1 - 1) > TOL or p1 < -TOL or p1 > 1 + TOL:
            probs.append(Problem("property", f"query row {k}: pmf row ({p0!r}, {p1!r}) is not a distribution", "C04.pmf-valid"))
            break
        lab = 1 if p1 >= float(us[k]) else 0
        if o["qlabels"][k] != lab:
            probs.append(Problem("property", f"query row {k}: predict(random_state={case.get('pseed')}) returned "
                                 f"{o['qlabels'][k]} but P(1)={p1!r} and the draw u={float(us[k])!r} give {lab}",
                                 "C04.predict-follows-pmf"))
            break
    if "qlabels2" in o and o["qlabels"] != o["qlabels2"]:
        probs.append(Problem("property", "predict with the same seed (int / RandomState) is not reproducible",
                             "C04.predict-follows-pmf"))
    return probs


def query_correspondence(case, o, m1, qline, pid, ctx):
    """fit -> predict in the Lean model (op thrp.*) vs the implementation, on the query rows"""
    probs = []
    q = case["query"]
    if qline in ("degenerate", "bad-op"):
        return [tc.model_problem(f"model predict path answered {qline}", pid)]
    ptok, ltok = qline.split(" ")
    mp = proto.p_list(ptok)
    ml = [int(v) for v in ltok.split(",")] if ltok != "-" else []
    gs, _ = tc.groups_of(case)
    us = tc.query_draws(case)
    pos = {g: j for j, g in enumerate(gs)}
    compared = 0
    for k, (g, s) in enumerate(q):
        want = F(0) if g == -1 else tc.prob_of_rule(m1["rules"][pos[g]], tc.qscore(s))
        if mp[k] != want:
            probs.append(tc.model_problem(f"model _pmf_predict of query row {k} is {mp[k]}, its own rule gives {want}", pid))
            continue
        if len(ml) == len(q) and ml[k] != (1 if mp[k] >= us[k] else 0):
            probs.append(tc.model_problem(f"model label of query row {k} is {ml[k]} for p={mp[k]} u={us[k]}", pid))
        if g != -1 and not tc.same_rule(o["rules"][str(g)], m1["rules"][pos[g]]):
            continue          # a different (collinear / tie) mixture: compared on the training rows only
        compared += 1
        if abs(o["qpmf1"][k] - float(mp[k])) > TOL:
            probs.append(Problem("correspondence", f"query row {k} (group {g}, score {s}): implementation P(1)="
                                 f"{o['qpmf1'][k]!r}, model (fit then predict) {float(mp[k])!r}", f"{pid}.predict-vs-model"))
        elif len(ml) == len(q) and abs(float(mp[k]) - float(us[k])) > 2 * TOL and ml[k] != o["qlabels"][k]:
            probs.append(Problem("correspondence", f"query row {k}: implementation label {o['qlabels'][k]}, model label "
                                 f"{ml[k]} (p={float(mp[k])!r}, u={float(us[k])!r})", f"{pid}.predict-vs-model"))
    ctx["query_compared"] = compared
    return probs


def stash_tags(o, ctx):
    """judge() runs before signature() on the same impl_out object: pass the comparison outcome along as tags"""
    t = []
    if ctx.get("rule_identical"):
        t.append("corr:rule-identical-groups")
    if ctx.get("collinear_alt"):
        t.append("corr:collinear-alternative-mixture")
    if ctx.get("query_compared"):
        t.append("corr:predict-path-rows-compared")
    m0, m1 = ctx.get("m0"), ctx.get("m1")
    if m0 is not None and m1 is not None:
        t.append("corr:argmax-same-index" if m0["i"] == m1["i"] else "corr:argmax-tie-other-index")
        gi = m1["i"]
        t.append("best-index=" + ("0" if gi == 0 else "N" if gi == ctx["grid"] else "interior"))
        if any(r["p0"] == 0 or r["p1"] == 0 for r in m1["rules"]):
            t.append("grid-point-on-hull-vertex")
        if any(r["p_ignore"] not in (None, 0) for r in m1["rules"]):
            t.append("p_ignore>0")
        if any(x == y for x, y in m1["interps"]) and m1["rules"][0]["p_ignore"] is not None:
            t.append("roc-point-on-diagonal")
    if isinstance(o, dict):
        o["_tags"] = t


class ThresholdCheck(Check):
    """common parts of C04 / C05"""
    degenerate_share = 0.04

    def generate(self, rng, tier):
        while True:
            c = tc.gen_case(rng, tier, small=self.small)
            if rng.random() < self.degenerate_share:
                # outside the quantifier on purpose: a group without one label -> both sides must reject
                g = rng.choice(sorted({r[0] for r in c["rows"]}))
                lab = rng.randint(0, 1)
                c["rows"] = [[r[0], lab if r[0] == g else r[1], r[2]] for r in c["rows"]]
            yield c

    def shrink(self, case):
        return tc.shrink_case(case)

    def known(self, case, problem, entries):
        # F18: a score pair whose float midpoint is not strictly between the two scores (adjacent doubles) AND the fitted
        # rule really uses, with non-zero weight, a threshold equal to a training score of its own group (marker set by
        # the judge from the implementation's interpolation_dict); any other violation on such data is still reported
        if problem.kind in ("property", "correspondence") and F18_MARK in (problem.relation or "") \
                and tc.midpoint_rounds_onto_score(case):
            for e in entries:
                if e.get("predicate") == "midpoint_rounds_onto_score":
                    return e
        return None

    def impl(self, case):
        return tc.run_impl(case)

    def lines(self, case, o):
        i_impl = None
        if "rules" in o and tc.in_quantifier(case):
            try:
                gs, _ = tc.groups_of(case)
                view = tc.impl_view(case, o)
                i_impl = int(round(view[gs[0]]["ex"] * case["grid"]))
            except Exception:  # noqa: BLE001
                i_impl = None
        return tc.model_lines(case, i_impl)

    def signature(self, case, o):
        tags = tc.case_tags(case, o)
        if not tc.in_quantifier(case):
            tags.append("outside-quantifier(degenerate group)")
        if "error" in o:
            tags.append("impl-rejected")
            # which ValueError it was is shown in the evidence, not judged (messages are never compared)
            tags.append("impl-rejected:degenerate-labels-message" if o.get("degenerate") else "impl-rejected:other-message")
        tags += o.get("_tags", [])
        key = (case["constraint"], case["objective"], case["flip"], case["grid"],
               tuple(sorted(map(tuple, case["rows"]))))
        return key, tc.in_quantifier(case) and len({r[0] for r in case["rows"]}) >= 2, tags


@register
class CHECK(ThresholdCheck):
    pid = "C04"
    module = "FairModel.Properties.C04X"  # base file + composition theorems (same namespace)
    cross = (("threshold", {"X1.threshold-gamma-zero"}),)
    small = False
    technique = ("Lean 4 theorems over the Threshold model (sweep, monotone-chain hull, interpolation index, fit, fit -> "
                 "predict), the model being DEFINED over four files lifted from the source on every run: METRIC_DICT / "
                 "confusion tables, the geometric core of _tradeoff_curve_utilities.py (hull turn test, interpolation "
                 "weights and index, threshold candidates, sort orders), the predict path (ThresholdOperation.__call__, "
                 "_pmf_predict, predict) and the fit glue (grid, group frequency, accumulation, idxmax, p_ignore) + "
                 "compiled-driver correspondence with ThresholdOptimizer.fit / _pmf_predict / predict")
    level_text = ("Theorems (all datasets with both labels per group, any number of groups, every constraint / "
                  "objective / flip / grid size, no size bound): every tradeoff point is the metric pair of its own "
                  "ThresholdOperation, hull invariants of the monotone chain, non-degenerate interpolation bracket, "
                  "and exact equality in Rat of the expected constrained metric across groups (parity_simple, "
                  "parity_EO incl. p_ignore), restated for the pmf that _pmf_predict computes from the stored "
                  "interpolation_dict (fit_predict_consistent_simple / _EO); src_* theorems pin what the lifted source "
                  "text has to say (turn test <=, p0/p1 and their vertices, searchsorted side and correction, midpoint "
                  "thresholds, sort keys). Tie: fit + interpolation_dict + _pmf_predict vs the compiled Lean model "
                  "on generated and exhaustively enumerated small datasets; independent Fraction oracle decides "
                  "violations from _pmf_predict alone.")
    design_ref = "DESIGN.md section 4, C04"
    quick_cases = 2500
    thorough_cases = 30000
    quick_budget_s = 100
    thorough_budget_s = 1100
    rule = ("datasets of 2-5 groups with 2-30 rows each, every group containing both labels (plus ~4% deliberately "
            "degenerate datasets checked for rejection only); scores over 2-6 dyadic levels (heavy ties), distinct "
            "dyadics k/64, or hard 0/1 predictions; all 6 constraints x admissible objectives x flip x grid sizes "
            "{1,2,3,5,7,10,100,1000}; y / sensitive_features as ndarray (1-d or (n,1)), list (sensitive features also as list of 1-element "
            "lists), Series or DataFrame (y column named or 0), group names str or int; for the pandas containers the index LABELS of y, sensitive_features and X are "
            "drawn independently from {default, a non-identity permutation of 0..n-1, offset +100, shuffled strings} "
            "while rows stay paired by position; rows shuffled. ~22% of the cases are NEAR-TIE datasets: ladders of pairwise "
            "distinct, exactly representable scores k/8 - j*2^t*ulp (t = 1..44, i.e. relative gaps 2^-51 .. 2^-8) mixed with "
            "exact ties and well separated scores. Every case also carries predict-time QUERY rows (training rows, scores "
            "exactly on a candidate threshold, just above / below a score or threshold at a random small scale, +-1000, "
            "an unseen sensitive-feature value) for _pmf_predict and predict(random_state=seed), draws replayed. distinct = distinct (configuration, multiset of rows); non-trivial = inside the "
            "quantifier with >= 2 groups. thorough additionally enumerates ALL multisets of (group,label,level) rows "
            "up to size 7 over 2 groups x 3 levels (14445 datasets) and up to size 8 over 3 groups x 2 levels (3568), the 62 (constraint, objective, flip) configurations and grid sizes cycling over the enumeration.")
    explanation = ("parity theorems proved over the Lean model for all inputs; correspondence compares the "
                   "implementation's rule (as probabilities on the training scores) and achieved (x,y) per group with "
                   "the exact model at the implementation's grid index; a different arg-max is accepted only when the "
                   "exact objective values agree within 1e-12 (floating-point tie), a different mixture only when the "
                   "operations are exactly collinear with the model's bracket; tolerance 1e-12 on O(1) quantities (measured max deviation 6.7e-16)")
    trusted = ("pandas groupby / sort_values(by=[x,y]) stability, np.searchsorted, np.linspace, Series.idxmax are "
               "modelled by their specification (stable lexicographic sort, count of values <= g, i/N, first maximum)",
               "np.around(., d) before the equalized-odds arg-max (d = 15 is lifted: ThresholdFitSrc.aroundDecimals) is the "
               "IDENTITY on the exact model (Threshold.aroundModel / aroundModel_eq) and IEEE rounding is not modelled (exact "
               "arg-max; ties within 1e-12 accepted: the model is then evaluated at the implementation's index)",
               "the pass-through estimator (predict returns the score column) stands for an arbitrary prefit scorer",
               "IEEE rounding of the threshold midpoint is not modelled: the generator keeps every midpoint of two near-tie "
               "scores exactly representable (t >= 1); the remaining case (adjacent doubles) is known finding F18",
               "comparisons with +-inf thresholds, numpy boolean masks and RandomState.rand are modelled by their specification")
    assumptions = ("every group contains both labels", "scores are finite", "grid_size >= 1",
                   "np.around(objective, 15) only merges objective values that differ by float noise (< 1e-12): it is modelled "
                   "as the identity on exact rationals (Threshold.aroundModel_eq)")

    def exhaustive(self, tier):
        cyc = tc.cfg_cycle()
        yield from tc.exhaustive_cases(2, 3, 7, cyc)
        yield from tc.exhaustive_cases(3, 2, 8, cyc)

    def judge(self, case, o, mo):
        probs, ctx = common_judge(case, o, mo, "C04")
        stash_tags(o, ctx)
        return tc.cap_when_tie_broken(mark_f18(case, o, probs))

    def signature(self, case, o):
        return super().signature(case, o)
