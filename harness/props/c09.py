"""C09 — GridSearch trains a faithful best response per grid point and picks the argmin."""
import itertools
import json
import os
from fractions import Fraction as F

import numpy as np
import pandas as pd

from .. import proto
from .. import redoracle as ro
from ..core import Check, Problem, register
from ..learners import RECORDS, ExactLearner, NestedExactLearner, hypotheses

import logging
logging.getLogger("fairlearn").setLevel(logging.ERROR)

TOL = 1e-9          # legacy constant (no comparison uses it any more)
# Review R3: per-comparison tolerances, each <= 100 x the largest deviation measured on the clean tree (quick seeds 0, 1
# and seed 2 at VERIF_BUDGET_SCALE=2, ~1500 cases; run with C09_DEV_FILE=<path> to re-measure):
TOL_LAM = 5e-14     # multiplier entries, float lambda_vecs_ / _GridGenerator.grid vs exact grid; sign and L1 bound (measured 8.9e-16)
TOL_REC = 2e-14     # objectives_ / gammas_ vs the exact values of the predictor (measured 2.8e-16)
TOL_W = 5e-13       # sample weights handed to the learner vs the exact |w|; also the "weight is zero" threshold (measured 7.1e-15)
TOL_BR = F(4, 10 ** 15)   # exact objective+lambda.gamma of a predictor above the exact class minimum (measured 7.4e-17:
#                           exact ties that the float lambda turns into near-ties; the learner's own tie rule is 1e-12 * total weight)
TOL_SEL = F(1, 10 ** 13)  # exact loss of best_idx_ above the exact minimum (measured 0; a float loss carries <= 1e-15 error)
TOL_PROBA = 1e-15   # predict_proba of GridSearch vs of predictors_[best_idx_] (same object, same input: measured 0)
DISTINCT_DIGITS = 12      # two multiplier vectors are "the same" when they agree to 12 decimals (distinct ones differ by >= grid_limit/n_units >= 1/250)
# review R3: the largest deviation seen per comparison category in this process (`python -m harness.props.c09_measure`
# style instrumented runs read it; the per-category tolerances below are <= 100 x the maxima measured on the clean tree)
DEV = {}


def _dev(cat, x):
    x = float(x)
    if x > DEV.get(cat, 0.0):
        DEV[cat] = x
    return x


if os.environ.get("C09_DEV_FILE"):      # instrumented measuring run: dump the maxima at exit
    import atexit
    atexit.register(lambda: open(os.environ["C09_DEV_FILE"] + f".{os.getpid()}", "w").write(json.dumps(DEV, indent=1)))


def _mat_far(cat, exact, fl, tol):
    """exact matrix (Fractions, list of columns) vs float matrix: True when the shapes differ or an entry is farther
    than `tol` (every entry is looked at: zip truncation must not hide a missing row)"""
    if len(exact) != len(fl) or any(len(cm) != len(ci) for cm, ci in zip(exact, fl)):
        return True
    d = max((abs(a - float(b_)) for cm, ci in zip(exact, fl) for b_, a in zip(cm, ci)), default=0.0)
    return _dev(cat, d) > tol


MOMENTS = ("DP", "TPR", "FPR", "EO", "ERP", "BGL")
_COUNTER = itertools.count()


def fr(x):
    return F(x)


# The source fragments Generated/GridSrc.lean is lifted from, as harness/lifters/grid.py reports them for the tree
# the Fraction oracle (redoracle.grid_lambdas, Problem.*) was written against.  While they are unchanged a
# model/oracle disagreement is a bug of this machinery (HARNESS-ERROR); once one of them differs the Lean model
# follows the edited source, so a model/oracle disagreement is a BROKEN TIE and is reported as a correspondence
# problem naming the fragment (exit 1).
PINNED = {
    "atEnd": "index == self.dim",
    "lastForced": "index == self.dim - 1 and self.force_L1_norm",
    "lastValues": "[-max_val, max_val] if self.neg_allowed[index] and max_val > 0 else [max_val]",
    "rangeValues": "min_val = -max_val if self.neg_allowed[index] else 0; values = range(min_val, max_val + 1)",
    "nextIndex": "index + 1",
    "budget": "max_val - abs(current_value)",
    "startIndex": "0",
    "defaultOffset": "pd.Series(0, index=pos_basis.index)",
    "trueDim": "self.dim - 1 if self.force_L1_norm else self.dim",
    "nextUnits": "n_units + 1",
    "estimate": "(float(grid_size) / 2.0 ** neg_allowed.sum()) ** (1.0 / true_dim) - 1",
    "estimateClip": "if n_units < 0:     n_units = 0",
    "enough": "len(int_grid) >= grid_size",
    "truncate": "self.accumulator[:grid_size]",
    "scale": "float(grid_limit) / n_units",
    "negOf": "neg_coefs = -pos_coefs.copy()",
    "posClip": "pos_coefs[pos_coefs < 0] = 0.0",
    "negClip": "neg_coefs[neg_coefs < 0] = 0.0",
    "negFromClipped": False,
    "basisMap": "pos_basis.dot(pos_coefs) + neg_basis.dot(neg_coefs)",
    "offset": "_grid.add(self.grid_offset, axis='index')",
    "objectiveWeight": "1.0 - constraint_weight",
    "combine": "if not objective_in_the_span:     weights = weights + objective.signed_weights()",
    "relabelY": "y_reduction = 1 * (weights > 0)",
    "relabelW": "weights = weights.abs()",
    "useDummy": "len(y_reduction_unique) == 1",
    "regression": "y_reduction = self.constraints._y_as_series",
    "isClassification": "isinstance(self.constraints, ClassificationMoment) -> true / false",
    "loss": ("(1.0 - self.constraint_weight) * self.objectives_[i] + self.constraint_weight * self.gammas_[grid.columns[i]].max()",
             "self.objective_weight * self.objectives_[i] + self.constraint_weight * self.gammas_[grid.columns[i]].max()"),
    "gammaAgg": "max",
    "bestIdx": "losses.index(min(losses))",
    "delegation": "self.predictors_[self.best_idx_]",
}
_LIFTED = {}


def lifted_meta():
    if "m" not in _LIFTED:
        from .. import core, translate
        try:
            _LIFTED["m"] = translate.run(core.REPO).get("GridSrc.lean", {})
            _LIFTED["v"] = sorted(k for k in PINNED if not (
                _LIFTED["m"].get(k) in PINNED[k] if isinstance(PINNED[k], tuple) else _LIFTED["m"].get(k) == PINNED[k]))
        except translate.Untranslatable as e:
            _LIFTED["m"] = {}
            _LIFTED["v"] = ["untranslatable: " + str(e)[:160]]
    return _LIFTED["m"]


def lifted_changes():
    """names of the lifted fragments that differ from PINNED (cached per process)"""
    lifted_meta()
    return _LIFTED["v"]


def mo_kind():
    """kind of a model-vs-oracle disagreement: our bug on the pinned source, a broken tie otherwise"""
    return "correspondence" if lifted_changes() else "harness"


def mo_rel(rel):
    ch = lifted_changes()
    return rel + (f" [lifted fragment(s) changed: {', '.join(ch)}]" if ch else "")


class _Dim:
    def __init__(self, dim, force):
        self.dim, self.force_L1_norm = dim, force


def float_estimate(neg_allowed, force, grid_size):
    """The initial n_units the SOURCE computes, obtained by evaluating the lifted expressions in binary64 exactly as
    the source does (`true_dim`, the root expression, int(np.floor(.)), the clip at 0).  None when the lifted text
    is unavailable or not evaluable."""
    meta = lifted_meta()
    try:
        true_dim = eval(meta["trueDim"], {}, {"self": _Dim(len(neg_allowed), force)})  # noqa: S307 (lifted source text)
        if true_dim < 1:
            return None
        n = eval(meta["estimate"], {"np": np}, {"grid_size": grid_size, "neg_allowed": np.array(neg_allowed, dtype=bool),
                                                "true_dim": true_dim, "float": float})
        n = int(np.floor(n))
        # the clip is the LIFTED statement (`if n_units < 0: n_units = 0` in the pinned source), executed as it is
        var = meta["estimateVar"]
        scope = {var: n}
        exec(meta["estimateClip"], {}, scope)  # noqa: S102 (lifted source text, already type-checked by the lifter)
        return int(scope[var])
    except Exception:  # noqa: BLE001
        return None


def offset_of(case, keys):
    """grid_offset entries for the constraint index entries `keys` (lists of str), assigned in sorted key order"""
    offs = case.get("offset")
    if not offs:
        return None
    order = sorted(range(len(keys)), key=lambda i: keys[i])
    out = [None] * len(keys)
    for rank, i in enumerate(order):
        out[i] = F(offs[rank % len(offs)])
    return out


def mk_moment(case):
    import fairlearn.reductions as red
    eps = float(F(case["eps"]))
    if case["moment"] == "BGL":
        loss = red.ZeroOneLoss() if case.get("loss", "zero_one") == "zero_one" else red.SquareLoss(0, 1)
        return red.BoundedGroupLoss(loss, upper_bound=eps)
    cls = {"DP": red.DemographicParity, "TPR": red.TruePositiveRateParity, "FPR": red.FalsePositiveRateParity,
           "EO": red.EqualizedOdds, "ERP": red.ErrorRateParity}[case["moment"]]
    if case["ratio"] is None:
        return cls(difference_bound=eps)
    return cls(ratio_bound=float(F(case["ratio"])), ratio_bound_slack=eps)


def containers(case):
    x, y, g = case["x"], case["y"], case["g"]
    kind = case.get("container", "df")
    if kind == "df":
        return pd.DataFrame({"f": x}), pd.Series(y), pd.Series(g)
    if kind == "np":
        return np.array(x, dtype=float).reshape(-1, 1), np.array(y), np.array(g)
    if kind == "list":
        return pd.DataFrame({"f": x}), list(y), list(g)
    if kind == "frame":
        return pd.DataFrame({"f": x}), pd.DataFrame({"y": y}), pd.DataFrame({"g": g})
    raise ValueError(kind)


def test_matrix(case, vals):
    if case.get("container", "df") == "np":
        return np.array(vals, dtype=float).reshape(-1, 1)
    return pd.DataFrame({"f": vals})


def idx_key(t):
    return [str(v) for v in (t if isinstance(t, tuple) else (t,))]


def problem_of(case):
    return ro.Problem(case["moment"], case["y"], case["g"],
                      ratio=F(case["ratio"]) if case.get("ratio") else F(1), eps=F(case["eps"]))


def labelings(case):
    vals = sorted(set(case["x"]))
    pos = {v: j for j, v in enumerate(vals)}
    return [[h[pos[v]] for v in case["x"]] for h in hypotheses(case["kind"], len(vals))]


def has_history(case):
    """~30 % of the fit cases (derived from the case content, so the generator's rng stream is untouched)"""
    if case.get("kind") == "gen" or case.get("offset"):
        return False
    import random as _r
    return _r.Random(json.dumps(case, sort_keys=True, default=str)).random() < 0.3


def nested_learner(case):
    import random as _r
    return case.get("kind") != "gen" and _r.Random("nested" + json.dumps(case, sort_keys=True, default=str)).random() < 0.3


def aux_data(X, y, sf):
    """auxiliary data set of the previous life: rows reversed, labels inverted, first two rows dropped when long enough"""
    import numpy as _np
    import pandas as _pd
    k = 2 if len(y) >= 6 else 0

    def rev(a):
        if isinstance(a, (_pd.DataFrame, _pd.Series)):
            return a.iloc[::-1].iloc[k:].reset_index(drop=True)
        return _np.asarray(a)[::-1][k:].copy() if not isinstance(a, list) else list(a)[::-1][k:]
    ya = rev(y)
    ya = [1 - int(v) for v in ya] if isinstance(ya, list) else 1 - ya
    return rev(X), ya, rev(sf)



@register
class CHECK(Check):
    pid = "C09"
    module = "FairModel.Properties.C09X"  # base file + composition theorems (same namespace)
    cross = (("grid", {"X1.grid-selection"}),)
    technique = ("Lean 4 theorems over the Grid model, which is DEFINED over expressions lifted from the source on every run "
                 "(Generated/GridSrc.lean: lattice recursion, search loop, truncation, scaling, clipping, basis map order, "
                 "relabelling, trade-off loss, arg-min, delegation) + compiled-driver correspondence with GridSearch.fit/predict "
                 "driven through an exact recording learner and with _GridGenerator alone")
    level_text = ("Theorems (all inputs): the recursion of accumulate_integer_grid over the lifted expressions enumerates exactly "
                  "the sign-restricted L1 ball/sphere (sound+complete), duplicate-free, in strictly increasing lexicographic "
                  "order (truncation keeps the least grid_size points), strictly growing in the radius (termination of the "
                  "while-True search, least radius); the float starting point of the search is an input: from ANY start the loop "
                  "stops at max(start, least radius), a start that does not exceed the exact value of the lifted expression "
                  "(decidable predicate evaluated on the float estimate of every case) gives the SAME grid, any other start a "
                  "coarser but still valid one; the mapped multipliers are grid_size many, non-negative, of L1 norm <= grid_limit "
                  "(= grid_limit exactly when the norm is forced), pairwise distinct when every basis column is a distinct unit "
                  "vector, also after a grid_offset shift; zero vector characterised; first-arg-min spec for any list of "
                  "(objective, gamma) records, equal to a running arg-min, predict delegates to it; weighted 0/1 error on "
                  "relabelled data = const - sum w_i h_i and the resulting arg-min equivalence. Tie: lifter (refuses unknown "
                  "shapes; an edited expression re-checks or breaks the bridge lemmas) + GridSearch on generated data sets vs "
                  "the compiled model started at the source's own float estimate (lambda_vecs_ incl. grid_offset, best_idx_, "
                  "combined weights / relabelling / dummy rule seen by the learner) and a Fraction oracle of every clause.")
    design_ref = "DESIGN.md section 4, C09"
    quick_cases = 450
    thorough_cases = 12000
    quick_budget_s = 100
    thorough_budget_s = 1200
    rule = ("binary data sets of 4..14 rows, one feature with 2..4 distinct values, 2..4 sensitive groups (each present; both "
            "labels present), moments DP/TPR/FPR/EO/ERP with difference bound or ratio bound in {1/2,4/5,1} and BoundedGroupLoss"
            "(ZeroOneLoss|SquareLoss(0,1)), grid_size 2..60, grid_limit in {1/2,1,3/2,2,3,5}, constraint_weight dyadic in "
            "[0,1], exact learner over all 2^k labelings or the 2k threshold labelings, containers DataFrame/ndarray/list/"
            "single-column frames; grid_offset None (85%) or a dyadic Series over the constraint index; includes data where "
            "a group lacks a label; 12% of the cases run _GridGenerator ALONE on unit bases (1..4 coordinates, any neg_allowed "
            "pattern, forced or free L1 norm, grid_size 1..125); thorough adds the exhaustive enumeration of all patterns x "
            "grid_size 1..100 (a test); distinct = distinct case; non-trivial = grid with >= 2 distinct trained labelings or "
            ">= 3 grid points; bound slack eps in {0,1/100,1/8,1/4}; constraint_weight in {0,1/8,1/4,1/2,3/4,7/8,1}; the learner "
            "breaks cost ties within 1e-12 x total weight in favour of the first labeling; ~30% of the fit cases refit a "
            "GridSearch object that had a previous life on auxiliary data, ~30% use a learner whose fitted state is nested; "
            "generator-only cases force the L1 norm only with >= 2 coordinates (true_dim >= 1: with true_dim = 0 the source "
            "raises ZeroDivisionError in 1.0/true_dim, outside the quantifier); tolerances: 5e-14 on multipliers, 2e-14 on "
            "recorded objective/gamma, 5e-13 on sample weights, 4e-15 best-response excess, 1e-13 selection excess "
            "(<= 100 x the measured maxima 8.9e-16, 2.8e-16, 7.1e-15, 7.4e-17, 0)")
    explanation = ("theorems over Model/Grid.lean (defined over Generated/GridSrc.lean); model-vs-oracle disagreements are "
                   "HARNESS-ERROR only while the lifted fragments equal the pinned text, a broken tie otherwise; the two hypotheses of the distinctness / L1 theorems (unitBasis, basisOK) are "
                   "evaluated by the driver on the bases exported from every fitted estimator; GridSearch.fit returning None "
                   "is C19's business and ignored here")
    trusted = ("the reduction identity err + lambda.gamma = const - (1/n) sum w_i h_i is C07's theorem; here it is checked "
               "per case by the Fraction oracle (every trained labeling is compared with the exact minimum over the class)",
               "pandas DataFrame.dot / index alignment inside GridSearch (checked through the correspondence only)",
               "harness/learners.py ExactLearner is the 'exact cost-sensitive learner' the property is conditional on")
    assumptions = ("both labels and at least two groups occur in the data", "grid_size >= 2, grid_limit > 0",
                   "the grid argument is left at None; grid_offset is None or a Series over the constraint index "
                   "(then only count, distinctness, relabelling, best response, records, selection and delegation are "
                   "checked: non-negativity and the L1 bound are stated for the unshifted grid)")

    # ---------------------------------------------------------------- _GridGenerator alone (unit bases)
    @staticmethod
    def _gen_bases(d):
        idx = [f"p{j}" for j in range(d)] + [f"m{j}" for j in range(d)]
        pos = [[1 if (i == j) else 0 for j in range(d)] for i in range(d)] + [[0] * d for _ in range(d)]
        neg = [[0] * d for _ in range(d)] + [[1 if (i == j) else 0 for j in range(d)] for i in range(d)]
        return idx, pos, neg

    def _gen_impl(self, case):
        from fairlearn.reductions._grid_search._grid_generator import _GridGenerator
        na, d = case["na"], len(case["na"])
        idx, pos, neg = self._gen_bases(d)
        pos_b = pd.DataFrame([[float(v) for v in r] for r in pos], index=idx, columns=range(d))
        neg_b = pd.DataFrame([[float(v) for v in r] for r in neg], index=idx, columns=range(d))
        try:
            g = _GridGenerator(case["grid_size"], float(F(case["grid_limit"])), pos_b, neg_b,
                               pd.Series([bool(b) for b in na], index=range(d)), bool(case["force"])).grid
        except ZeroDivisionError:
            return {"exc": "ZeroDivisionError"}
        return {"lam": [[float(v) for v in g[c].tolist()] for c in g.columns], "rows": [str(i) for i in g.index]}

    def _gen_lines(self, case, o):
        na, d = case["na"], len(case["na"])
        _, pos, neg = self._gen_bases(d)
        n0 = float_estimate(na, case["force"], case["grid_size"])
        head = f"{proto.lst(na, proto.b)} {proto.b(case['force'])} {case['grid_size']}"
        return [f"grid.lambdas0 {head} {proto.rat(F(case['grid_limit']))} {proto.mat(pos)} {proto.mat(neg)} "
                f"{n0 if n0 is not None else 0} {proto.lst([0] * (2 * d))}",
                f"grid.estimate {head} {n0 if n0 is not None else 0}"]

    def _gen_judge(self, case, o, mo):
        probs = []
        na, d, gsz, limit = case["na"], len(case["na"]), case["grid_size"], F(case["grid_limit"])
        idx, pos, neg = self._gen_bases(d)
        n_or, lam_or = ro.grid_lambdas(na, case["force"], gsz, limit, [[F(v) for v in r] for r in pos],
                                       [[F(v) for v in r] for r in neg])
        where = f"_GridGenerator(grid_size={gsz}, grid_limit={limit}, neg_allowed={na}, force_L1_norm={case['force']})"
        if "exc" in o:
            if lam_or is not None:
                probs.append(Problem("property", f"{where} raised {o['exc']}", "C09.grid_exists"))
        else:
            lam = o["lam"]
            if o["rows"] != idx:
                probs.append(Problem("correspondence", f"{where}: grid index {o['rows']}", "C09.index"))
            if len(lam) != gsz:
                probs.append(Problem("property", f"{where}: {len(lam)} vectors", "C09.grid_length"))
            if len({tuple(round(v, DISTINCT_DIGITS) for v in c) for c in lam}) != len(lam):
                probs.append(Problem("property", f"{where}: duplicate multiplier vectors", "C09.grid_distinct"))
            for i, c in enumerate(lam):
                l1 = sum(abs(v) for v in c)
                _dev("gen.negative", max(0.0, -min(c)))
                _dev("gen.l1-over", max(0.0, l1 - float(limit)))
                if case["force"]:
                    _dev("gen.l1-forced", abs(l1 - float(limit)))
                if min(c) < -TOL_LAM or l1 > float(limit) + TOL_LAM or (case["force"] and abs(l1 - float(limit)) > TOL_LAM):
                    probs.append(Problem("property", f"{where}: vector {i} = {c} (negative entry, L1 norm > grid_limit, or L1 "
                                                     f"norm != grid_limit although forced)", "C09.grid_nonneg / grid_l1_le_limit"))
                    break
            if lam_or is None or _mat_far("gen.lam", lam_or, lam, TOL_LAM):
                probs.append(Problem("correspondence", f"{where}: grid differs from the documented one (n_units={n_or})",
                                     "C09.grid (lattice order / scale / basis map)"))
        if mo is not None and len(mo) == 2:
            head = mo[0].split(" ")
            if head[0].startswith("err") or head[0] == "bad-op":
                if (lam_or is not None) or head[0] == "bad-op":
                    probs.append(Problem(mo_kind(), f"{where}: model {mo[0]}, oracle n_units={n_or}", mo_rel("C09.grid_exists")))
                if "exc" not in o:
                    probs.append(Problem("correspondence", f"{where}: model {mo[0]} but the implementation returns a grid",
                                         "C09.grid_exists"))
            else:
                n_m, no_over, lam_m = int(head[0]), head[1] == "1", proto.p_mat(head[2])
                if lam_or is None or n_m != n_or or lam_m != lam_or:
                    probs.append(Problem(mo_kind() if no_over else "correspondence",
                                         f"{where}: model grid (n={n_m}) != documented grid (n={n_or})",
                                         mo_rel("C09.estimate_harmless / source_lattice_eq")))
                if "lam" in o and _mat_far("gen.lam-model", lam_m, o["lam"], TOL_LAM):
                    probs.append(Problem("correspondence", f"{where}: grid differs from the model started at the source's float "
                                                           f"estimate (model n_units={n_m})", "C09.grid (search from the estimate)"))
            est = mo[1].split(" ")
            if len(est) == 3:
                if est[0] != "1":
                    probs.append(Problem("correspondence", f"{where}: the float estimate "
                                                           f"{float_estimate(na, case['force'], gsz)} exceeds the exact value of the "
                                                           f"lifted expression", "C09.estimate_harmless hypothesis"))
                if n_or is not None and int(est[1]) != n_or:
                    probs.append(Problem(mo_kind(), f"{where}: model least radius {est[1]} != oracle {n_or}",
                                         mo_rel("C09.nUnits_least")))
                n0 = float_estimate(na, case["force"], gsz) or 0
                if n_or is not None and int(est[2]) != max(n0, int(est[1])):
                    probs.append(Problem("harness", f"{where}: searchFrom gives {est[2]}, max(n0, least) = {max(n0, int(est[1]))}"))
        return probs

    def _gen_case(self, rng):
        d = rng.choice([1, 2, 2, 3, 3, 4])
        force = rng.random() < 0.4 and d >= 2
        return {"kind": "gen", "na": [rng.randint(0, 1) for _ in range(d)], "force": force,
                "grid_size": rng.choice([1, 2, 3, 4, 5, 7, 8, 9, 10, 16, 25, 27, 31, 40, 60, 64, 81, 100, 125]),
                "grid_limit": rng.choice(["1/2", "1", "2", "3"])}

    def exhaustive(self, tier):
        """TEST (not a proof): every (neg_allowed, force_L1_norm) pattern for 1..4 coordinates x every grid_size 1..100:
        the real _GridGenerator against the model started at the source's float estimate, the documented grid, and the
        no-overshoot predicate of the estimate"""
        for d in range(1, 5):
            for force in (False, True):
                if force and d < 2:
                    continue
                for na in itertools.product((0, 1), repeat=d):
                    for gsz in range(1, 101):
                        yield {"kind": "gen", "na": list(na), "force": force, "grid_size": gsz, "grid_limit": "2"}

    # ---------------------------------------------------------------- generation
    def generate(self, rng, tier):
        while True:
            if rng.random() < 0.12:
                yield self._gen_case(rng)
                continue
            n = rng.choice([4, 5, 6, 6, 7, 8, 8, 9, 10, 12, 14])
            k = rng.choice([2, 3, 3, 4])
            ng = rng.choice([2, 2, 3, 3, 4])
            groups = list("abcd")[:ng]
            rng.shuffle(groups)
            x = [rng.randrange(k) for _ in range(n)]
            y = [rng.randint(0, 1) for _ in range(n)]
            g = [rng.choice(groups) for _ in range(n)]
            for i, gg in enumerate(groups):   # every group present
                g[i % n] = gg
            moment = rng.choice(["DP", "TPR", "FPR", "EO", "EO", "ERP", "BGL"])
            if rng.random() < 0.1 and moment in ("EO", "TPR", "FPR"):
                # make one group lack a label class (the F6 shape when that group is not the last-seen one)
                gg = rng.choice(groups)
                lab = rng.randint(0, 1)
                y = [lab if gi == gg else yi for yi, gi in zip(y, g)]
            if len(set(y)) < 2:
                y[rng.randrange(n)] = 1 - y[0]
                if len(set(y)) < 2:
                    continue
            if len(set(g)) < 2 or len(set(x)) < 2:
                continue
            ratio = None
            if moment != "BGL" and rng.random() < 0.35:
                ratio = rng.choice(["1/2", "4/5", "1"])
            gsz = rng.choice([2, 3, 4, 5, 6, 7, 8, 9, 10, 10, 12, 15, 20, 20, 25, 31, 40, 60])
            case = {"x": x, "y": y, "g": g, "moment": moment, "ratio": ratio,
                    "eps": rng.choice(["1/100", "1/8", "1/4", "0"]),
                    "kind": rng.choice(["all", "all", "threshold"]),
                    "grid_size": gsz, "grid_limit": rng.choice(["1/2", "1", "3/2", "2", "2", "3", "5"]),
                    "cw": rng.choice(["0", "1/4", "1/2", "1/2", "3/4", "1", "1/8", "7/8"]),
                    "container": rng.choice(["df", "df", "np", "list", "frame"])}
            if moment == "BGL":
                case["loss"] = rng.choice(["zero_one", "square"])
            if rng.random() < 0.15:
                case["offset"] = [rng.choice(["0", "1/4", "1/2", "1", "3/4", "1/8", "2"]) for _ in range(rng.choice([1, 3, 5]))]
            yield case

    def shrink(self, case):
        if case.get("kind") == "gen":
            for g_ in sorted({1, 2, case["grid_size"] // 2, case["grid_size"] - 1}):
                if 1 <= g_ < case["grid_size"]:
                    yield dict(case, grid_size=g_)
            if len(case["na"]) > 1:
                yield dict(case, na=case["na"][:-1], force=case["force"] and len(case["na"]) > 2)
            return
        n = len(case["x"])
        for gs_ in sorted({2, 3, case["grid_size"] // 2, case["grid_size"] - 1}):
            if 2 <= gs_ < case["grid_size"]:
                yield dict(case, grid_size=gs_)
        for i in range(n):
            c = dict(case)
            for key in ("x", "y", "g"):
                c[key] = case[key][:i] + case[key][i + 1:]
            if len(c["x"]) >= 3 and len(set(c["y"])) == 2 and len(set(c["g"])) >= 2 and len(set(c["x"])) >= 2:
                yield c
        if case.get("offset"):
            yield {k: v for k, v in case.items() if k != "offset"}
        if case.get("container") != "df":
            yield dict(case, container="df")
        if case["cw"] != "1/2":
            yield dict(case, cw="1/2")
        if case["grid_limit"] != "2":
            yield dict(case, grid_limit="2")
        if case["kind"] != "all":
            yield dict(case, kind="all")

    # ---------------------------------------------------------------- implementation
    def impl(self, case):
        if case.get("kind") == "gen":
            return self._gen_impl(case)
        import fairlearn.reductions as red
        from sklearn.dummy import DummyClassifier
        tag = f"c09-{os.getpid()}-{next(_COUNTER)}"
        X, y, sf = containers(case)
        moment = mk_moment(case)
        grid_offset = None
        if case.get("offset"):
            probe = mk_moment(case)
            probe.load_data(X, y, sensitive_features=sf)
            keys = [idx_key(t) for t in probe.index]
            grid_offset = pd.Series([float(v) for v in offset_of(case, keys)], index=probe.index)
        # in ~30 % of the cases the learner keeps its fitted state in a nested mutable object (like a Pipeline's steps)
        learner = NestedExactLearner(case["kind"], tag) if nested_learner(case) else ExactLearner(case["kind"], tag)
        gs = red.GridSearch(learner, moment, constraint_weight=float(F(case["cw"])),
                            grid_size=case["grid_size"], grid_limit=float(F(case["grid_limit"])), grid_offset=grid_offset)
        if has_history(case):
            # the same GridSearch (and the same constraints object) had a previous life: fit on other data + a prediction.
            # Every clause is about the state after the LAST fit, whatever the call history.
            try:
                Xa, ya, sfa = aux_data(X, y, sf)
                gs.fit(Xa, ya, sensitive_features=sfa)
                gs.predict(Xa)
            except (ZeroDivisionError, ValueError):
                pass        # e.g. the known all-zero-weights crash (F12) on the auxiliary data: no previous life then
            RECORDS.pop(tag, None)
        try:
            gs.fit(X, y, sensitive_features=sf)
        except (ZeroDivisionError, ValueError) as e:
            RECORDS.pop(tag, None)
            return {"exc": type(e).__name__}
        records = RECORDS.pop(tag, [])
        cons = gs.constraints
        out = {}
        out["index"] = [idx_key(t) for t in cons.index]
        lam = gs.lambda_vecs_
        out["lam_index"] = [idx_key(t) for t in lam.index]
        out["lam"] = [[float(v) for v in lam[c].tolist()] for c in lam.columns]
        cols = sorted(cons.pos_basis.columns)
        out["pos_rows"] = [[float(v) for v in r] for r in cons.pos_basis.reindex(lam.index)[cols].to_numpy()]
        out["neg_rows"] = [[float(v) for v in r] for r in cons.neg_basis.reindex(lam.index)[cols].to_numpy()]
        nbp = cons.neg_basis_present
        out["neg_allowed"] = [bool(nbp[c]) for c in cols]
        out["force"] = cons.default_objective_lambda_vec is not None
        vals = sorted(set(case["x"]))
        Xt = test_matrix(case, vals)
        preds = []
        for p in gs.predictors_:
            preds.append({"dummy": isinstance(p, DummyClassifier),
                          "train": [int(v) for v in np.asarray(p.predict(X)).reshape(-1)],
                          "vals": [int(v) for v in np.asarray(p.predict(Xt)).reshape(-1)]})
        out["predictors"] = preds
        out["records"] = records
        out["objectives"] = [float(v) for v in gs.objectives_]
        gm = gs.gammas_
        out["gam_index"] = [idx_key(t) for t in gm.index]
        out["gammas"] = [[float(v) for v in gm[c].tolist()] for c in gm.columns]
        out["best_idx"] = int(gs.best_idx_)
        out["predict"] = [int(v) for v in np.asarray(gs.predict(Xt)).reshape(-1)]
        out["predict_best"] = [int(v) for v in np.asarray(gs.predictors_[gs.best_idx_].predict(Xt)).reshape(-1)]
        out["proba"] = [[float(v) for v in r] for r in np.asarray(gs.predict_proba(Xt))]
        out["proba_best"] = [[float(v) for v in r] for r in np.asarray(gs.predictors_[gs.best_idx_].predict_proba(Xt))]
        return out

    # ---------------------------------------------------------------- oracle helpers
    def _exact(self, case, o):
        """everything the oracle derives from the case and the implementation's outputs"""
        P = problem_of(case)
        span = case["moment"] == "BGL"
        idx = [tuple(k) for k in o["lam_index"]]
        lams = [{k: F(v) for k, v in zip(idx, col)} for col in o["lam"]]
        ws = []
        self._parts = []
        self._fit_w = []
        for lam in lams:
            if span:
                w = P.bgl_weights(lam)
                self._fit_w.append(list(w))
                ws.append([wi if yi == 1 else -wi for wi, yi in zip(w, case["y"])])
                self._parts.append((ws[-1], [F(0)] * P.n))
            else:
                ws.append(P.signed_weights(lam))
                self._fit_w.append(list(ws[-1]))
                cwt = P.signed_weights(lam, with_objective=False)
                self._parts.append((cwt, [a - b_ for a, b_ in zip(ws[-1], cwt)]))
        objs = [P.objective(p["train"]) for p in o["predictors"]]
        gams = [P.gamma(p["train"]) for p in o["predictors"]]
        return P, span, idx, lams, ws, objs, gams

    def lines(self, case, o):
        if case.get("kind") == "gen":
            return [] if "crash" in o else self._gen_lines(case, o)
        if "crash" in o or "exc" in o:
            return []
        P, span, idx, lams, ws, objs, gams = self._exact(case, o)
        ls = [f"grid.lambdas {proto.lst(o['neg_allowed'], proto.b)} {proto.b(o['force'])} {case['grid_size']} "
              f"{proto.rat(F(case['grid_limit']))} {proto.mat(o['pos_rows'])} {proto.mat(o['neg_rows'])}"]
        ls.append(f"grid.select {proto.rat(F(case['cw']))} {proto.lst(objs)} "
                  f"{proto.mat([[gm[k] for k in P.index] for gm in gams])}")
        for w, p in zip(ws, o["predictors"]):
            ls.append(f"grid.relabel {proto.lst(w)}")
            ls.append(f"grid.cost {proto.lst(w)} {proto.lst(p['train'])}")
        # -- source-following ops (lifted estimate as start of the search, offset, whole-loop selection, weights)
        n0 = float_estimate(o["neg_allowed"], o["force"], case["grid_size"])
        off = offset_of(case, o["lam_index"]) or [F(0)] * len(o["lam_index"])
        ls.append(f"grid.lambdas0 {proto.lst(o['neg_allowed'], proto.b)} {proto.b(o['force'])} {case['grid_size']} "
                  f"{proto.rat(F(case['grid_limit']))} {proto.mat(o['pos_rows'])} {proto.mat(o['neg_rows'])} "
                  f"{n0 if n0 is not None else 0} {proto.lst(off)}")
        ls.append(f"grid.select2 {proto.rat(F(case['cw']))} {proto.lst(objs)} "
                  f"{proto.mat([[gm[k] for k in P.index] for gm in gams])}")
        for cwt, owt in self._parts:
            ls.append(f"grid.weights {proto.b(span)} {proto.lst(cwt)} {proto.lst(owt)}")
        if self._parts:
            ls.append(f"grid.fitloop {proto.b(span)} {proto.rat(F(case['cw']))} {proto.lst(self._parts[0][1])} "
                      f"{proto.mat([c for c, _ in self._parts])} {proto.mat([p['train'] for p in o['predictors']])} "
                      f"{proto.lst(objs)} {proto.mat([[gm[k] for k in P.index] for gm in gams])}")
            # what the estimator is fitted on, through the lifted `if is_classification_reduction: ... else: ...`
            for fw in self._fit_w:
                ls.append(f"grid.fitdata {proto.b(not span)} {proto.lst([F(v) for v in case['y']])} {proto.lst(fw)}")
        return ls

    # ---------------------------------------------------------------- judging
    def judge(self, case, o, mo):
        if "crash" in o:
            return [Problem("correspondence", f"implementation crashed: {o}", "impl-total")]
        if case.get("kind") == "gen":
            return self._gen_judge(case, o, mo)
        if "exc" in o:
            zero = self._zero_weight_points(case)
            if o["exc"] == "ValueError" and zero:
                return [Problem("property", f"GridSearch.fit raised ValueError: every signed weight is exactly 0 at grid "
                                            f"point(s) {zero[:4]}, the DummyClassifier cannot be fitted", "C09.zero_weights")]
            return [Problem("property", f"GridSearch.fit raised {o['exc']} inside the quantifier", "C09.grid_exists")]
        probs = []
        P, span, idx, lams, ws, objs, gams = self._exact(case, o)
        gsz, limit, cw = case["grid_size"], F(case["grid_limit"]), F(case["cw"])
        H = labelings(case)

        # -- clause 1: grid_size distinct non-negative vectors of L1 norm <= grid_limit ---------------
        if len(o["lam"]) != gsz or len(o["predictors"]) != gsz:
            probs.append(Problem("property", f"{len(o['lam'])} multiplier vectors / {len(o['predictors'])} predictors "
                                             f"for grid_size={gsz}", "C09.grid_length"))
        if sorted(map(tuple, o["lam_index"])) != sorted(P.index) and not span:
            probs.append(Problem("correspondence", f"multiplier index {o['lam_index']} != observed (sign,event,group) "
                                                   f"entries {P.index}", "C09.index"))
        off = offset_of(case, o["lam_index"])
        for i, col in enumerate(o["lam"] if off is None else []):
            _dev("lam.negative", max(0.0, -min(col)))
            _dev("lam.l1-over", max(0.0, sum(abs(v) for v in col) - float(limit)))
            if min(col) < -TOL_LAM:
                probs.append(Problem("property", f"multiplier vector {i} has a negative entry {min(col)}", "C09.grid_nonneg"))
            if sum(abs(v) for v in col) > float(limit) + TOL_LAM:
                probs.append(Problem("property", f"multiplier vector {i} has L1 norm {sum(abs(v) for v in col)} > "
                                                 f"grid_limit {limit}", "C09.grid_l1_le_limit"))
        distinct = len({tuple(round(v, DISTINCT_DIGITS) for v in col) for col in o["lam"]})
        if distinct != len(o["lam"]):
            probs.append(Problem("property", f"only {distinct} distinct multiplier vectors of {len(o['lam'])}",
                                 "C09.grid_distinct"))

        # -- clause 2: trained on the relabelled / reweighted data; best response -------------------------
        rec = list(o["records"])
        costs = []
        for i, (lam, w, p) in enumerate(zip(lams, ws, o["predictors"])):
            yr, wr = ro.relabel(w)
            if span:
                yr = list(case["y"])
            # rows whose exact weight is (numerically) zero may get either label from float noise
            single = len({yy for yy, ww in zip(yr, wr) if span or ww > TOL_W}) <= 1
            if p["dummy"]:
                if not single:
                    probs.append(Problem("property", f"grid point {i}: a constant DummyClassifier was trained although the "
                                                     f"relabelled data has both labels", "C09.relabel"))
            else:
                if not rec:
                    probs.append(Problem("property", f"grid point {i}: the base learner was never fitted", "C09.relabel"))
                else:
                    r = rec.pop(0)
                    ok_len = len(r["y"]) == P.n and len(r["w"]) == P.n
                    bad_y = [j for j in range(P.n) if wr[j] > TOL_W and r["y"][j] != yr[j]] if ok_len else []
                    bad_w = [j for j in range(P.n) if _dev("weights", abs(r["w"][j] - float(wr[j]))) > TOL_W] if ok_len else []
                    if not ok_len or bad_y or bad_w:
                        probs.append(Problem("property", f"grid point {i}: learner was given labels {r['y']} weights {r['w']}; "
                                                         f"relabelling/reweighting for its multiplier is {yr} "
                                                         f"{[float(v) for v in wr]}", "C09.relabel"))
            val = P.target(lam, p["train"], span)
            best = min(P.target(lam, h, span) for h in H)
            _dev("best-response excess", max(F(0), val - best))
            if val > best + TOL_BR:
                probs.append(Problem("property", f"grid point {i}: predictor {p['vals']} has objective+lambda.gamma = "
                                                 f"{float(val)} but the class minimum is {float(best)}", "C09.best_response"))
            costs.append((ro.weighted01(yr, wr, p["train"]), min(ro.weighted01(yr, wr, h) for h in H)))
        if rec:
            probs.append(Problem("correspondence", f"{len(rec)} extra calls of the base learner", "C09.relabel"))

        # -- clause 3: recorded objective / constraint values are those of the predictor ----------------------
        gidx = [tuple(k) for k in o["gam_index"]]
        if len(o["objectives"]) != len(o["predictors"]) or len(o["gammas"]) != len(o["predictors"]):
            probs.append(Problem("property", f"{len(o['objectives'])} objectives_ / {len(o['gammas'])} gammas_ columns for "
                                             f"{len(o['predictors'])} predictors_", "C09.records"))
        if gams and (sorted(gidx) != sorted(gams[0]) or any(len(c) != len(gidx) for c in o["gammas"])):
            probs.append(Problem("property", f"gammas_ index {sorted(gidx)} != the constraint index {sorted(gams[0])}",
                                 "C09.records"))
        for i, (ob, gm) in enumerate(zip(objs, gams)):
            if i < len(o["objectives"]) and _dev("objectives_", abs(o["objectives"][i] - float(ob))) > TOL_REC:
                probs.append(Problem("property", f"objectives_[{i}] = {o['objectives'][i]} but the predictor's objective is "
                                                 f"{ob}", "C09.records"))
            if i < len(o["gammas"]):
                for k, v in zip(gidx, o["gammas"][i]):
                    if k not in gm or _dev("gammas_", abs(v - float(gm[k]))) > TOL_REC:
                        probs.append(Problem("property", f"gammas_[{i}][{k}] = {v} but the predictor's value is "
                                                         f"{gm.get(k)}", "C09.records"))
                        break

        # -- clause 4: selection and delegation --------------------------------------------------------------
        losses = [(1 - cw) * ob + cw * max(gm.values()) for ob, gm in zip(objs, gams)]
        b = o["best_idx"]
        if not (0 <= b < len(losses)):
            probs.append(Problem("property", f"best_idx_ = {b} out of range", "C09.argminFirst_spec"))
        elif _dev("selection excess", losses[b] - min(losses)) > TOL_SEL:
            probs.append(Problem("property", f"best_idx_ = {b} has trade-off loss {float(losses[b])}, the minimum "
                                             f"{float(min(losses))} is attained at {losses.index(min(losses))}",
                                 "C09.argminFirst_spec"))
        if o["predict"] != o["predict_best"]:
            probs.append(Problem("property", f"predict = {o['predict']} but the selected predictor gives {o['predict_best']}",
                                 "C09.delegation"))
        if np.array(o["proba"]).shape != np.array(o["proba_best"]).shape or \
                _dev("proba", np.abs(np.array(o["proba"]) - np.array(o["proba_best"])).max()) > TOL_PROBA:
            probs.append(Problem("property", "predict_proba differs from the selected predictor's", "C09.delegation"))
        if 0 <= b < len(o["predictors"]) and o["predict_best"] != o["predictors"][b]["vals"]:
            probs.append(Problem("correspondence", "predictors_[best_idx_] is not deterministic", "C09.delegation"))

        # -- model ------------------------------------------------------------------------------------------
        if mo is not None:
            n_or, lam_or = ro.grid_lambdas(o["neg_allowed"], o["force"], gsz, limit,
                                           [[F(v) for v in r] for r in o["pos_rows"]],
                                           [[F(v) for v in r] for r in o["neg_rows"]])
            na_o, force_o, pos_o, neg_o = P.basis()
            if (o["neg_allowed"], o["force"]) != (na_o, force_o) or \
                    [[F(v) for v in r] for r in o["pos_rows"]] != pos_o or [[F(v) for v in r] for r in o["neg_rows"]] != neg_o:
                probs.append(Problem("correspondence", "pos_basis / neg_basis / neg_basis_present differ from the documented "
                                                       "lower-dimensional description", "C09.basis"))
            head = mo[0].split(" ")
            if head[0].startswith("err") or head[0] == "bad-op":
                probs.append(Problem(mo_kind() if lam_or is not None else "correspondence",
                                     f"model grid: {mo[0]}; oracle n_units={n_or}", mo_rel("C09.grid_exists")))
            else:
                n_m, unit_b, basis_ok, lam_m = int(head[0]), head[1] == "1", head[2] == "1", proto.p_mat(head[3])
                if n_m != n_or or lam_m != lam_or:
                    probs.append(Problem(mo_kind(), f"model grid (n={n_m}) != oracle grid (n={n_or})",
                                         mo_rel("C09.source_lattice_eq / grid (documented lattice, scaling, basis map)")))
                if off is not None:
                    lam_m = [[a + b_ for a, b_ in zip(cm, off)] for cm in lam_m]
                if _mat_far("lam", lam_m, o["lam"], TOL_LAM):
                    probs.append(Problem("correspondence", f"lambda_vecs_ differ from the model grid (model n_units={n_m})",
                                         "C09.grid (lattice/scale/basis map)"))
                if not basis_ok:
                    probs.append(Problem("correspondence", "hypothesis basisOK (0/1 columns of L1 norm <= 1) does not hold "
                                                           "for the moment's bases", "C09.grid_l1_le_limit hypothesis"))
                if unit_b and distinct != len(o["lam"]):
                    probs.append(Problem("correspondence", "unit basis but duplicate multiplier vectors",
                                         "C09.grid_distinct"))
                if (not unit_b) and not P.missing_basis_pairs():
                    probs.append(Problem("correspondence", "basis is not a unit basis although every (event, non-last "
                                                           "group) pair occurs", "C09.grid_distinct hypothesis"))
            sel = mo[1].split(" ")
            if sel[0] == "bad-op":
                probs.append(Problem(mo_kind(), "model select: bad-op", mo_rel("C09.select_spec")))
            else:
                if proto.p_list(sel[1]) != losses or int(sel[0]) != losses.index(min(losses)):
                    probs.append(Problem(mo_kind(), f"model select {sel[0]} != oracle {losses.index(min(losses))}",
                                         mo_rel("C09.tradeoff_spec / argminFirst_spec")))
                if int(sel[0]) != b:
                    # exact ties may be broken by float rounding: replay the float computation on the recorded values
                    fl = [(1.0 - float(cw)) * ob + float(cw) * max(g_) for ob, g_ in zip(o["objectives"], o["gammas"])]
                    tie = 0 <= b < len(losses) and losses[b] == min(losses)
                    if not (tie and fl.index(min(fl)) == b):
                        probs.append(Problem("correspondence", f"best_idx_ = {b}, model first arg-min = {sel[0]}",
                                             "C09.argminFirst_spec"))
            rec = list(o["records"])
            for i, (w, p) in enumerate(zip(ws, o["predictors"])):
                rl = mo[2 + 2 * i].split(" ")
                yr, wr = ro.relabel(w)
                if proto.p_list(rl[0]) != yr or proto.p_list(rl[1]) != wr:
                    probs.append(Problem(mo_kind(), f"model relabel != oracle relabel at grid point {i}",
                                         mo_rel("C09.best_response (relabelling)")))
                if proto.p_rat(mo[3 + 2 * i]) != costs[i][0]:
                    probs.append(Problem(mo_kind(), f"model cost != oracle cost at grid point {i}",
                                         mo_rel("C09.best_response")))
            probs += self._judge_source_ops(case, o, mo[2 + 2 * len(o["predictors"]):], lam_or,
                                            n_or, ws, losses, b)
        return probs

    def _judge_source_ops(self, case, o, mo, lam_or, n_or, ws, losses, b):
        """the ops that follow the lifted source text: search started at the source's float estimate + offset,
        selection over the whole list of records + delegation, combined weights / relabelling / dummy rule"""
        probs = []
        if len(mo) < 2:
            return [Problem(mo_kind(), "driver returned too few lines for the source-following ops")]
        off = offset_of(case, o["lam_index"]) or [F(0)] * len(o["lam_index"])
        head = mo[0].split(" ")
        if head[0].startswith("err") or head[0] == "bad-op":
            probs.append(Problem(mo_kind() if lam_or is not None else "correspondence",
                                 f"model grid from the float estimate: {mo[0]}", mo_rel("C09.search_from_any_start")))
        else:
            n_m, no_over, lam_m = int(head[0]), head[1] == "1", proto.p_mat(head[2])
            if not no_over:
                probs.append(Problem("correspondence",
                                     f"the source's float estimate n0={float_estimate(o['neg_allowed'], o['force'], case['grid_size'])} "
                                     f"exceeds the exact value of the lifted expression (grid_size={case['grid_size']}, "
                                     f"neg_allowed={o['neg_allowed']}, force={o['force']})", "C09.estimate_harmless hypothesis"))
            if lam_or is not None:
                want = [[a + b_ for a, b_ in zip(col, off)] for col in lam_or]
                if n_m != n_or or lam_m != want:
                    probs.append(Problem(mo_kind() if no_over else "correspondence",
                                         f"model grid started at the float estimate (n={n_m}) != documented grid (n={n_or}) "
                                         f"+ offset", mo_rel("C09.estimate_harmless / grid_offset_distinct")))
            if _mat_far("lam-from-estimate", lam_m, o["lam"], TOL_LAM):
                probs.append(Problem("correspondence", f"lambda_vecs_ differ from the model grid started at the source's "
                                                       f"float estimate (model n_units={n_m})",
                                     "C09.grid (search from the estimate, scale, basis map, offset)"))
        s2 = mo[1].split(" ")
        if s2[0] == "bad-op" or len(s2) != 3:
            probs.append(Problem(mo_kind(), f"model select2: {mo[1]}", mo_rel("C09.select_spec")))
        else:
            want = losses.index(min(losses))
            if [int(t) for t in s2] != [want] * 3:
                probs.append(Problem(mo_kind(), f"model select/runningArgmin/predictWith {s2} != oracle first arg-min {want}",
                                     mo_rel("C09.select_spec / runningArgmin_eq / predict_delegates")))
        for i, (w, p) in enumerate(zip(ws, o["predictors"])):
            if 2 + i >= len(mo):
                break
            t = mo[2 + i].split(" ")
            if t[0] == "bad-op" or len(t) != 4:
                probs.append(Problem(mo_kind(), f"model weights: {mo[2 + i]}", mo_rel("C09.best_response (weights)")))
                continue
            yr, wr = ro.relabel(w)
            if proto.p_list(t[0]) != w or proto.p_list(t[1]) != yr or proto.p_list(t[2]) != wr \
                    or (t[3] == "1") != (len(set(yr)) == 1):
                probs.append(Problem(mo_kind(), f"model combined weights / relabelling / dummy rule != oracle at grid point {i}",
                                     mo_rel("C09.best_response (combine, relabel, useDummy)")))
            elif case["moment"] != "BGL" and all(x > TOL_W for x in wr) and (t[3] == "1") != p["dummy"]:
                probs.append(Problem("correspondence", f"grid point {i}: DummyClassifier used = {p['dummy']} but the relabelled "
                                                       f"data has {len(set(yr))} distinct label(s)", "C09.relabel (dummy rule)"))
        # the data the estimator is fitted on (lifted classification / regression branches)
        kf = 3 + len(o["predictors"])
        for i, fw in enumerate(getattr(self, "_fit_w", [])):
            if kf + i >= len(mo):
                probs.append(Problem(mo_kind(), "driver returned too few lines for grid.fitdata", mo_rel("C09.src_regression_keeps_data")))
                break
            t = mo[kf + i].split(" ")
            if case["moment"] == "BGL":
                want_y, want_w = [F(v) for v in case["y"]], list(fw)
            else:
                want_y, want_w = ro.relabel(fw)
            if t[0] == "bad-op" or len(t) != 2 or proto.p_list(t[0]) != [F(v) for v in want_y] or proto.p_list(t[1]) != want_w:
                probs.append(Problem(mo_kind(), f"model fit data {mo[kf + i][:80]} != oracle {want_y} {want_w} at grid point {i}",
                                     mo_rel("C09.src_regression_keeps_data / src_classification_fitData")))
        # the whole loop (fitLoop) replayed with the recorded labelings as the base learner
        k = 2 + len(o["predictors"])
        robust = case["moment"] != "BGL" and all(abs(x) > TOL_W for w in ws for x in w)
        if robust and k < len(mo):
            t = mo[k].split(" ")
            want = losses.index(min(losses))
            if t[0] in ("bad-op", "err:select") or len(t) != 3:
                probs.append(Problem(mo_kind(), f"model fitLoop: {mo[k][:80]}", mo_rel("C09.fit_spec")))
            else:
                trained = [[int(v) for v in r.split(",")] for r in t[1].split(";")]
                if trained != [p["train"] for p in o["predictors"]]:
                    probs.append(Problem("correspondence", "the labelings trained by the model loop (dummy rule + recorded "
                                                           "learner) differ from the predictors' training predictions",
                                         "C09.fit_spec (trainAt)"))
                elif int(t[0]) != want:
                    probs.append(Problem(mo_kind(), f"model fitLoop best index {t[0]} != oracle first arg-min {want}",
                                         mo_rel("C09.fit_spec (selection)")))
        return probs

    def _zero_weight_points(self, case):
        """grid points (of the documented grid) at which all signed weights vanish"""
        P = problem_of(case)
        lams = P.grid(case["grid_size"], F(case["grid_limit"]))
        if not lams:
            return []
        off = offset_of(case, [list(k) for k in P.index])
        if off is not None:
            lams = [{k: v + d for (k, v), d in zip(lam.items(), off)} for lam in lams]
        out = []
        for i, lam in enumerate(lams):
            w = P.bgl_weights(lam) if case["moment"] == "BGL" else P.signed_weights(lam)
            if all(x == 0 for x in w):
                out.append(i)
        return out

    def known(self, case, problem, entries):
        if case.get("kind") == "gen":
            return None
        if problem.relation == "C09.zero_weights" and self._zero_weight_points(case):
            for e in entries:
                if e.get("predicate") == "all_zero_signed_weights":
                    return e
        if problem.relation in ("C09.grid_distinct", "C09.grid_distinct hypothesis"):
            if problem_of(case).missing_basis_pairs():
                for e in entries:
                    if e.get("predicate") == "missing_basis_pair":
                        return e
        return None

    def signature(self, case, o):
        if case.get("kind") == "gen":
            gsz = case["grid_size"]
            tags = ["kind=generator-only", f"gen.dim={len(case['na'])}", "gen.force_L1" if case["force"] else "gen.free_L1",
                    f"gen.neg_allowed={sum(case['na'])}/{len(case['na'])}",
                    "gen.grid_size=" + ("1" if gsz == 1 else "2-9" if gsz < 10 else "10-59" if gsz < 60 else "60+")]
            if "exc" in o:
                tags.append("gen.exc=" + o["exc"])
            return (repr(sorted(case.items())), gsz >= 2, tags)
        tags = ["history=refit-after-a-previous-life" if has_history(case) else "history=fresh",
                "learner=nested-state" if nested_learner(case) else "learner=flat",
                f"moment={case['moment']}", f"rows={len(case['x'])}", f"groups={len(set(case['g']))}",
                f"values={len(set(case['x']))}", f"kind={case['kind']}", f"container={case.get('container')}",
                "bound=ratio" if case.get("ratio") else "bound=diff",
                "grid_size=" + ("2-5" if case["grid_size"] <= 5 else "6-15" if case["grid_size"] <= 15 else "16-60"),
                "cw=" + ("0" if case["cw"] == "0" else "1" if case["cw"] == "1" else "mid"),
                "grid_offset=" + ("series" if case.get("offset") else "None")]
        nontriv = case["grid_size"] >= 3
        if "predictors" in o:
            tags.append(f"dim={len(o['neg_allowed'])}")
            tags.append("force_L1" if o["force"] else "free_L1")
            if any(p["dummy"] for p in o["predictors"]):
                tags.append("dummy-used")
            nd = len({tuple(p["vals"]) for p in o["predictors"]})
            tags.append("distinct-labelings=" + ("1" if nd == 1 else "2-3" if nd <= 3 else "4+"))
            nontriv = nontriv or nd >= 2
            if problem_of(case).missing_basis_pairs():
                tags.append("shape=F6 (non-last group lacks an event)")
            elif case["moment"] in ("EO", "TPR", "FPR") and len(problem_of(case).pairs) < \
                    len({e for e in problem_of(case).ev if e}) * len(set(case["g"])):
                tags.append("shape=last group lacks an event")
        elif "exc" in o:
            tags.append("exc=" + o["exc"] + (" (all signed weights zero at a grid point)" if self._zero_weight_points(case) else ""))
        return (repr(sorted(case.items())), nontriv, tags)
