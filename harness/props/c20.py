"""C20 — inconsistent or unsupported inputs are rejected, never silently processed.

Malformed stream: a valid random call of an entry point, ONE defect of a random kind at a random position,
rendered in every accepted container type.  A *silent ok* on an ill-formed call is the violation."""
import itertools
import math
from fractions import Fraction as F

import numpy as np

from .. import proto
from ..core import Check, Problem, register

# ------------------------------------------------------------------ documented tables (oracle's own copy)
DOC_SIMPLE = ["selection_rate_parity", "demographic_parity", "false_positive_rate_parity",
              "false_negative_rate_parity", "true_positive_rate_parity", "true_negative_rate_parity"]
DOC_OBJ_SIMPLE = ["accuracy_score", "balanced_accuracy_score", "selection_rate", "true_negative_rate", "true_positive_rate"]
DOC_OBJ_EO = ["accuracy_score", "balanced_accuracy_score"]
ALL_CONSTRAINTS = DOC_SIMPLE + ["equalized_odds"]
ALL_OBJECTIVES = DOC_OBJ_SIMPLE + ["false_positive_rate", "false_negative_rate"]
BAD_NAMES = ["equalised_odds", "demographic parity", "accuracy", "", "f1_score", "EQUALIZED_ODDS"]
MOMENTS = ["DemographicParity", "TruePositiveRateParity", "FalsePositiveRateParity", "EqualizedOdds",
           "ErrorRateParity", "ErrorRate"]
PARITY = MOMENTS[:5]
MIT_EPS = ["moment:" + m for m in MOMENTS] + ["eg", "gs", "to"]
MIT_WEIGHTED = MIT_EPS + ["eg", "gs", "to", "to", "to", "to"]
VEC_CONT = ["list", "ndarray", "series", "dataframe", "ndarray2d"]
X_CONT = ["ndarray", "dataframe"]
SF_MULTI_CONT = ["dataframe", "dict", "ndarray2d"]
SF_SINGLE_CONT = ["list", "ndarray", "series", "dataframe", "dict", "ndarray2d"]
PREDICTORS = ["eg.predict", "eg._pmf_predict", "gs.predict", "gs.predict_proba", "to.predict", "to._pmf_predict",
              "corr.transform", "adv.predict", "it.predict",
              "it._pmf_predict", "adv._raw_predict", "advr.predict", "advr._raw_predict"]
CLASS_OF = {"eg": "ExponentiatedGradient", "gs": "GridSearch", "to": "ThresholdOptimizer", "it": "InterpolatedThresholder",
            "corr": "CorrelationRemover", "adv": "_AdversarialFairness", "advr": "_AdversarialFairness"}
# every (class, method) the lifted guard table lists must be exercised by PREDICTORS (checked in judge)
SP_MODES = ["none", "ok", "ok", "empty", "notdict:list", "notdict:tuple", "notdict:str", "notdict:num", "notdict:emptylist",
            "unknown_key", "inner:list", "inner:num", "inner:str"]
BAD_LABELS = [2, -1, "1/2", 3, "s:1", "s:a", "nan"]   # "s:x" = the string x


def supported(c, o):
    return (c in DOC_SIMPLE and o in DOC_OBJ_SIMPLE) or (c == "equalized_odds" and o in DOC_OBJ_EO)


def label_value(v):
    """python value of a stored label"""
    if isinstance(v, str):
        if v.startswith("s:"):
            return v[2:]
        if v == "nan":
            return float("nan")
        return float(F(v))
    return v


def label_is_binary(v):
    v = label_value(v)
    return (not isinstance(v, str)) and (v == 0 or v == 1)


def num(v):
    """stored rational -> python number (ints stay ints)"""
    q = F(v)
    return int(q) if q.denominator == 1 and not str(v).endswith(".0") else float(q)


# ------------------------------------------------------------------ a tiny deterministic base learner
def make_learner():
    from sklearn.base import BaseEstimator, ClassifierMixin

    class TinyLearner(ClassifierMixin, BaseEstimator):
        """weighted majority + a fixed linear score; accepts sample_weight; clonable"""

        def fit(self, X, y, sample_weight=None, **fit_params):   # extra fit parameters are tolerated (and ignored)
            y = np.asarray(y).reshape(-1)
            w = np.ones(len(y)) if sample_weight is None else np.asarray(sample_weight, dtype=float).reshape(-1)
            if len(w) != len(y) or np.asarray(X).shape[0] != len(y):
                raise ValueError("TinyLearner: inconsistent lengths")
            self.classes_ = np.array([0, 1])
            tot = w.sum()
            self.p_ = float((w * (y == 1)).sum() / tot) if tot > 0 else 0.5
            return self

        def predict_proba(self, X):
            x = np.asarray(X, dtype=float)
            s = 1 / (1 + np.exp(-(x[:, 0] - x[:, 1] * 0.5 + (self.p_ - 0.5) * 4)))
            return np.column_stack([1 - s, s])

        def predict(self, X):
            return (self.predict_proba(X)[:, 1] >= 0.5).astype(int)

    return TinyLearner()


# ------------------------------------------------------------------ rendering
def render_vec(vals, cont, name=None, enc=None):
    import pandas as pd
    vals = [label_value(v) if enc == "label" else (f"g{v}" if enc == "str" else v) for v in vals]
    if cont == "list":
        return list(vals)
    if cont == "ndarray":
        return np.array(vals)
    if cont == "ndarray2d":
        return np.array(vals).reshape(-1, 1)
    if cont == "series":
        return pd.Series(vals, name=name)
    if cont == "dataframe":
        # unnamed single column (label 0): ThresholdOptimizer(equalized_odds) reads `labels.sum().loc[0]`
        return pd.DataFrame(vals) if name is None else pd.DataFrame({name: vals})
    if cont == "dict":
        return {name if name is not None else "col0": vals}
    raise ValueError(cont)


def render_X(rows, cont):
    import pandas as pd
    a = np.array(rows, dtype=float).reshape(len(rows), 2)
    return pd.DataFrame(a, columns=["f0", "f1"]) if cont == "dataframe" else a


def col_name(nm):
    """stored column name -> python object ({"int": 3} = a non-string name)"""
    if isinstance(nm, dict):
        return nm["int"]
    return nm


def render_cols(cols, cont, enc):
    """MetricFrame sensitive / control features: list of {"name","vals"}"""
    import pandas as pd
    if cols is None:
        return None
    def vals(c):
        return [f"g{v}" if enc == "str" else v for v in c["vals"]]
    if cont in ("list", "ndarray", "series"):
        c = cols[0]
        if cont == "list":
            return vals(c)
        if cont == "ndarray":
            return np.array(vals(c))
        return pd.Series(vals(c), name=col_name(c["name"]))
    if cont == "ndarray2d":
        return np.array([vals(c) for c in cols], dtype=object).T.reshape(len(cols[0]["vals"]), len(cols))
    if cont == "dict":
        return {col_name(c["name"]): vals(c) for c in cols}
    if cont == "dataframe":
        df = pd.DataFrame(np.array([vals(c) for c in cols], dtype=object).T.reshape(len(cols[0]["vals"]), len(cols)))
        df.columns = [col_name(c["name"]) for c in cols]
        return df
    raise ValueError(cont)


def effective_names(cols, cont, base):
    """names MetricFrame derives: (name or None when not a string)"""
    out = []
    for i, c in enumerate(cols):
        nm = c["name"]
        if cont in ("list", "ndarray", "ndarray2d") or (cont == "series" and nm is None):
            out.append(f"{base}{i}")
        elif isinstance(nm, dict):
            out.append(None)
        else:
            out.append(nm)
    return out


def outcome(fn):
    from sklearn.exceptions import NotFittedError
    try:
        fn()
        return "ok"
    except NotFittedError:
        return "NotFittedError"
    except ValueError:
        return "ValueError"
    except TypeError:
        return "TypeError"
    except RuntimeError:
        return "RuntimeError"
    except Exception as e:  # noqa: BLE001   (the kind is the result)
        return "other:" + type(e).__name__


@register
class CHECK(Check):
    pid = "C20"
    technique = ("Lean 4 decision-logic theorems (accepts <-> wellFormed per entry point, table and parameter conditions "
                 "generated from the source; the bodies of _validate_and_reformat_input and of MetricFrame.__init__ / "
                 "_process_features lifted as ORDERED CHECK LISTS (validate_src.py, frame_checks.py) with bridge theorems to the "
                 "hand-written acceptance functions) + malformed-input stream against every entry point in every container type")
    level_text = ("Theorems: for every descriptor, an entry point accepts iff the descriptor is well formed; each listed defect "
                  "(length mismatch in any argument position, label outside {0,1}, missing sensitive feature, degenerate group, "
                  "unsupported combination, control features for ThresholdOptimizer, both bounds / ratio outside (0,1] / negative difference_bound or ratio_bound_slack, bad costs, "
                  "constraint_weight outside [0,1], duplicate or non-string names, predict before fit for EVERY prediction "
                  "entry point in the lifted guard table, prediction-time sensitive features of the wrong length / missing for "
                  "ThresholdOptimizer, sample_params that is no dict / names an unknown metric / holds a non-dict) forces rejection; the "
                  "constraint x objective table, the bounds/costs/weight conditions and the degenerate-label guard are generated "
                  "from the source, as are the check_is_fitted guard of every prediction entry point, the keyword values of the "
                  "prediction-time _validate_and_reformat_input call and the sample_params checks of MetricFrame; the BODY of "
                  "_validate_and_reformat_input is lifted as an ordered list of checks (condition, exception kind; label set; check_array "
                  "keywords) which the model runs, with a proved bridge to the hand-written reading. Tie: one-defect malformed stream and valid stream through MetricFrame, the six moments' "
                  "load_data, ExponentiatedGradient/GridSearch/ThresholdOptimizer.fit, the constructors, CorrelationRemover and "
                  "predict-before-fit of every estimator, in list/ndarray/Series/DataFrame/dict containers.")
    design_ref = "DESIGN.md section 4, C20"
    quick_cases = 6000
    thorough_cases = 30000
    quick_budget_s = 110
    thorough_budget_s = 1100
    workers_thorough = 4
    rule = ("valid call (4..14 rows, 2..3 groups, both labels in every group, containers list/ndarray/Series/DataFrame/(n,1) "
            "ndarray/dict) with at most ONE injected defect: length off by k in {1,2,3,n-1} (longer or shorter) in each argument "
            "position incl. X, a non-0/1 label (2,-1,1/2,3,'1','a',nan) at a random row, missing sensitive feature (None or "
            "omitted) / missing y, a group lacking one label (ThresholdOptimizer), unsupported or unknown constraint/objective, "
            "control features for ThresholdOptimizer, both bounds, ratio_bound outside (0,1], negative difference_bound / ratio_bound_slack, bad cost dicts, constraint_weight "
            "outside [0,1], duplicate / non-string feature names, predict or transform before fit, unknown sensitive column for "
            "CorrelationRemover; every prediction entry point (predict, predict_proba, _pmf_predict, transform, _raw_predict of "
            "TO, InterpolatedThresholder, EG, GS, CorrelationRemover, adversarial classifier and regressor) before fit in every "
            "run; ThresholdOptimizer.predict/_pmf_predict with sensitive_features off by k or None (fitted and unfitted) in "
            "every vector container; MetricFrame sample_params: None, valid, {}, list/tuple/str/number/[] instead of a dict, a key "
            "that is no metric name, a per-metric list/number/str; _validate_and_reformat_input called directly (5% of the cases) with "
            "each of the 8 combinations of expect_y / expect_sensitive_features / enforce_binary_labels on the same one-defect data "
            "plus a zero-row X and an empty y (numeric labels; ndarray / Series labels when expect_y=False); about 40% of the cases carry no defect (must be accepted); distinct = distinct case; non-trivial = all. "
            "Fixed, not varied: X has 2 columns and is an ndarray or a DataFrame (never a list of lists); labels are rendered as "
            "int, float or bool; group values as int or str; the moments are default-constructed and tested through load_data, "
            "ExponentiatedGradient / GridSearch always wrap DemographicParity(), ThresholdOptimizer uses grid_size=20, "
            "predict_method='predict_proba'; sample parameters are `sample_weight` only; the adversarial estimators are only "
            "exercised UNFITTED (torch backend); NaN / inf parameter values (ratio_bound, costs, constraint_weight) are judged by the "
            "oracle alone (the exact model has no NaN: no model line is sent for them)")
    explanation = ("decision logic proved in Lean over generated tables/conditions; correspondence: outcome class (ok / exception "
                   "kind) of the real call vs the compiled model on the call's descriptor; oracle: independent Python predicate "
                   "of well-formedness on the arguments as rendered; violation = ok on an ill-formed call (or a prediction "
                   "before fit that does not raise NotFittedError)")
    trusted = ("sklearn check_consistent_length / check_array / check_is_fitted and pandas column assignment raise on the length "
               "mismatches they are given (modelled as a comparison of lengths)",
               "the descriptor abstraction: a non-numeric or NaN label is sent to the model as the value 2; group labels as ids",
               "the meaning of the lifted atoms on a descriptor (Validation.evalAtom): y is a flat numeric vector (shape test and "
               "check_array(y) hold), features are group ids (their check_array holds), check_array(X) holds iff X has a row")
    assumptions = ("out-of-range is limited to what the documentation defines (ratio_bound in (0,1], costs, constraint_weight in "
                   "[0,1], difference_bound >= 0, ratio_bound_slack >= 0 when a ratio bound is given — a negative slack makes "
                   "project_lambda lower the Lagrangian, C07)",
                   "a 2-d sensitive feature array of shape (1,n) (squeezed by MetricFrame) is not generated",
                   "which exception class is raised is only compared for NotFittedError and GridSearch's RuntimeError")

    # ================================================================ generation
    def _base_data(self, rng, need_both=True):
        ng = rng.choice([2, 2, 3])
        n = rng.randint(max(4, 2 * ng), 14)
        while True:
            sf = [rng.randrange(ng) for _ in range(n)]
            y = [rng.randint(0, 1) for _ in range(n)]
            ok = all(any(s == g and v == 1 for s, v in zip(sf, y)) and any(s == g and v == 0 for s, v in zip(sf, y))
                     for g in set(sf))
            if ok and len(set(sf)) >= 2:
                break
        X = [[rng.randint(-3, 3), rng.randint(0, 2)] for _ in range(n)]
        return n, X, y, sf

    def _resize(self, rng, vec, k, fill):
        """length off by k (k>0 longer: values appended/inserted; k<0 shorter: rows removed at a random place)"""
        v = list(vec)
        if k > 0:
            for _ in range(k):
                v.insert(rng.randint(0, len(v)), fill(rng))
        else:
            for _ in range(-k):
                v.pop(rng.randrange(len(v)))
        return v

    def _k(self, rng, n):
        k = rng.choice([1, 1, 2, 3, n - 1])
        return k if rng.random() < 0.5 else -min(k, n - 1)

    def gen_mit(self, rng, ep=None, defect=None):
        ep = ep or rng.choice(MIT_WEIGHTED)
        n, X, y, sf = self._base_data(rng)
        y_enc = rng.choice(["int", "int", "float", "bool"])
        if y_enc == "float":
            y = [f"{v}.0" for v in y]
        elif y_enc == "bool":
            y = [bool(v) for v in y]
        case = {"ep": ep, "n": n, "X": X, "y": y, "sf": sf, "cf": None, "sf_mode": "given",
                "cont": {"X": rng.choice(X_CONT), "y": rng.choice(VEC_CONT), "sf": rng.choice(VEC_CONT), "cf": rng.choice(VEC_CONT)},
                "sf_enc": rng.choice(["int", "str"]), "constraint": None, "objective": None, "defect": None}
        if ep == "to":
            c = rng.choice(ALL_CONSTRAINTS)
            case["constraint"], case["objective"] = c, rng.choice(DOC_OBJ_EO if c == "equalized_odds" else DOC_OBJ_SIMPLE)
        elif rng.random() < 0.3:
            case["cf"] = [rng.randrange(2) for _ in range(n)]
        kinds = ["len:y", "len:sf", "len:X", "label", "label", "nosf", "noy"]
        if case["cf"] is not None:
            kinds.append("len:cf")
        if ep == "to":
            kinds += ["degenerate", "degenerate", "combo", "combo", "cf"]
        if defect is None:
            defect = rng.choice(kinds) if rng.random() < 0.6 else None
        if defect == "len:cf" and case["cf"] is None and ep != "to":
            case["cf"] = [rng.randrange(2) for _ in range(n)]
        if defect in ("len:y", "len:sf", "len:cf"):
            k = self._k(rng, n)
            key = defect[4:]
            if case[key] is None:
                defect = None
            else:
                fill = {"y": lambda r: case["y"][0], "sf": lambda r: r.choice(sf), "cf": lambda r: r.randrange(2)}[key]
                case[key] = self._resize(rng, case[key], k, fill)
                defect = f"{defect}:{k:+d}"
        elif defect == "len:X":
            k = self._k(rng, n)
            case["X"] = self._resize(rng, X, k, lambda r: [r.randint(-3, 3), r.randint(0, 2)])
            case["n"] = len(case["X"])
            defect = f"len:X:{k:+d}"
        elif defect == "label":
            i = rng.randrange(n)
            bad = rng.choice(BAD_LABELS)
            case["y"] = [v if not isinstance(v, bool) else int(v) for v in case["y"]]
            case["y"][i] = bad
            defect = f"label:{bad}@{i}"
        elif defect == "nosf":
            case["sf"], case["sf_mode"] = None, rng.choice(["none", "omit"])
        elif defect == "noy":
            case["y"] = None
        elif defect == "degenerate":
            g = rng.choice(sorted(set(sf)))
            v = rng.randint(0, 1)
            case["y"] = [(type(yv)(v) if not isinstance(yv, str) else f"{v}.0") if s == g else yv for yv, s in zip(case["y"], sf)]
            defect = f"degenerate:g{g}={v}"
        elif defect == "combo":
            r = rng.random()
            if r < 0.5:      # a supported constraint with an objective outside its list
                c = rng.choice(ALL_CONSTRAINTS)
                pool = [o for o in ALL_OBJECTIVES if not supported(c, o)] + BAD_NAMES[2:5]
                case["constraint"], case["objective"] = c, rng.choice(pool)
            elif r < 0.8:    # unknown constraint
                case["constraint"] = rng.choice(BAD_NAMES[:2] + BAD_NAMES[5:] + ["accuracy_score"])
            else:
                case["objective"] = rng.choice(BAD_NAMES)
                if supported(case["constraint"], case["objective"]):
                    case["objective"] = "f1_score"
        elif defect == "cf":
            case["cf"] = [rng.randrange(2) for _ in range(n)]
        case["defect"] = defect
        return case

    def gen_vsrc(self, rng):
        """`_validate_and_reformat_input` called DIRECTLY with every combination of its three flags (the lifted check list
        `Generated.ValidateSrc.checks` run by `validateSrc`): the data of a mitigator call with at most one defect, plus a
        zero-row X and an empty y.  With expect_y=False the labels are handed over as ndarray / Series (the source reads
        `y.shape` of the raw argument there); labels are numeric (a string label is refused by `check_array(dtype='numeric')`
        whatever the flags say, which the descriptor does not see)."""
        case = self.gen_mit(rng, ep="moment:DemographicParity",
                            defect=rng.choice([None, None, None, "len:y", "len:sf", "len:cf", "len:X", "label", "label", "nosf", "noy"]))
        case["ep"] = "vsrc"
        case["flags"] = [rng.random() < 0.6, rng.random() < 0.6, rng.random() < 0.6]
        if case["y"] is not None:
            case["y"] = [3 if isinstance(v, str) and v.startswith("s:") else v for v in case["y"]]
        if case["defect"] is not None and case["defect"].startswith("label:s:"):
            case["defect"] = "label:3@" + case["defect"].split("@")[1]
        r = rng.random()
        if case["defect"] is None and r < 0.10:
            case["X"], case["n"], case["defect"] = [], 0, "rows0"
            q = rng.random()
            if q < 0.4:                 # everything consistently empty
                case["sf"] = []
                case["y"] = [] if rng.random() < 0.5 else None
                case["cf"] = None
            elif q < 0.7:               # nothing but the zero-row X (accepted by every other check when nothing is expected)
                case["sf"], case["sf_mode"], case["y"], case["cf"] = None, rng.choice(["none", "omit"]), None, None
                case["flags"] = [False, False, case["flags"][2]]
        elif case["defect"] is None and r < 0.18:
            case["y"], case["defect"] = [], "emptyy"
        return case

    def gen_frame(self, rng, defect=None):
        n, _, y, sf0 = self._base_data(rng)
        yp = [rng.randint(0, 1) for _ in range(n)]
        nsf = rng.choice([1, 1, 2])
        names = rng.sample(["sex", "race", "age_band", "region", "a", "b"], 4)
        sf = [{"name": names[i], "vals": (sf0 if i == 0 else [rng.randrange(2) for _ in range(n)])} for i in range(nsf)]
        cf = None
        if rng.random() < 0.4:
            cf = [{"name": names[2 + i], "vals": [rng.randrange(2) for _ in range(n)]} for i in range(rng.choice([1, 1, 2]))]
        sw = [rng.randint(1, 4) for _ in range(n)] if rng.random() < 0.5 else None
        cont = {"y_true": rng.choice(VEC_CONT), "y_pred": rng.choice(VEC_CONT),
                "sf": rng.choice(SF_SINGLE_CONT if nsf == 1 else SF_MULTI_CONT),
                "cf": rng.choice(SF_SINGLE_CONT if cf and len(cf) == 1 else SF_MULTI_CONT),
                "sw": rng.choice(["list", "ndarray", "series"])}
        if cont["sf"] == "series" and rng.random() < 0.3:
            sf[0]["name"] = None
        if cf and cont["cf"] == "series" and rng.random() < 0.3:
            cf[0]["name"] = None
        case = {"ep": "frame", "y_true": y, "y_pred": yp, "sf": sf, "cf": cf, "sw": sw, "cont": cont,
                "sf_enc": rng.choice(["int", "str"]), "metric": rng.choice(["single", "dict", "dict_nested"]), "defect": None}
        kinds = ["len:y_pred", "len:y_true", "len:sf", "dupname", "nonstr", "nosf"]
        if cf:
            kinds += ["len:cf", "dupname", "nonstr:cf"]
        if sw:
            kinds += ["len:sw", "len:sw"]
        if defect is None:
            defect = rng.choice(kinds) if rng.random() < 0.6 else None
        fillv = lambda r: r.randint(0, 1)  # noqa: E731
        if defect in ("len:y_pred", "len:y_true", "len:sw"):
            key = defect[4:]
            if case[key] is None:
                defect = None
            else:
                k = self._k(rng, n)
                case[key] = self._resize(rng, case[key], k, (lambda r: r.randint(1, 4)) if key == "sw" else fillv)
                defect = f"{defect}:{k:+d}"
        elif defect in ("len:sf", "len:cf"):
            key = defect[4:]
            if case[key] is None:
                defect = None
            else:
                k = self._k(rng, n)
                cols = case[key]
                if cont[key] == "dict" and len(cols) > 1 and rng.random() < 0.5:
                    j = rng.randrange(len(cols))       # one column of a dict only
                    cols[j]["vals"] = self._resize(rng, cols[j]["vals"], k, fillv)
                else:
                    for c in cols:
                        c["vals"] = self._resize(rng, c["vals"], k, fillv)
                defect = f"{defect}:{k:+d}"
        elif defect == "dupname":
            # duplicate among the effective names: two DataFrame columns, sensitive vs control, or a generated name
            if cf and rng.random() < 0.6:
                if cont["sf"] in ("list", "ndarray", "ndarray2d") and cont["cf"] in ("series", "dataframe", "dict"):
                    cf[0]["name"] = "sensitive_feature_0"
                elif cont["sf"] in ("series", "dataframe", "dict") and cont["cf"] in ("series", "dataframe", "dict"):
                    sf[0]["name"] = sf[0]["name"] or "sex"
                    cf[-1]["name"] = sf[0]["name"]
                else:
                    cont["sf"], cont["cf"] = "series", "series"
                    sf, cf = sf[:1], cf[:1]
                    case["sf"], case["cf"] = sf, cf
                    sf[0]["name"] = "sex"
                    cf[0]["name"] = "sex"
            else:
                if len(sf) < 2:
                    sf.append({"name": None, "vals": [rng.randrange(2) for _ in range(n)]})
                cont["sf"] = "dataframe"
                sf[0]["name"] = sf[0]["name"] or "sex"
                sf[1]["name"] = sf[0]["name"]
        elif defect in ("nonstr", "nonstr:cf"):
            key = "cf" if defect == "nonstr:cf" and cf else "sf"
            cols = case[key]
            if cont[key] in ("list", "ndarray", "ndarray2d"):
                cont[key] = rng.choice(["series", "dataframe", "dict"] if len(cols) == 1 else ["dataframe", "dict"])
            j = rng.randrange(len(cols))
            cols[j]["name"] = {"int": rng.choice([0, 1, 7])}
            for c in cols:
                if c["name"] is None:
                    c["name"] = "sex2"
            defect = f"nonstr:{key}[{j}]"
        elif defect == "nosf":
            case["sf"] = None
        # DataFrame / dict containers need explicit names
        for key in ("sf", "cf"):
            if case[key] and cont[key] in ("dataframe", "dict"):
                for i, c in enumerate(case[key]):
                    if c["name"] is None:
                        c["name"] = f"{key}_col{i}"
        case["defect"] = defect
        return case

    def gen_ctor(self, rng):
        r = rng.random()
        if r < 0.45:
            cls = rng.choice(PARITY)
            mode = rng.choice(["default", "diff", "ratio_ok", "ratio_ok", "both", "ratio_bad", "ratio_bad", "ratio_bad",
                               "neg_diff", "neg_diff", "neg_slack", "neg_slack"])
            diff = ratio = None
            slack = rng.choice([None, "0", "1/10"])
            if mode in ("diff", "both"):
                diff = rng.choice(["1/100", "0", "1/2", "1/4", "2"])
            if mode == "neg_diff":
                diff = rng.choice(["-1", "-1/10", "-1/1048576", "-2"])
                if rng.random() < 0.3:
                    slack = "-1/10"     # ignored without a ratio bound: the defect is the negative difference bound
            if mode in ("ratio_ok", "both", "neg_slack"):
                ratio = rng.choice(["1", "1/2", "1/1024", "4/5", "1.0"])
            if mode == "neg_slack":
                slack = rng.choice(["-1/10", "-1", "-1/1048576"])
            if mode == "default" and rng.random() < 0.3:
                slack = "-1/10"         # ratio_bound_slack is ignored if ratio_bound is not specified: well formed
            if mode == "ratio_bad":
                ratio = rng.choice(["0", "-1/2", "5/4", "2", "1048577/1048576", "-1", "0.0", "nan", "inf"])
            return {"ep": "parity", "cls": cls, "diff": diff, "ratio": ratio, "slack": slack,
                    "defect": {"both": "both_bounds", "ratio_bad": f"ratio:{ratio}", "neg_diff": f"negdiff:{diff}",
                               "neg_slack": f"negslack:{slack}"}.get(mode)}
        if r < 0.8:
            mode = rng.choice(["none", "ok", "ok", "neg_fp", "neg_fn", "both_zero", "missing_key", "extra_key", "not_dict", "wrong_key", "nan"])
            fp, fn = rng.choice(["1", "2", "1/2", "0"]), rng.choice(["1", "3", "1/4"])
            spec = {"kind": "dict", "items": {"fp": fp, "fn": fn}}
            if mode == "none":
                spec = None
            elif mode == "neg_fp":
                spec["items"]["fp"] = rng.choice(["-1", "-1/8"])
            elif mode == "neg_fn":
                spec["items"]["fn"] = rng.choice(["-2", "-1/1024"])
            elif mode == "both_zero":
                spec["items"] = {"fp": "0", "fn": "0"}
            elif mode == "missing_key":
                del spec["items"][rng.choice(["fp", "fn"])]
            elif mode == "extra_key":
                spec["items"]["tp"] = "1"
            elif mode == "wrong_key":
                spec["items"] = {"FP": fp, "fn": fn}
            elif mode == "not_dict":
                spec = {"kind": rng.choice(["list", "tuple", "number"]), "items": {"fp": fp, "fn": fn}}
            elif mode == "nan":
                spec["items"][rng.choice(["fp", "fn"])] = "nan"
            return {"ep": "costs", "costs": spec, "defect": None if mode in ("none", "ok") else "costs:" + mode}
        cw = rng.choice(["0", "1", "1/2", "1/4", "1.0", "-1/4", "5/4", "2", "-1", "1048577/1048576", "nan"])
        bad = cw == "nan" or not (0 <= F(cw) <= 1)
        return {"ep": "gsctor", "cw": cw, "defect": f"cw:{cw}" if bad else None}

    def gen_predict(self, rng):
        est = rng.choice(PREDICTORS)
        fitted = rng.random() < 0.25 and not est.startswith("adv")
        n, X, y, sf = self._base_data(rng)
        return {"ep": "predict", "est": est, "fitted": fitted, "n": n, "X": X, "y": y, "sf": sf,
                "cont": {"X": rng.choice(X_CONT)}, "defect": None if fitted else "unfitted"}

    def gen_topredict(self, rng, defect=None):
        """ThresholdOptimizer / InterpolatedThresholder at prediction time: sensitive features of the wrong length / None"""
        n, X, y, sf = self._base_data(rng)
        npred = rng.randint(1, 8)
        Xp = [[rng.randint(-3, 3), rng.randint(0, 2)] for _ in range(npred)]
        groups = sorted(set(sf))
        sfp = [rng.choice(groups) for _ in range(npred)]
        if defect is None:
            defect = rng.choice(["none", "none", "len", "len", "len", "nosf", "unfitted", "unfitted+len"])
        fitted = not defect.startswith("unfitted")
        if "len" in defect:
            k = rng.choice([1, 1, 2, 3, npred - 1, npred]) if npred > 1 else rng.choice([1, 2])
            k = k if rng.random() < 0.5 or k >= npred else -k
            if k == 0:
                k = 1
            sfp = self._resize(rng, sfp, k, lambda r: r.choice(groups))
            if not sfp:
                sfp = [groups[0]] * (npred + 1)
        if defect == "nosf":
            sfp = None
        return {"ep": "topredict", "meth": rng.choice(["predict", "_pmf_predict"]), "fitted": fitted, "X": X, "y": y, "sf": sf,
                "Xp": Xp, "sfp": sfp, "sf_enc": rng.choice(["int", "str"]),
                "cont": {"X": rng.choice(X_CONT), "sfp": rng.choice(VEC_CONT)}, "defect": None if defect == "none" else defect}

    def gen_framefns(self, rng, mode=None):
        """MetricFrame sample_params: not a dict, a key that is not a metric name, a per-metric value that is not a dict"""
        n, X, y, sf = self._base_data(rng)
        form = rng.choice(["single", "dict", "dict2"])
        mode = mode or rng.choice(SP_MODES)
        if form == "single" and mode in ("unknown_key",) + tuple(m for m in SP_MODES if m.startswith("inner")):
            form = "dict"
        bad = mode.startswith("notdict") or mode == "unknown_key" or mode.startswith("inner")
        return {"ep": "framefns", "form": form, "mode": mode, "y_true": y, "y_pred": [rng.randint(0, 1) for _ in range(n)], "sf": sf,
                "w": [rng.randint(1, 3) for _ in range(n)], "target": rng.choice(["sel", "acc"]) if form == "dict2" else "sel",
                "defect": ("sample_params:" + mode) if bad else None}

    def gen_corr(self, rng):
        m = rng.randint(2, 4)
        n = rng.randint(3, 6)
        X = [[rng.randint(-3, 3) for _ in range(m)] for _ in range(n)]
        cont = rng.choice(["ndarray", "dataframe"])
        names = rng.sample(["s", "t", "u", "v", "w"], m)
        if rng.random() < 0.6:
            ids = rng.sample(range(m), rng.randint(1, m - 1))
            defect = None
            if rng.random() < 0.5:
                bad = rng.choice([m, m + 2, -1, "zzz"] if cont == "ndarray" else ["zzz", 0, m])
                ids.insert(rng.randint(0, len(ids)), {"raw": bad})
                defect = f"missing_column:{bad}"
            return {"ep": "corrfit", "X": X, "cont": cont, "names": names, "ids": ids, "defect": defect}
        mnew = rng.choice([m, m, m + 1, m - 1])
        return {"ep": "corrtransform", "X": X, "cont": cont, "names": names, "ids": [0], "fitted": True, "m_new": mnew,
                "defect": None if mnew == m else f"width:{mnew - m:+d}"}

    def table_sweep(self, rng):
        """the whole constraint x objective table of ThresholdOptimizer (plus unknown names) on valid data, and the
        boundary values of every numeric parameter check"""
        for c in ALL_CONSTRAINTS + BAD_NAMES[:2]:
            for o in ALL_OBJECTIVES + BAD_NAMES[2:4]:
                case = self.gen_mit(rng, "to", defect="none")
                case["constraint"], case["objective"], case["defect"] = c, o, None if supported(c, o) else "combo"
                yield case
        for cls in PARITY:
            for ratio in ["1", "1/2", "1/1048576", "0", "-1/1048576", "1048577/1048576", "2", "-1"]:
                bad = not (0 < F(ratio) <= 1)
                yield {"ep": "parity", "cls": cls, "diff": None, "ratio": ratio, "slack": None, "defect": f"ratio:{ratio}" if bad else None}
            yield {"ep": "parity", "cls": cls, "diff": "1/100", "ratio": "1/2", "slack": None, "defect": "both_bounds"}
            for diff in ["-1", "-1/1048576", "0"]:
                yield {"ep": "parity", "cls": cls, "diff": diff, "ratio": None, "slack": None,
                       "defect": f"negdiff:{diff}" if F(diff) < 0 else None}
            for slack in ["-1/10", "-1/1048576", "0"]:
                yield {"ep": "parity", "cls": cls, "diff": None, "ratio": "1/2", "slack": slack,
                       "defect": f"negslack:{slack}" if F(slack) < 0 else None}
        for fp, fn in [("0", "0"), ("0", "1"), ("1", "0"), ("-1/1048576", "1"), ("1", "-1/1048576"), ("1/1048576", "0"), ("0", "-1")]:
            ok = F(fp) >= 0 and F(fn) >= 0 and F(fp) + F(fn) > 0
            yield {"ep": "costs", "costs": {"kind": "dict", "items": {"fp": fp, "fn": fn}}, "defect": None if ok else "costs:boundary"}
        for cw in ["0", "1", "-1/1048576", "1048577/1048576", "1/2", "-1", "2"]:
            ok = 0 <= F(cw) <= 1
            yield {"ep": "gsctor", "cw": cw, "defect": None if ok else f"cw:{cw}"}
        for est in PREDICTORS:
            n, X, y, sf = self._base_data(rng)
            yield {"ep": "predict", "est": est, "fitted": False, "n": n, "X": X, "y": y, "sf": sf,
                   "cont": {"X": rng.choice(X_CONT)}, "defect": "unfitted"}
        for mode in SP_MODES:
            yield self.gen_framefns(rng, mode)
        for cont in VEC_CONT:
            for defect in ("len", "nosf", "unfitted+len"):
                case = self.gen_topredict(rng, defect)
                case["cont"]["sfp"] = cont
                yield case

    def generate(self, rng, tier):
        yield from self.table_sweep(rng)
        while True:
            r = rng.random()
            if r < 0.45:
                yield self.gen_mit(rng)
            elif r < 0.5:
                yield self.gen_vsrc(rng)
            elif r < 0.75:
                yield self.gen_frame(rng)
            elif r < 0.88:
                yield self.gen_ctor(rng)
            elif r < 0.92:
                yield self.gen_predict(rng)
            elif r < 0.95:
                yield self.gen_topredict(rng)
            elif r < 0.975:
                yield self.gen_framefns(rng)
            else:
                yield self.gen_corr(rng)

    def exhaustive(self, tier):
        """every mitigator entry point x defect kind x container of the defective argument, and every
        constraint x objective pair of ThresholdOptimizer (fixed PRNG: small-scope sweep, not a proof)"""
        import random
        rng = random.Random(20)
        for ep in MIT_EPS:
            for defect in ["len:y", "len:sf", "len:cf", "len:X", "label", "nosf", "noy"] + (["degenerate", "cf"] if ep == "to" else []):
                for cont in VEC_CONT:
                    for xc in X_CONT:
                        case = self.gen_mit(rng, ep, defect=defect)
                        key = defect[4:] if defect.startswith("len:") and defect != "len:X" else ("y" if defect in ("label", "degenerate") else "sf")
                        case["cont"][key] = cont
                        case["cont"]["X"] = xc
                        yield case
        for defect in ["len:y_pred", "len:y_true", "len:sf", "len:cf", "len:sw", "dupname", "nonstr", "nonstr:cf", "nosf"]:
            for _ in range(40):
                yield self.gen_frame(rng, defect=defect)
        for est in PREDICTORS:
            n, X, y, sf = self._base_data(rng)
            for xc in X_CONT:
                yield {"ep": "predict", "est": est, "fitted": False, "n": n, "X": X, "y": y, "sf": sf, "cont": {"X": xc}, "defect": "unfitted"}

    # ================================================================ shrinking
    def shrink(self, case):
        ep = case["ep"]
        if ep in MIT_EPS or ep == "vsrc":
            for key, simple in (("y", "list"), ("sf", "list"), ("cf", "list"), ("X", "ndarray")):
                if case["cont"].get(key) != simple:
                    yield dict(case, cont=dict(case["cont"], **{key: simple}))
            if case.get("sf_enc") != "int":
                yield dict(case, sf_enc="int")
            # drop one row everywhere (keeps every length difference)
            lens = [len(case[k]) for k in ("X", "y", "sf", "cf") if case.get(k) is not None]
            if lens and min(lens) > 2:
                for i in range(min(lens)):
                    c = dict(case)
                    for k in ("X", "y", "sf", "cf"):
                        if c.get(k) is not None:
                            c[k] = c[k][:i] + c[k][i + 1:]
                    c["n"] = len(c["X"])
                    yield c
        elif ep == "frame":
            for key in ("y_true", "y_pred", "sw"):
                if case["cont"].get(key) != "list":
                    yield dict(case, cont=dict(case["cont"], **{key: "list"}))
            if case["metric"] != "single":
                yield dict(case, metric="single")
            if case["cf"] is not None:
                yield dict(case, cf=None)
            if case["sw"] is not None:
                yield dict(case, sw=None)
            lens = [len(case["y_true"]), len(case["y_pred"])] + [len(c["vals"]) for c in (case["sf"] or []) + (case["cf"] or [])] \
                + ([len(case["sw"])] if case["sw"] else [])
            if min(lens) > 2:
                c = dict(case, y_true=case["y_true"][:-1], y_pred=case["y_pred"][:-1],
                         sf=[dict(x, vals=x["vals"][:-1]) for x in case["sf"]] if case["sf"] else None,
                         cf=[dict(x, vals=x["vals"][:-1]) for x in case["cf"]] if case["cf"] else None,
                         sw=case["sw"][:-1] if case["sw"] else None)
                yield c

    # ================================================================ descriptor / oracle
    def spec(self, case):
        """(well formed?, expected outcome class when ill formed or None, relation name)"""
        ep = case["ep"]
        if ep == "vsrc":
            # the documented contract of _validate_and_reformat_input, flag by flag (independent of the model and the lifter)
            ey, es, eb = case["flags"]
            n = len(case["X"])
            y, sf, cf = case["y"], case["sf"], case["cf"]
            rel = "C20.validateSrc_ok_iff_flags"
            if ey and (y is None or len(y) == 0):
                return False, None, rel + "(y missing or empty under expect_y)"
            if ey and eb and not all(label_is_binary(v) for v in y):
                return False, None, rel + "(label outside {0,1} under enforce_binary_labels)"
            if n == 0:
                return False, None, rel + "(X without rows)"
            if y is not None and len(y) != n:
                return False, None, rel + "(rows of y)"
            if sf is None and es:
                return False, None, rel + "(sensitive features missing under expect_sensitive_features)"
            if (sf is not None and len(sf) != n) or (cf is not None and len(cf) != n):
                return False, None, rel + "(rows of a feature)"
            return True, None, rel
        if ep in MIT_EPS:
            n = len(case["X"])
            y, sf, cf = case["y"], case["sf"], case["cf"]
            if y is None or sf is None:
                return False, None, "C20.missing_sensitive_rejected"
            if ep == "to":
                if not supported(case["constraint"], case["objective"]):
                    return False, None, "C20.unsupported_combination_rejected"
                if cf is not None:
                    return False, None, "C20.unsupported_combination_rejected(control_features)"
            if len(y) != n or len(sf) != n or (cf is not None and ep != "to" and len(cf) != n):
                return False, None, "C20.length_mismatch_rejected"
            if not all(label_is_binary(v) for v in y):
                return False, None, "C20.bad_label_rejected"
            if ep == "to":
                for g in set(sf):
                    ls = {int(label_value(v)) for v, s in zip(y, sf) if s == g}
                    if ls != {0, 1}:
                        return False, None, "C20.degenerate_group_rejected"
            return True, None, "C20.accepts_iff_wellFormed"
        if ep == "frame":
            n = len(case["y_true"])
            if len(case["y_pred"]) != n or (case["sw"] is not None and len(case["sw"]) != n):
                return False, None, "C20.frame_length_mismatch_rejected"
            if not case["sf"]:
                return False, None, "C20.frame_bad_names_rejected(no sensitive feature)"
            names = effective_names(case["sf"], case["cont"]["sf"], "sensitive_feature_")
            cols = list(case["sf"])
            if case["cf"]:
                names += effective_names(case["cf"], case["cont"]["cf"], "control_feature_")
                cols += case["cf"]
            if any(len(c["vals"]) != n for c in cols):
                return False, None, "C20.frame_length_mismatch_rejected"
            if any(nm is None for nm in names) or len(set(names)) != len(names):
                return False, None, "C20.frame_bad_names_rejected"
            return True, None, "C20.accepts_iff_wellFormed"
        if ep == "parity":
            if case["diff"] is not None and case["ratio"] is not None:
                return False, None, "C20.bad_bounds_rejected"
            if case["ratio"] is not None:
                r = case["ratio"]
                if r in ("nan", "inf") or not (0 < F(r) <= 1):
                    return False, None, "C20.bad_bounds_rejected"
                # the slack of a ratio constraint must not be negative (it is ignored when no ratio bound is given)
                if case["slack"] is not None and F(case["slack"]) < 0:
                    return False, None, "C20.bad_bounds_rejected(negative ratio_bound_slack)"
            elif case["diff"] is not None and F(case["diff"]) < 0:
                return False, None, "C20.bad_bounds_rejected(negative difference_bound)"
            return True, None, "C20.accepts_iff_wellFormed"
        if ep == "costs":
            sp = case["costs"]
            if sp is None:
                return True, None, "C20.accepts_iff_wellFormed"
            it = sp["items"]
            ok = (sp["kind"] == "dict" and set(it) == {"fp", "fn"} and "nan" not in it.values()
                  and F(it["fp"]) >= 0 and F(it["fn"]) >= 0 and F(it["fp"]) + F(it["fn"]) > 0)
            return ok, None, "C20.bad_costs_rejected" if not ok else "C20.accepts_iff_wellFormed"
        if ep == "gsctor":
            ok = case["cw"] != "nan" and 0 <= F(case["cw"]) <= 1
            return ok, None if ok else "RuntimeError", "C20.constraint_weight_rejected" if not ok else "C20.accepts_iff_wellFormed"
        if ep == "predict":
            return case["fitted"], None if case["fitted"] else "NotFittedError", "C20.predict_before_fit_rejected"
        if ep == "topredict":
            if not case["fitted"]:
                return False, "NotFittedError", "C20.predict_before_fit_rejected"
            ok = case["sfp"] is not None and len(case["sfp"]) == len(case["Xp"])
            return ok, None, "C20.predict_time_sensitive_rejected" if not ok else "C20.accepts_iff_wellFormed"
        if ep == "framefns":
            ok = case["defect"] is None
            return ok, None, "C20.frame_sample_params_rejected" if not ok else "C20.accepts_iff_wellFormed"
        if ep == "corrfit":
            m = len(case["X"][0])
            valid = set(range(m)) if case["cont"] == "ndarray" else set(case["names"])
            ids = [i["raw"] if isinstance(i, dict) else (i if case["cont"] == "ndarray" else case["names"][i]) for i in case["ids"]]
            ok = all((i in valid) and not isinstance(i, bool) for i in ids)
            return ok, None, "C20.corr_rejected"
        if ep == "corrtransform":
            ok = case["m_new"] == len(case["X"][0])
            return ok, None, "C20.corr_rejected"
        raise ValueError(ep)

    def lines(self, case, o):
        ep = case["ep"]
        opt = lambda v, enc: "none" if v is None else enc(v)  # noqa: E731
        if ep in MIT_EPS or ep == "vsrc":
            def lab(v):
                lv = label_value(v)
                if isinstance(lv, str) or (isinstance(lv, float) and math.isnan(lv)):
                    return F(2)          # any non-numeric / NaN label: "not 0/1"
                return F(int(lv)) if isinstance(lv, bool) else F(lv)

            def labs(y):
                return proto.lst([lab(v) for v in y])
            n = len(case["X"])
            y, sf, cf = opt(case["y"], labs), opt(case["sf"], proto.lst), opt(case["cf"], proto.lst)
            if ep == "vsrc":
                ey, es, eb = case["flags"]
                return [f"val.src {proto.b(ey)} {proto.b(es)} {proto.b(eb)} {n} {y} {sf} {cf}"]
            if ep == "to":
                return [f"val.to 1 {proto.s(case['constraint'])} {proto.s(case['objective'])} {n} {y} {sf} {cf}"]
            return [f"val.mit {n} {y} {sf} {cf}"]
        if ep == "frame":
            def cols(cs, cont, base):
                if not cs:
                    return "- - -"
                nm = effective_names(cs, cont, base)
                return " ".join([proto.strs([x if x is not None else "?" for x in nm]), proto.lst([x is not None for x in nm], proto.b),
                                 proto.lst([len(c["vals"]) for c in cs])])
            ps = proto.lst([len(case["sw"])]) if case["sw"] is not None else "-"
            desc = (f"{len(case['y_true'])} {len(case['y_pred'])} {ps} "
                    f"{cols(case['sf'], case['cont']['sf'], 'sensitive_feature_')} {cols(case['cf'], case['cont']['cf'], 'control_feature_')}")
            # the hand-written constructor AND the list of checks lifted from MetricFrame.__init__ (Generated/FrameChecksSrc.lean)
            return ["val.frame " + desc, "fchk.frame " + desc]
        if ep == "parity":
            if case["ratio"] in ("nan", "inf"):
                return []
            return [f"val.parity {proto.b(case['diff'] is not None)} {proto.b(case['ratio'] is not None)} "
                    f"{proto.rat(F(case['ratio'])) if case['ratio'] is not None else '1'} "
                    f"{proto.rat(F(case['diff'])) if case['diff'] is not None else '0'} "
                    f"{proto.rat(F(case['slack'])) if case['slack'] is not None else '0'}"]
        if ep == "costs":
            sp = case["costs"]
            if sp is None:
                return ["val.costs 0 1 1 1 1"]
            it = sp["items"]
            if "nan" in it.values():
                return []
            return [f"val.costs 1 {proto.b(sp['kind'] == 'dict')} {proto.b(set(it) == {'fp', 'fn'})} "
                    f"{proto.rat(F(it.get('fp', '0')))} {proto.rat(F(it.get('fn', '0')))}"]
        if ep == "gsctor":
            return [] if case["cw"] == "nan" else [f"val.gs 1 1 {proto.rat(F(case['cw']))}"]
        if ep == "predict":
            kind, meth = case["est"].split(".")
            return [f"val.predictm {proto.s(CLASS_OF[kind])} {proto.s(meth)} {proto.b(case['fitted'])}",
                    f"val.predict {proto.b(case['fitted'])}"]
        if ep == "topredict":
            sfp = case["sfp"]
            return [f"val.topredict {proto.b(case['fitted'])} {proto.b(sfp is not None)} {len(case['Xp'])} {0 if sfp is None else len(sfp)}"]
        if ep == "framefns":
            mode, form = case["mode"], case["form"]
            given = mode != "none"
            is_dict = given and not mode.startswith("notdict")
            return [f"val.framefns {proto.b(given)} {proto.b(is_dict)} {proto.b(form != 'single')} "
                    f"{proto.b(mode != 'unknown_key')} {proto.b(not mode.startswith('inner'))}"]
        if ep == "corrfit":
            m = len(case["X"][0])
            ids = [(i["raw"] if isinstance(i["raw"], int) and i["raw"] >= 0 and case["cont"] == "ndarray" else 99) if isinstance(i, dict) else i
                   for i in case["ids"]]
            return [f"val.corrfit {proto.lst(range(m))} {proto.lst(ids)}"]
        if ep == "corrtransform":
            return [f"val.corrtransform 1 {len(case['X'][0])} {case['m_new']}"]
        return []

    # ================================================================ implementation
    def impl(self, case):
        import logging
        import pandas as pd
        logging.getLogger("fairlearn").setLevel(logging.ERROR)
        import fairlearn.reductions as red
        from fairlearn.metrics import MetricFrame, selection_rate
        from fairlearn.postprocessing import ThresholdOptimizer
        from fairlearn.preprocessing import CorrelationRemover
        ep = case["ep"]
        if ep == "vsrc":
            from fairlearn.utils._input_validation import _validate_and_reformat_input
            ey, es, eb = case["flags"]
            X = render_X(case["X"], case["cont"]["X"])
            cy = case["cont"]["y"] if ey or case["cont"]["y"] in ("ndarray", "series") else "ndarray"
            y = None if case["y"] is None else render_vec(case["y"], cy, None, "label")
            kw = {}
            if case["sf_mode"] != "omit":
                kw["sensitive_features"] = None if case["sf"] is None else render_vec(case["sf"], case["cont"]["sf"], "sf", case["sf_enc"])
            if case["cf"] is not None:
                kw["control_features"] = render_vec(case["cf"], case["cont"]["cf"], "cf", "int")
            return {"out": outcome(lambda: _validate_and_reformat_input(X, y, expect_y=ey, expect_sensitive_features=es,
                                                                         enforce_binary_labels=eb, **kw))}
        if ep in MIT_EPS:
            X = render_X(case["X"], case["cont"]["X"])
            y = None if case["y"] is None else render_vec(case["y"], case["cont"]["y"], None, "label")
            kw = {}
            if case["sf_mode"] != "omit":
                kw["sensitive_features"] = None if case["sf"] is None else render_vec(case["sf"], case["cont"]["sf"], "sf", case["sf_enc"])
            if case["cf"] is not None:
                kw["control_features"] = render_vec(case["cf"], case["cont"]["cf"], "cf", "int")
            if ep.startswith("moment:"):
                mom = getattr(red, ep[7:])()
                return {"out": outcome(lambda: mom.load_data(X, y, **kw))}
            if ep == "eg":
                est = red.ExponentiatedGradient(make_learner(), red.DemographicParity(), max_iter=2)
                return {"out": outcome(lambda: est.fit(X, y, **kw))}
            if ep == "gs":
                est = red.GridSearch(make_learner(), red.DemographicParity(), grid_size=2)
                return {"out": outcome(lambda: est.fit(X, y, **kw))}
            est = ThresholdOptimizer(estimator=make_learner(), constraints=case["constraint"], objective=case["objective"],
                                     grid_size=20, predict_method="predict_proba")
            return {"out": outcome(lambda: est.fit(X, y, **kw))}
        if ep == "frame":
            from sklearn.metrics import accuracy_score
            c = case["cont"]
            yt = render_vec(case["y_true"], c["y_true"], "y_true")
            yp = render_vec(case["y_pred"], c["y_pred"], "y_pred")
            sf = render_cols(case["sf"], c["sf"], case["sf_enc"])
            cf = render_cols(case["cf"], c["cf"], "int")
            sw = None if case["sw"] is None else render_vec([float(v) for v in case["sw"]], c["sw"], "w")
            if case["metric"] == "single":
                metrics, sp = selection_rate, (None if sw is None else {"sample_weight": sw})
            elif case["metric"] == "dict":
                metrics, sp = {"sel": selection_rate}, (None if sw is None else {"sel": {"sample_weight": sw}})
            else:
                metrics = {"acc": accuracy_score, "sel": selection_rate}
                sp = None if sw is None else {"acc": {"sample_weight": sw}}
            kw = {} if cf is None else {"control_features": cf}
            if sp is not None:
                kw["sample_params"] = sp
            return {"out": outcome(lambda: MetricFrame(metrics=metrics, y_true=yt, y_pred=yp, sensitive_features=sf, **kw))}
        if ep == "parity":
            kw = {}
            for k, name in (("diff", "difference_bound"), ("ratio", "ratio_bound"), ("slack", "ratio_bound_slack")):
                if case[k] is not None:
                    kw[name] = float(case[k]) if case[k] in ("nan", "inf") else num(case[k])
            return {"out": outcome(lambda: getattr(red, case["cls"])(**kw))}
        if ep == "costs":
            sp = case["costs"]
            if sp is None:
                arg = None
            else:
                d = {k: (float("nan") if v == "nan" else num(v)) for k, v in sp["items"].items()}
                arg = {"dict": d, "list": list(d.items()), "tuple": tuple(d.values()), "number": sum(d.values())}[sp["kind"]]
            return {"out": outcome(lambda: red.ErrorRate(costs=arg))}
        if ep == "gsctor":
            cw = float("nan") if case["cw"] == "nan" else num(case["cw"])
            return {"out": outcome(lambda: red.GridSearch(make_learner(), red.DemographicParity(), constraint_weight=cw))}
        if ep == "predict":
            X = render_X(case["X"], case["cont"]["X"])
            y, sf = np.array(case["y"]), np.array(case["sf"])
            kind, meth = case["est"].split(".")
            if kind == "eg":
                est = red.ExponentiatedGradient(make_learner(), red.DemographicParity(), max_iter=2)
                fit = lambda: est.fit(X, y, sensitive_features=sf)  # noqa: E731
                call = lambda: getattr(est, meth)(X)  # noqa: E731
            elif kind == "gs":
                est = red.GridSearch(make_learner(), red.DemographicParity(), grid_size=2)
                fit = lambda: est.fit(X, y, sensitive_features=sf)  # noqa: E731
                call = lambda: getattr(est, meth)(X)  # noqa: E731
            elif kind == "to":
                est = ThresholdOptimizer(estimator=make_learner(), grid_size=20, predict_method="predict_proba")
                fit = lambda: est.fit(X, y, sensitive_features=sf)  # noqa: E731
                call = lambda: getattr(est, meth)(X, sensitive_features=sf)  # noqa: E731
            elif kind == "it":
                from fairlearn.postprocessing._interpolated_thresholder import InterpolatedThresholder
                est = InterpolatedThresholder(make_learner(), {}, predict_method="predict_proba")
                fit = lambda: est.fit(X, y)  # noqa: E731
                call = lambda: getattr(est, meth)(X, sensitive_features=sf)  # noqa: E731
            elif kind == "corr":
                est = CorrelationRemover(sensitive_feature_ids=[0] if case["cont"]["X"] == "ndarray" else ["f0"])
                fit = lambda: est.fit(X)  # noqa: E731
                call = lambda: est.transform(X)  # noqa: E731
            else:
                from fairlearn.adversarial import AdversarialFairnessClassifier, AdversarialFairnessRegressor
                est = (AdversarialFairnessRegressor if kind == "advr" else AdversarialFairnessClassifier)(backend="torch")
                fit = None
                call = lambda: getattr(est, meth)(X)  # noqa: E731
            if case["fitted"]:
                fit()
            return {"out": outcome(call)}
        if ep == "topredict":
            X = render_X(case["X"], case["cont"]["X"])
            y, sf = np.array(case["y"]), np.array(case["sf"])
            est = ThresholdOptimizer(estimator=make_learner(), grid_size=20, predict_method="predict_proba")
            if case["fitted"]:
                est.fit(X, y, sensitive_features=sf)
            Xp = render_X(case["Xp"], case["cont"]["X"])
            sfp = None if case["sfp"] is None else render_vec(case["sfp"], case["cont"]["sfp"], "sf", "int")
            return {"out": outcome(lambda: getattr(est, case["meth"])(Xp, sensitive_features=sfp))}
        if ep == "framefns":
            from sklearn.metrics import accuracy_score
            w = [float(v) for v in case["w"]]
            form, mode = case["form"], case["mode"]
            metrics = {"single": selection_rate, "dict": {"sel": selection_rate},
                       "dict2": {"acc": accuracy_score, "sel": selection_rate}}[form]
            good = {"sample_weight": w} if form == "single" else {case["target"]: {"sample_weight": w}}
            if mode == "none":
                sp = None
            elif mode == "ok":
                sp = good
            elif mode == "empty":
                sp = {}
            elif mode.startswith("notdict"):
                sp = {"list": [("sample_weight", w)], "tuple": ("sample_weight", w), "str": "sample_weight", "num": 3,
                      "emptylist": []}[mode.split(":")[1]]
            elif mode == "unknown_key":
                sp = dict(good, **{"selection_rate": {"sample_weight": w}})
            else:
                inner = {"list": w, "num": 1.0, "str": "sample_weight"}[mode.split(":")[1]]
                sp = {case["target"]: inner}
            kw = {} if sp is None and mode == "none" else {"sample_params": sp}
            return {"out": outcome(lambda: MetricFrame(metrics=metrics, y_true=case["y_true"], y_pred=case["y_pred"],
                                                       sensitive_features=case["sf"], **kw))}
        if ep in ("corrfit", "corrtransform"):
            a = np.array(case["X"], dtype=float)
            X = pd.DataFrame(a, columns=case["names"]) if case["cont"] == "dataframe" else a
            ids = [i["raw"] if isinstance(i, dict) else (i if case["cont"] == "ndarray" else case["names"][i]) for i in case["ids"]]
            est = CorrelationRemover(sensitive_feature_ids=ids)
            if ep == "corrfit":
                return {"out": outcome(lambda: est.fit(X))}
            est.fit(X)
            m, mn = a.shape[1], case["m_new"]
            b = np.hstack([a, a[:, :1]])[:, :mn] if mn >= m else a[:, :mn]
            Xn = pd.DataFrame(b, columns=(case["names"] + ["extra"])[:mn]) if case["cont"] == "dataframe" else b
            return {"out": outcome(lambda: est.transform(Xn))}
        raise ValueError(ep)

    # ================================================================ judging
    _props_state = None

    def _props_ok(self):
        """do the C20 theorems (accepts <-> wellFormed over the GENERATED tables) currently elaborate?  The model
        imports the generated definitions, so after a source change that breaks those theorems the model follows the
        source and may legitimately depart from the specification; that is then a broken tie, not a harness bug."""
        if CHECK._props_state is None:
            from .. import leanrun
            CHECK._props_state = leanrun.build(["FairModel.Properties.C20"])[0]
        return CHECK._props_state

    def judge(self, case, o, mo):
        if "crash" in o:
            return [Problem("harness", f"adapter crashed: {o}")]
        wf, kind, rel = self.spec(case)
        got = o["out"]
        probs = []
        for m in (mo or []):       # every model line of the case (predict: `val.predictm` AND `val.predict`), not only the first
            if m == "bad-op":
                probs.append(Problem("harness", "driver rejected the descriptor"))
            elif (m == "ok") != wf or (kind is not None and m != kind):
                if self._props_ok():
                    probs.append(Problem("harness", f"model says {m} but the oracle says well-formed={wf} (expected {kind or 'any exception'})"))
                else:
                    probs.append(Problem("correspondence", f"the model over the regenerated source tables says {m} where the specification says "
                                         f"well-formed={wf}; the theorem tying them no longer elaborates", rel))
        if not wf:
            if got == "ok":
                probs.append(Problem("property", f"ill-formed call ({case.get('defect')}) was silently accepted by {self.describe(case)}", rel))
            elif kind is not None and got != kind:
                if case["ep"] in ("predict", "topredict"):
                    probs.append(Problem("property", f"{case.get('est', 'to.' + case.get('meth', ''))} before fit raised {got}, "
                                         f"not NotFittedError", rel))
                else:
                    probs.append(Problem("correspondence", f"expected {kind}, got {got}", rel))
        elif got != "ok":
            probs.append(Problem("correspondence", f"well-formed call was refused with {got} by {self.describe(case)}", "C20.accepts_iff_wellFormed(valid accepted)"))
        return probs

    def describe(self, case):
        ep = case["ep"]
        if ep in MIT_EPS:
            c = case["cont"]
            extra = f", constraints={case['constraint']!r}, objective={case['objective']!r}" if ep == "to" else ""
            return (f"{ep}(X:{c['X']}[{len(case['X'])}], y:{c['y']}[{None if case['y'] is None else len(case['y'])}], "
                    f"sensitive_features:{c['sf']}[{None if case['sf'] is None else len(case['sf'])}]"
                    + (f", control_features:{c['cf']}[{len(case['cf'])}]" if case["cf"] is not None else "") + extra + ")")
        return ep

    def signature(self, case, o):
        ep = case["ep"]
        d = case.get("defect")
        dk = "none" if d is None else str(d).split(":")[0] + (":" + str(d).split(":")[1] if str(d).startswith("len:") else "")
        tags = [f"ep={ep}", f"defect={dk}", f"result={o.get('out', 'crash')}"]
        if ep == "vsrc":
            tags.append("flags=" + "".join("1" if f else "0" for f in case["flags"]))
        if ep in MIT_EPS:
            tags += [f"cont.y={case['cont']['y']}", f"cont.sf={case['cont']['sf']}", f"cont.X={case['cont']['X']}"]
            if d and str(d).startswith("len:"):
                tags.append("len.k=" + str(d).split(":")[2])
                tags.append(f"len@{ep.split(':')[0]}:{str(d).split(':')[1]}:{case['cont'].get(str(d).split(':')[1], '')}")
            if case["cf"] is not None:
                tags.append("control_features=given")
        elif ep == "frame":
            tags += [f"cont.sf={case['cont']['sf']}", f"cont.y_pred={case['cont']['y_pred']}", f"metric={case['metric']}"]
        elif ep == "predict":
            tags.append(f"est={case['est']}")
        import json
        return json.dumps(case, sort_keys=True, default=str), True, tags
